#!/usr/bin/env python3
"""Writes tools/rules.json: the rule names each check evaluated in its last run (from /verif/evidence/*.json)."""
import json, glob, os
ROOT = os.path.dirname(os.path.dirname(os.path.abspath(__file__)))
out = {}
for f in sorted(glob.glob(os.path.join(ROOT, "evidence", "C*.json"))):
    e = json.load(open(f))
    out[e["property_id"]] = sorted(e["coverage"]["instances_per_rule"].keys())
json.dump(out, open(os.path.join(ROOT, "tools", "rules.json"), "w"), indent=1)
print({k: len(v) for k, v in out.items()})
