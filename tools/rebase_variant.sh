#!/bin/bash
# usage: tools/rebase_variant.sh <variant-name> — re-applies variants/<name>/patch.diff with fuzz onto /repo HEAD, rebuilds, runs the suite, rewrites the patch
export GOFLAGS=-mod=mod GOPROXY=off GOSUMDB=off GOTOOLCHAIN=local; unset GOWORK
v="$1"; WT=/tmp/wt-rbv-$v
git -C /repo worktree add -q --detach $WT HEAD || exit 2
trap 'git -C /repo worktree remove --force '$WT' >/dev/null 2>&1' EXIT
cd $WT
if ! patch -p1 --fuzz=3 -s < /verif/variants/$v/patch.diff; then echo "REJECTED: $v"; find . -name '*.rej'; exit 3; fi
find . -name '*.orig' -delete
go build ./... || { echo "does not build"; exit 4; }
go test -vet=off -count=1 . ./internal/... ./e2e/... > .suite.log 2>&1 || { echo "suite fails"; grep -E "^(FAIL|---)" .suite.log | head; exit 5; }
rm -f .suite.log
git add -N . ; git diff > /verif/variants/$v/patch.diff; git reset -q
echo "rebased $v"
