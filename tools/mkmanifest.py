#!/usr/bin/env python3
"""Regenerates /verif/MANIFEST.json from /verif/tools/claims.json.

claims.json: {"claimed": {"C12": {"text":..., "note":..., "technique":..., "design_ref":...}, ...},
              "not_applicable": {"Cxx": "reason"}}
Every property of properties.jsonl that is in neither list is put under not_applicable with the
reason "check not built yet" so that the manifest is complete at all times.
"""
import json, os, sys

ROOT = os.path.dirname(os.path.dirname(os.path.abspath(__file__)))
props = [json.loads(l)["id"] for l in open(os.path.join(ROOT, "properties.jsonl")) if l.strip()]
claims = json.load(open(os.path.join(ROOT, "tools", "claims.json")))
# rule names per property as last recorded from the evidence files (tools/dump_rules.py)
try:
    rules = json.load(open(os.path.join(ROOT, "tools", "rules.json")))
except Exception:
    rules = {}

ENV = "GOFLAGS=-mod=mod GOPROXY=off GOSUMDB=off GOTOOLCHAIN=local"
checks = []
na = []
for pid in props:
    c = claims["claimed"].get(pid)
    if c is None:
        na.append({"property_id": pid,
                   "reason": claims.get("not_applicable", {}).get(pid, "check not built yet (work in progress)")})
        continue
    checks.append({
        "property_id": pid,
        "quick_cmd": f"./check.sh {pid} quick",
        "thorough_cmd": f"./check.sh {pid} thorough",
        "evidence_file": f"/verif/evidence/{pid}.json",
        "replay_cmd_template": f"./check.sh {pid} explain {{path}}",
        "engine": "mcpcheck",
        "level_claimed": {
            "category": "other",
            "text": c["text"] + (" Rules evaluated on every run: " + ", ".join(rules[pid]) + "." if pid in rules else ""),
            "design_ref": c.get("design_ref", "DESIGN.md §4 " + pid),
        },
        "level_note": c["note"],
        "technique": c["technique"],
    })

manifest = {
    "version": 1,
    "setup_cmd": "./setup.sh",
    "hooks": {
        "guard": "verif",
        "enable": "none needed: static analysis reads /repo's sources as they are; no hook commits exist",
        "baseline_off_cmd": "cd /repo && GOFLAGS=-mod=mod go test -vet=off -count=1 ./...",
        "source_commits": [],
        "add_only": True,
    },
    "engines": [{
        "name": "mcpcheck",
        "path": "/verif/checker",
        "serves_properties": [c["property_id"] for c in checks],
        "kind_free_text": "repository-specific static analyser (go/packages + go/ssa + VTA call graph, x/tools v0.29.0): "
                          "lockset, must-pass-through, origin tracing, table agreement; decides structural necessary conditions",
    }],
    "checks": checks,
    "not_applicable": na,
    "notes": "All checks are static analyses of /repo's current working tree (nothing from /repo is executed). "
             "Each claims level 'other': it decides named structural necessary conditions of the property, not the "
             "run-time behaviour; see DESIGN.md per property for what is and is not decided. Known findings: "
             "/verif/known_findings.json.",
}
json.dump(manifest, open(os.path.join(ROOT, "MANIFEST.json"), "w"), indent=1)
print(f"MANIFEST.json: {len(checks)} checks, {len(na)} not_applicable")
