#!/bin/bash
# usage: tools/gen_v02.sh — regenerates variants/V02-rename-unexported/patch.diff against /repo HEAD: a word-boundary rename of 27 unexported
# identifiers in every .go file (library and tests), checked by gofmt, go build and the test suite in a scratch worktree.
export GOFLAGS=-mod=mod GOPROXY=off GOSUMDB=off GOTOOLCHAIN=local; unset GOWORK
WT=/tmp/wt-v02
git -C /repo worktree add -q --detach $WT HEAD || exit 2
trap 'git -C /repo worktree remove --force '$WT' >/dev/null 2>&1' EXIT
cd $WT
PAIRS="transport:wireTransport toolManager:toolRegistry mcpHandler:protocolHandler streamableHTTPClientTransport:httpStreamTransport stdioClientTransport:pipeTransport
handleNotification:serveRPCNotification sseResponder:eventStreamResponder sseSession:legacyConn sseClientTransport:legacyStreamTransport stateMu:sessionStateMu
handleRequest:serveRPCRequest respond:writeAnswer notificationSender:pushSender responseManager:pendingRegistry pendingRequests:awaiting
getSSEConnectionsLock:listenStreamsMu jsonResponder:singleBodyResponder requestHandler:rpcDispatcher getSSEConnections:listenStreams stdioProcess:childProcess
newSSEResponder:newEventStreamResponder requestMutex:stdinMu writeLock:streamMu eventQueue:outbox getSSEConnection:listenStream
serverNotificationDispatcher:notifySink deliverResponse:handOver"
args=()
for p in $PAIRS; do args+=(-e "s/\\b${p%%:*}\\b/${p##*:}/g"); done
find . -name '*.go' -not -path './examples/*' | xargs sed -i "${args[@]}"
gofmt -l . | grep -v examples | xargs -r gofmt -w
go build ./... || { echo "does not build"; exit 4; }
go test -vet=off -count=1 . ./internal/... ./e2e/... > .suite.log 2>&1 || { echo "suite fails"; grep -E "^(FAIL|---)" .suite.log | head; exit 5; }
rm -f .suite.log
git diff > /verif/variants/V02-rename-unexported/patch.diff
echo "regenerated V02: $(grep -c '^[-+]' /verif/variants/V02-rename-unexported/patch.diff) changed lines"
