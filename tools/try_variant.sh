#!/bin/bash
# usage: tools/try_variant.sh <dir-with-patch.diff> <Cnn...>  — runs the given checks on a scratch copy of /repo with the patch applied
d="$1"; shift
cd /verif; ./setup.sh >/dev/null || exit 2
T=$(mktemp -d /tmp/tv-XXXXXX); rsync -a --exclude=.git /repo/ $T/tree/; mkdir -p $T/verif; cp known_findings.json $T/verif/
(cd $T/tree && git apply --whitespace=nowarn "$d/patch.diff") || { echo "patch does not apply"; rm -rf $T; exit 3; }
for p in "$@"; do bin/mcpcheck -prop $p -tier ${TIER:-keys} -repo $T/tree -verif $T/verif 2>&1 | grep -E "^KEY|CHECK-BROKEN|^$p |^  |^violated" ; done
rm -rf $T
