#!/bin/sh
# usage: [DEMO_DEST=subdir] tools/confirm_seed.sh /tmp/seed-out/C04-a "<demo command>"  — confirms a seeded change in a scratch worktree of /repo HEAD:
#   patch applies, library builds, suite passes with it, demo FAILS with it, demo PASSES without it.
D="$1"; WT=/tmp/wt-confirm-$$
export GOFLAGS=-mod=mod GOPROXY=off GOSUMDB=off GOTOOLCHAIN=local; unset GOWORK
git -C /repo worktree add -q --detach $WT HEAD || exit 2
trap 'git -C /repo worktree remove --force '$WT' >/dev/null 2>&1' EXIT
cd $WT
if ! git apply --check "$D/patch.diff" 2>/dev/null; then echo "RESULT $D: PATCH-DOES-NOT-APPLY to HEAD"; exit 3; fi
DEMOCMD="$2"
DEST="${DEMO_DEST:-.}"
mkdir -p "$WT/$DEST"
for f in "$D"/*; do case "$(basename $f)" in patch.diff|meta.json) ;; *) cp -r "$f" "$WT/$DEST/";; esac; done
echo "--- demo WITHOUT patch: $DEMOCMD"
( eval "timeout 300 $DEMOCMD" ) > $WT/.without.log 2>&1; W=$?
git apply "$D/patch.diff"
go build ./... || { echo "RESULT $D: DOES-NOT-BUILD"; exit 4; }
echo "--- demo WITH patch"
( eval "timeout 300 $DEMOCMD" ) > $WT/.with.log 2>&1; P=$?
# suite with patch but without the demo files
for f in "$D"/*; do case "$(basename $f)" in patch.diff|meta.json) ;; *) rm -rf "$WT/$DEST/$(basename $f)";; esac; done
go test -vet=off -count=1 . ./internal/... ./e2e/... > $WT/.suite.log 2>&1; S=$?
echo "RESULT $D: demo-without-patch exit=$W (want 0), demo-with-patch exit=$P (want !=0), suite-with-patch exit=$S (want 0)"
tail -3 $WT/.with.log | cut -c1-200
[ $S -ne 0 ] && grep -E '^(FAIL|---)' $WT/.suite.log | head
exit 0
