#!/bin/bash
# usage: tools/rebase_seed.sh <seed-id>   — re-applies seeded/<id>/patch.diff with fuzz onto /repo HEAD in a scratch worktree, rewrites the
# patch, reconfirms it (tools/confirm_seed.sh) and notes the rebase in meta.json. Manual fix-up is needed if patch(1) rejects a hunk.
export GOFLAGS=-mod=mod GOPROXY=off GOSUMDB=off GOTOOLCHAIN=local; unset GOWORK
s="$1"; WT=/tmp/wt-rebase-$s
git -C /repo worktree add -q --detach $WT HEAD || exit 2
trap 'git -C /repo worktree remove --force '$WT' >/dev/null 2>&1' EXIT
cd $WT
if ! patch -p1 --fuzz=3 -s < /verif/seeded/$s/patch.diff; then echo "REJECTED: $s needs a manual rebase"; find . -name '*.rej' | head; exit 3; fi
find . -name '*.orig' -delete
go build ./... || { echo "does not build after rebase"; exit 4; }
git add -N . ; git diff > /tmp/rebased-$s.diff; git reset -q
cp /tmp/rebased-$s.diff /verif/seeded/$s/patch.diff; rm -f /tmp/rebased-$s.diff
cd /verif
cmd=$(python3 -c "import json;print(json.load(open('/verif/seeded/$s/meta.json'))['demo_cmd'])")
trap - EXIT; git -C /repo worktree remove --force $WT
out=$(tools/confirm_seed.sh /verif/seeded/$s "$cmd" | grep RESULT); echo "$out"
python3 - "$s" "$out" <<'PY'
import json,sys,subprocess
s,out=sys.argv[1:3]
head=subprocess.check_output(['git','-C','/repo','rev-parse','--short','HEAD']).decode().strip()
p='/verif/seeded/%s/meta.json'%s; m=json.load(open(p))
m['rebased']='patch re-applied with fuzz onto /repo HEAD %s after fix commits changed the context; reconfirmed: %s'%(head,out)
m.setdefault('confirmed_by_me',{})['against_repo_head']=head
json.dump(m,open(p,'w'),indent=1)
PY
