#!/usr/bin/env python3
"""tools/kf_from_check.py <Cnn> <witness> [rule-filter]  — after triage, records every unlisted violation the check currently reports as a known finding (what = the check's own detail text)."""
import json, subprocess, sys, glob, os
prop, witness = sys.argv[1], sys.argv[2]
flt = sys.argv[3] if len(sys.argv) > 3 else ""
for f in glob.glob('/verif/out/violations/%s-*.json' % prop): os.remove(f)
subprocess.run(['./check.sh', prop, 'quick'], cwd='/verif', capture_output=True)
n = 0
for f in sorted(glob.glob('/verif/out/violations/%s-*.json' % prop)):
    o = json.load(open(f))['obligation']
    if flt and flt not in o['rule']: continue
    subprocess.run(['tools/kf.py', prop, o['rule'], o['construct'], 'known', '-', o['detail'], witness], cwd='/verif', check=True)
    n += 1
print('recorded', n)
