#!/bin/sh
# usage: [DEMO_DEST=subdir] tools/keep_seed.sh <agent-out-dir> <seed-id> "<demo command>"
# Confirms the seeded change in a scratch worktree (tools/confirm_seed.sh) and, if confirmed, stores it under /verif/seeded/<seed-id>/.
SRC="$1"; ID="$2"; CMD="$3"
OUT=$(/verif/tools/confirm_seed.sh "$SRC" "$CMD" 2>&1)
LINE=$(echo "$OUT" | grep '^RESULT')
echo "$LINE"
echo "$LINE" | grep -q 'demo-without-patch exit=0 (want 0), demo-with-patch exit=[1-9][0-9]* (want !=0), suite-with-patch exit=0' || { echo "NOT CONFIRMED: $ID"; echo "$OUT" | tail -5; exit 1; }
DST=/verif/seeded/$ID
mkdir -p $DST
for f in "$SRC"/*; do case "$(basename $f)" in meta.json) ;; *) cp -r "$f" $DST/;; esac; done
python3 - "$SRC" "$DST" "$ID" "$CMD" "$LINE" "${DEMO_DEST:-.}" <<'PY'
import json,sys,subprocess
src,dst,sid,cmd,line,dest=sys.argv[1:7]
m=json.load(open(src+'/meta.json'))
head=subprocess.check_output(['git','-C','/repo','rev-parse','--short','HEAD']).decode().strip()
out={"seed_id":sid,"property":m.get("property"),"summary":m.get("summary"),"mechanism":m.get("mechanism"),
 "needs_to_manifest":m.get("needs"),"files_changed":m.get("files_changed"),
 "demo_placement":dest,"demo_cmd":cmd,
 "author":"independent sub-agent given only the property text and a scratch worktree",
 "confirmed_by_me":{"against_repo_head":head,"procedure":"tools/confirm_seed.sh: scratch worktree of /repo HEAD; demo without patch; git apply patch; go build ./...; demo with patch; suite (go test -vet=off -count=1 . ./internal/... ./e2e/...) with patch and without demo files",
   "outcome":line}}
json.dump(out,open(dst+'/meta.json','w'),indent=1)
PY
echo "KEPT $ID"
