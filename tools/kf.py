#!/usr/bin/env python3
"""tools/kf.py <property> <rule> <construct> <status known|fixed> <commit or -> <what> [witness]  — add/replace an entry of known_findings.json"""
import json, sys
path = '/verif/known_findings.json'
doc = json.load(open(path))
prop, rule, construct, status, commit, what = sys.argv[1:7]
witness = sys.argv[7] if len(sys.argv) > 7 else ""
doc['findings'] = [f for f in doc['findings'] if not (f['property'] == prop and f['rule'] == rule and f['construct'] == construct)]
e = {"property": prop, "rule": rule, "construct": construct, "status": status}
if commit != '-':
    e["commit"] = commit
if status == "fixed":
    what = "fixed: property=%s %s %s" % (prop, commit, what)
e["what"] = what
if witness:
    e["witness"] = witness
doc['findings'].append(e)
doc['findings'].sort(key=lambda f: (f['property'], f['status'], f['rule'], f['construct']))
json.dump(doc, open(path, 'w'), indent=1, ensure_ascii=False)
