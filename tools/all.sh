#!/bin/sh
# Runs every claimed check (quick, or the tier given as $1) on /repo's current tree; prints one line each; exit 1 if any is non-zero.
cd /verif; T=${1:-quick}; rc=0
for p in $(python3 -c "import json;print(' '.join(c['property_id'] for c in json.load(open('MANIFEST.json'))['checks']))"); do
  out=$(./check.sh $p $T 2>&1); code=$?
  echo "$out" | tail -1 | sed "s/^/[exit $code] /"
  [ $code -ne 0 ] && { rc=1; echo "$out" | grep -E 'VIOLATION|CHECK-BROKEN' | head -5; }
done
exit $rc
