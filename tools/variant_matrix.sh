#!/bin/bash
# usage: tools/variant_matrix.sh <dir-with-patch-dirs> [jobs]   — applies each <dir>/<name>/patch.diff to a scratch copy of /repo's
# working tree and runs every claimed check on it; prints the checks that are NOT silent (new violation or broken check).
SRC="$1"; J="${2:-6}"
ROOT="$(cd "$(dirname "$0")/.." && pwd)"; cd "$ROOT"; ./setup.sh >/dev/null || exit 2
export ROOT
case "$SRC" in /*) ;; *) SRC="$ROOT/$SRC";; esac
PROPS=$(python3 -c "import json;print(' '.join(c['property_id'] for c in json.load(open('MANIFEST.json'))['checks']))")
one() {
  d="$1"; name=$(basename "$d"); T=$(mktemp -d /tmp/vm-XXXXXX)
  rsync -a --exclude=.git /repo/ $T/tree/; mkdir -p $T/verif; cp $ROOT/known_findings.json $T/verif/
  if ! (cd $T/tree && git apply --whitespace=nowarn "$d/patch.diff" 2>/dev/null); then echo "$name: PATCH-DOES-NOT-APPLY"; rm -rf $T; return; fi
  if ! (cd $T/tree && GOFLAGS=-mod=mod GOPROXY=off GOSUMDB=off GOTOOLCHAIN=local go build ./... 2>/dev/null); then echo "$name: DOES-NOT-BUILD"; rm -rf $T; return; fi
  res=""
  for p in $PROPS; do
    out=$($ROOT/bin/mcpcheck -prop $p -tier keys -repo $T/tree -verif $T/verif 2>&1); code=$?
    if [ $code -ne 0 ]; then
      res="$res\n  $p exit=$code $(echo "$out" | grep -E '^KEY|CHECK-BROKEN' | head -4 | tr '\n' ';')"
    fi
  done
  if [ -z "$res" ]; then echo "$name: silent"; else printf "$name: NOT SILENT$res\n"; fi
  rm -rf $T
}
export -f one 2>/dev/null
for d in "$SRC"/*/; do
  [ -f "$d/patch.diff" ] || continue
  while [ $(jobs -r | wc -l) -ge $J ]; do sleep 0.5; done
  one "${d%/}" &
done
wait
