#!/bin/sh
# usage: tools/trypatch.sh <patch.diff> <Cnn> [more props...]  — applies the patch to /repo, runs the quick checks, reverts.
P="$1"; shift
cd /repo || exit 2
if ! git diff --quiet; then echo "/repo has uncommitted changes"; exit 2; fi
git apply "$P" || { echo "PATCH DOES NOT APPLY: $P"; exit 3; }
for prop in "$@"; do
  (cd /verif && ./check.sh "$prop" quick | grep -E 'VIOLATION|CHECK-BROKEN|^  |^C[0-9]+ ' | head -${TRY_LINES:-12}; )
done
git checkout -- . ; git clean -fdq
