#!/bin/sh
# Builds the checker from the module cache only (offline).
set -e
cd "$(dirname "$0")/checker"
export GOFLAGS=-mod=mod GOPROXY=off GOSUMDB=off GOTOOLCHAIN=local
unset GOWORK
mkdir -p ../bin
go build -o ../bin/mcpcheck ./cmd/mcpcheck
echo "built /verif/bin/mcpcheck"
