// Package report collects obligations, matches violations against the committed known-findings
// file, writes the evidence file and produces the exit status.
package report

import (
	"encoding/json"
	"fmt"
	"os"
	"path/filepath"
	"sort"
	"strings"
	"time"
)

// Status of an obligation.
const (
	Holds     = "holds"
	Violated  = "violated"
	Undecided = "undecided"
)

// Obligation is one instance of a rule on one construct.
type Obligation struct {
	Rule       string `json:"rule"`
	Construct  string `json:"construct"` // stable key: function / type.field / callee — never a line number
	Status     string `json:"status"`
	Pos        string `json:"pos,omitempty"`
	Detail     string `json:"detail,omitempty"`
	NonTrivial bool   `json:"nontrivial"` // needed a path / lockset / origin / table argument
	Known      bool   `json:"known_finding,omitempty"`
}

// Key identifies an obligation across runs.
func (o Obligation) Key() string { return o.Rule + "/" + o.Construct }

// Report accumulates the result of checking one property.
type Report struct {
	Prop        string
	Tier        string
	Seed        int64
	Explanation string
	NotDecided  string
	Assumptions []string
	Obls        []Obligation
	Minima      map[string]int // rule -> minimum number of instances confirmed by hand
	Extra       map[string]interface{}
	Broken      []string // reasons the check itself is broken (unresolved anchors, ...)
	start       time.Time
}

// New starts a report.
func New(prop, tier string, seed int64) *Report {
	return &Report{Prop: prop, Tier: tier, Seed: seed, Minima: map[string]int{}, Extra: map[string]interface{}{}, start: time.Now()}
}

// Add records an obligation.
func (r *Report) Add(o Obligation) { r.Obls = append(r.Obls, o) }

// Hold records a discharged obligation.
func (r *Report) Hold(rule, construct, pos, detail string) {
	r.Add(Obligation{Rule: rule, Construct: construct, Status: Holds, Pos: pos, Detail: detail, NonTrivial: true})
}

// Violate records a violated obligation.
func (r *Report) Violate(rule, construct, pos, detail string) {
	r.Add(Obligation{Rule: rule, Construct: construct, Status: Violated, Pos: pos, Detail: detail, NonTrivial: true})
}

// Check records holds/violated depending on ok.
func (r *Report) Check(ok bool, rule, construct, pos, holdDetail, violDetail string) {
	if ok {
		r.Hold(rule, construct, pos, holdDetail)
	} else {
		r.Violate(rule, construct, pos, violDetail)
	}
}

// Break marks the check as unable to decide (anchor missing, vacuous rule, ...).
func (r *Report) Break(format string, a ...interface{}) {
	r.Broken = append(r.Broken, fmt.Sprintf(format, a...))
}

// Min declares the minimum instance count of a rule (vacuity guard).
//
// n is the number of instances confirmed by hand on the reference tree. Behaviour-preserving refactorings merge
// duplicated code (three copies of an enqueue become one helper), so the guard trips only when fewer than half of
// them are found: its job is to catch a rule that no longer matches anything, not to freeze the code's shape.
func (r *Report) Min(rule string, n int) {
	m := (n + 1) / 2
	if m < 1 {
		m = 1
	}
	r.Minima[rule] = m
}

// KnownFinding is one entry of /verif/known_findings.json.
type KnownFinding struct {
	Property  string `json:"property"`
	Rule      string `json:"rule"`
	Construct string `json:"construct"`
	Status    string `json:"status"` // "known" or "fixed"
	Commit    string `json:"commit,omitempty"`
	What      string `json:"what"`
	Witness   string `json:"witness,omitempty"`
}

// LoadKnown reads the known-findings file (missing file = none).
func LoadKnown(path string) ([]KnownFinding, error) {
	b, err := os.ReadFile(path)
	if err != nil {
		if os.IsNotExist(err) {
			return nil, nil
		}
		return nil, err
	}
	var doc struct {
		Findings []KnownFinding `json:"findings"`
	}
	if err := json.Unmarshal(b, &doc); err != nil {
		return nil, fmt.Errorf("%s: %w", path, err)
	}
	return doc.Findings, nil
}

// Finish prints the verdict lines, writes evidence and replay files and returns the exit code.
func (r *Report) Finish(verifDir string, known []KnownFinding) int {
	r.Normalize()
	return r.finish(verifDir, known)
}

// Normalize sorts the obligations and makes their keys unique (idempotent).
func (r *Report) Normalize() {
	sort.SliceStable(r.Obls, func(i, j int) bool {
		if r.Obls[i].Rule != r.Obls[j].Rule {
			return r.Obls[i].Rule < r.Obls[j].Rule
		}
		return r.Obls[i].Construct < r.Obls[j].Construct
	})
	// duplicate keys would make known-finding matching ambiguous: number them deterministically
	seen := map[string]int{}
	for i := range r.Obls {
		k := r.Obls[i].Key()
		seen[k]++
		if seen[k] > 1 {
			r.Obls[i].Construct = fmt.Sprintf("%s#%d", r.Obls[i].Construct, seen[k])
		}
	}
}

func (r *Report) finish(verifDir string, known []KnownFinding) int {
	knownIdx := map[string]KnownFinding{}
	for _, k := range known {
		if k.Property == r.Prop && k.Status == "known" {
			knownIdx[k.Rule+"/"+k.Construct] = k
		}
	}
	counts := map[string]int{}
	nViol, nKnown, nUndec, nontrivial := 0, 0, 0, 0
	distinct := map[string]bool{}
	var violations []Obligation
	for i := range r.Obls {
		o := &r.Obls[i]
		counts[o.Rule]++
		if o.NonTrivial && !distinct[o.Key()] {
			distinct[o.Key()] = true
			nontrivial++
		}
		switch o.Status {
		case Violated:
			if k, ok := knownIdx[o.Key()]; ok {
				o.Known = true
				nKnown++
				fmt.Printf("KNOWN-FINDING: property=%s %s %s — %s\n", r.Prop, o.Rule, o.Construct, k.What)
			} else {
				nViol++
				violations = append(violations, *o)
			}
		case Undecided:
			nUndec++
		}
	}
	for rule, min := range r.Minima {
		if counts[rule] < min {
			r.Break("rule %s matched %d instance(s), fewer than the %d confirmed by hand (vacuity guard)", rule, counts[rule], min)
		}
	}
	if nUndec > 0 {
		r.Break("%d obligation(s) could not be decided", nUndec)
	}
	outDir := filepath.Join(verifDir, "out", "violations")
	os.MkdirAll(outDir, 0o755)
	for i, v := range violations {
		path := filepath.Join(outDir, fmt.Sprintf("%s-%d.json", r.Prop, i+1))
		b, _ := json.MarshalIndent(map[string]interface{}{"property": r.Prop, "obligation": v,
			"replay": fmt.Sprintf("./check.sh %s explain %s", r.Prop, path)}, "", " ")
		os.WriteFile(path, b, 0o644)
		fmt.Printf("VIOLATION property=%s replay=%s\n", r.Prop, path)
		fmt.Printf("  %s  rule=%s  construct=%s\n    %s\n", v.Pos, v.Rule, v.Construct, v.Detail)
	}
	sort.Strings(r.Broken)
	for _, b := range r.Broken {
		fmt.Printf("CHECK-BROKEN: property=%s %s\n", r.Prop, b)
	}

	// evidence
	samples := []Obligation{}
	perRule := map[string]int{}
	for _, o := range r.Obls {
		if o.Status != Holds || perRule[o.Rule] < 3 {
			if len(samples) < 60 {
				samples = append(samples, o)
			}
			perRule[o.Rule]++
		}
	}
	ruleNames := make([]string, 0, len(counts))
	for k := range counts {
		ruleNames = append(ruleNames, k)
	}
	sort.Strings(ruleNames)
	cov := map[string]interface{}{
		"explanation":         r.Explanation,
		"not_decided":         r.NotDecided,
		"evaluations":         len(r.Obls),
		"distinct_nontrivial": nontrivial,
		"rule": "one obligation per (rule, construct) instance discovered in /repo's current sources; distinct = distinct rule/construct keys; " +
			"non-trivial = decided by a path, lockset, origin or table-agreement argument (not a mere presence test). Rules: " + strings.Join(ruleNames, ", "),
		"samples":            samples,
		"exhaustive":         true,
		"instances_per_rule": counts,
		"minimum_per_rule":   r.Minima,
		"known_findings":     nKnown,
		"undecided":          nUndec,
		"check_broken":       r.Broken,
	}
	for k, v := range r.Extra {
		cov[k] = v
	}
	ev := map[string]interface{}{
		"property_id": r.Prop,
		"tier":        r.Tier,
		"seed":        r.Seed,
		"level":       "other",
		"coverage":    cov,
		"assumptions": r.Assumptions,
		"wall_s":      time.Since(r.start).Seconds(),
		"violations":  nViol,
	}
	os.MkdirAll(filepath.Join(verifDir, "evidence"), 0o755)
	b, _ := json.MarshalIndent(ev, "", " ")
	if err := os.WriteFile(filepath.Join(verifDir, "evidence", r.Prop+".json"), b, 0o644); err != nil {
		fmt.Printf("CHECK-BROKEN: property=%s cannot write evidence: %v\n", r.Prop, err)
		return 2
	}
	fmt.Printf("%s %s: %d obligations (%d rules), %d hold, %d known findings, %d violations, %.1fs\n",
		r.Prop, r.Tier, len(r.Obls), len(counts), len(r.Obls)-nViol-nKnown-nUndec, nKnown, nViol, time.Since(r.start).Seconds())
	if nViol > 0 {
		return 1
	}
	if len(r.Broken) > 0 {
		return 2
	}
	return 0
}
