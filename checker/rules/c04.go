package rules

import (
	"go/token"
	"go/types"
	"sort"
	"strings"

	"golang.org/x/tools/go/ssa"

	"verif/checker/flow"
	"verif/checker/ir"
)

// C04 — Streamable-HTTP session lifecycle.
//
// Anchors (all discovered): the session table = map field with values *Session of the internal
// session package; its inserting / deleting / looking-up functions; the stream table (C11);
// the HTTP entry = ServeHTTP of the handler type that owns the stream table.
//
//	R-sid-entropy     session ids come from >=16 bytes of crypto/rand, error edge cut, ASCII encoder
//	R-issue-point     exactly one request-path call site creates a table session; it is controlled by
//	                  "no Mcp-Session-Id header", "method is initialize" and "not stateless"
//	R-refuse          lookup-failed / unknown-id edges answer 404 (missing id: 400) and reach no state change
//	R-header-guard    every Set("Mcp-Session-Id", v) on a response is under the false edge of a
//	                  stateless flag and v is GetID() of the request's own session
//	R-stateless       stateless flag => GET answered 405 before any registration; throw-away sessions
//	                  are built by the constructor that does not insert into the table
//	R-delete          the success edge of session termination passes the stream cleanup before answering
//	R-table           session table: all accesses locked (writes exclusively), writers are methods of the
//	                  owning type only, every delete is decided by a lookup in the same critical section
func init() { Registry["C04"] = checkC04 }

type c04ctx struct {
	c          *Ctx
	accs       []Access
	sessTable  string
	sessOwner  *types.Named
	inserters  map[*ssa.Function]bool
	deleters   map[*ssa.Function]bool
	lookers    map[*ssa.Function]bool
	streamTbl  string
	reachCache map[*ssa.Function]map[*ssa.Function]bool
	httpFns    map[*ssa.Function]bool // functions reachable from ServeHTTP (sync) that take a ResponseWriter
	entry      *ssa.Function
	guardFlags map[string]bool // bool members whose false edge guards the emission of the session header
}

func (x *c04ctx) reach(f *ssa.Function) map[*ssa.Function]bool {
	if r, ok := x.reachCache[f]; ok {
		return r
	}
	r := x.c.ReachSync(f)
	x.reachCache[f] = r
	return r
}

// callReaches: the call site may (transitively, synchronously) execute a function of set.
func (x *c04ctx) callReaches(call ssa.CallInstruction, set map[*ssa.Function]bool) bool {
	for _, cal := range ir.Callees(x.c.G, call) {
		if set[cal] {
			return true
		}
		if !x.c.P.IsLib(cal) {
			continue
		}
		for f := range x.reach(cal) {
			if set[f] {
				return true
			}
		}
	}
	return false
}

func httpErrorStatus(in ssa.Instruction) (int64, bool) {
	call, ok := in.(*ssa.Call)
	if !ok || ir.CallName(call) != "net/http.Error" || len(call.Call.Args) != 3 {
		return 0, false
	}
	return ir.ConstInt(call.Call.Args[2])
}

func hasWriterParam(fn *ssa.Function) bool {
	for _, p := range fn.Params {
		if ir.TypeStr(p.Type()) == "net/http.ResponseWriter" {
			return true
		}
	}
	return false
}

func checkC04(c *Ctx) {
	c.R.Explanation = "Static check of the Streamable-HTTP session state machine on the code's own control flow: session-id entropy source, the single guarded issue point, " +
		"404/400 refusal edges that reach no state change, stateless-mode guards on every Mcp-Session-Id emission, DELETE passing the stream cleanup, and the session table's locking, writer set and check-then-act atomicity."
	c.R.NotDecided = "agreement of the live-session set with an arbitrary history (model-level claim); expiry timing; behaviour of a user-supplied session manager"
	c.R.Assumptions = []string{"crypto/rand.Read fills the whole buffer or returns an error", "net/http serves each request on its own goroutine", "type-level lock identity"}
	// "the answer to a request does not depend on any earlier request" (stateless) and "served in that session"
	// (stateful): the session a request is dispatched on is looked up or created for it, never a shared member
	dispatchOwnContext(c, "R-own-session")
	// "a request bearing an id that was never issued, or was deleted, is refused": the found-flag of the session lookup decides, not the value
	lookupOKConsulted(c, serverPathFns(c), "R-ok-consulted")
	c04HeaderBeforeStream(c)
	c04SwitchStaysOff(c)
	// "DELETE ends the session together with its open stream": the stream table rules of C11 (among them: the stream's
	// handler waits on the context that the registered cancel function cancels) are necessary here too
	{
		expl, nd, as := c.R.Explanation, c.R.NotDecided, c.R.Assumptions
		checkC11(c)
		c.R.Explanation, c.R.NotDecided, c.R.Assumptions = expl+" The listening-stream table rules of C11 are evaluated as well.", nd, as
	}
	x := newC04ctx(c)
	if x == nil {
		return
	}
	x.entropy()
	flag := x.issuePoint()
	x.refuse()
	x.headerGuard()
	x.flagWired()
	x.stateless(flag)
	x.deleteRule()
	x.table()
	x.reportFromTable()
	x.idOpaque()
}

// newC04ctx discovers the session table, the stream table and the functions around them (nil when an anchor is missing).
func newC04ctx(c *Ctx) *c04ctx {
	x := &c04ctx{c: c, guardFlags: map[string]bool{}, accs: CollectAccesses(c), inserters: map[*ssa.Function]bool{}, deleters: map[*ssa.Function]bool{}, lookers: map[*ssa.Function]bool{},
		reachCache: map[*ssa.Function]map[*ssa.Function]bool{}}

	// ---- discover the session table
	for _, a := range x.accs {
		m, ok := a.Type.Underlying().(*types.Map)
		if !ok {
			continue
		}
		pt, ok := m.Elem().(*types.Pointer)
		if !ok {
			continue
		}
		n, ok := pt.Elem().(*types.Named)
		if !ok || n.Obj().Pkg() == nil || !strings.HasSuffix(n.Obj().Pkg().Path(), "/internal/session") {
			continue
		}
		x.sessTable, x.sessOwner = a.Field, a.OwnerT
	}
	if x.sessTable == "" {
		c.R.Break("anchor not found: session table (map field with values *session.T)")
		return nil
	}
	for _, a := range x.accs {
		if a.Field != x.sessTable {
			continue
		}
		switch a.Kind {
		case "map-update":
			x.inserters[a.Fn] = true
		case "map-delete":
			x.deleters[a.Fn] = true
		case "load":
			// a plain comma-ok lookup function: has a Lookup on the table and no write
			ir.EachInstr(a.Fn, func(_ *ssa.BasicBlock, _ int, in ssa.Instruction) {
				if lk, ok := in.(*ssa.Lookup); ok && fromTableLookup(lk, x.sessTable) && lk.CommaOk {
					x.lookers[a.Fn] = true
				}
			})
		}
	}
	for f := range x.inserters {
		delete(x.lookers, f)
	}
	for f := range x.deleters {
		delete(x.lookers, f)
	}
	// stream table (as in C11)
	for _, a := range x.accs {
		if m, ok := a.Type.Underlying().(*types.Map); ok {
			if pt, ok := m.Elem().(*types.Pointer); ok {
				if st, ok := pt.Elem().Underlying().(*types.Struct); ok {
					for i := 0; i < st.NumFields(); i++ {
						if isCancelFunc(st.Field(i).Type()) {
							x.streamTbl = a.Field
							if a.OwnerT != nil {
								x.entry = c.P.Method(a.OwnerT, "ServeHTTP")
							}
						}
					}
				}
			}
		}
	}
	if x.entry == nil && x.streamTbl != "" {
		// the table lives in a type of its own: the entry point is the ServeHTTP from which its accesses are reachable
		for _, e := range serverEntries(c) {
			if e.Name() != "ServeHTTP" {
				continue
			}
			reach := c.Reach(e)
			for _, a := range x.accs {
				if a.Field == x.streamTbl && reach[a.Fn] {
					x.entry = e
				}
			}
		}
	}
	if x.entry == nil || x.streamTbl == "" {
		c.R.Break("anchor not found: ServeHTTP of the type owning the listening-stream table")
		return nil
	}
	x.httpFns = map[*ssa.Function]bool{}
	for f := range c.ReachSync(x.entry) {
		if hasWriterParam(f) {
			x.httpFns[f] = true
		}
	}
	c.R.Extra["session_table"] = x.sessTable
	c.R.Extra["stream_table"] = x.streamTbl

	return x
}

// ---------------------------------------------------------------- R-sid-entropy
func (x *c04ctx) entropy() {
	c := x.c
	// the id field: the string field of the session struct returned by its GetID method
	sessT := x.sessElem()
	if sessT == nil {
		c.R.Break("session element type not found")
		return
	}
	getID := c.P.Method(sessT, "GetID")
	idField := ""
	if getID != nil {
		ir.EachInstr(getID, func(_ *ssa.BasicBlock, _ int, in ssa.Instruction) {
			if r, ok := in.(*ssa.Return); ok && len(ir.Results(r)) == 1 {
				if f, _, ok := ir.LoadedField(ir.Results(r)[0]); ok {
					idField = f.Key()
				}
			}
		})
	}
	if idField == "" {
		c.R.Break("cannot determine the session id field from GetID")
		return
	}
	n := 0
	for _, fn := range c.P.LibFns {
		ir.EachInstr(fn, func(_ *ssa.BasicBlock, _ int, in ssa.Instruction) {
			st, ok := in.(*ssa.Store)
			if !ok {
				return
			}
			f, _, ok := ir.FieldOf(st.Addr)
			if !ok || f.Key() != idField {
				return
			}
			n++
			construct := "id stored in " + fname(fn)
			oc := originCall(st.Val)
			gen := ir.StaticCallee(oc2call(oc))
			if oc == nil || gen == nil || !c.P.IsLib(gen) {
				c.R.Violate("R-sid-entropy", construct, c.Pos(st.Pos()), sprintf("the session id stored in %s does not come from the library's generator function", fname(fn)))
				return
			}
			ok2, why := generatorOK(gen)
			c.R.Check(ok2, "R-sid-entropy", construct+" via "+fname(gen), c.Pos(st.Pos()), why, sprintf("session id generator %s: %s", fname(gen), why))
		})
	}
	c.R.Min("R-sid-entropy", 1)
	_ = n
}

func oc2call(c *ssa.Call) ssa.CallInstruction {
	if c == nil {
		return nil
	}
	return c
}

func (x *c04ctx) sessElem() *types.Named {
	for _, a := range x.accs {
		if a.Field == x.sessTable {
			m := a.Type.Underlying().(*types.Map)
			n, _ := m.Elem().(*types.Pointer).Elem().(*types.Named)
			return n
		}
	}
	return nil
}

var asciiEncoders = map[string]bool{
	"encoding/hex.EncodeToString":                true,
	"(*encoding/base64.Encoding).EncodeToString": true,
	"(*encoding/base32.Encoding).EncodeToString": true,
}

func generatorOK(gen *ssa.Function) (bool, string) {
	var read *ssa.Call
	bad := ""
	ir.EachCall(gen, func(call ssa.CallInstruction) {
		n := ir.CallName(call)
		switch {
		case n == "crypto/rand.Read":
			if cc, ok := call.(*ssa.Call); ok {
				read = cc
			}
		case strings.HasPrefix(n, "math/rand.") || strings.HasPrefix(n, "(*math/rand.") || strings.HasPrefix(n, "math/rand/v2."):
			bad = "uses math/rand (" + n + "), not the system CSPRNG"
		case n == "time.Now":
			bad = "derives the id from the clock"
		}
	})
	if bad != "" {
		return false, bad
	}
	if read == nil {
		return false, "does not call crypto/rand.Read"
	}
	// buffer: MakeSlice with constant length >= 16
	buf := read.Call.Args[0]
	ms, ok := buf.(*ssa.MakeSlice)
	var n int64
	if ok {
		n, ok = ir.ConstInt(ms.Len)
	} else if sl, isSl := buf.(*ssa.Slice); isSl {
		// slicing a fixed-size array
		if al, isAl := sl.X.(*ssa.Alloc); isAl {
			if arr, isArr := al.Type().(*types.Pointer).Elem().Underlying().(*types.Array); isArr && sl.Low == nil {
				if sl.High == nil {
					n, ok = arr.Len(), true
				} else if h, isC := ir.ConstInt(sl.High); isC {
					n, ok = h, true
				}
			}
		}
	}
	if !ok {
		return false, "cannot determine the length of the entropy buffer"
	}
	if n < 16 {
		return false, sprintf("entropy buffer is %d bytes (< 128 bits)", n)
	}
	// returned value: encoder(buf)
	okRet := true
	why := ""
	ir.EachInstr(gen, func(_ *ssa.BasicBlock, _ int, in ssa.Instruction) {
		r, isRet := in.(*ssa.Return)
		if !isRet || len(ir.Results(r)) == 0 {
			return
		}
		oc := originCall(ir.Results(r)[0])
		if oc == nil || !asciiEncoders[ir.CallName(oc)] {
			okRet, why = false, "the returned id is not produced by an allow-listed ASCII encoder (hex/base64/base32) of the random buffer"
			return
		}
		arg := oc.Call.Args[len(oc.Call.Args)-1]
		if arg != buf {
			if sl, isSl := arg.(*ssa.Slice); !isSl || sl.X != buf || sl.High != nil || sl.Low != nil {
				okRet, why = false, "the encoder is not applied to the whole random buffer"
			}
		}
	})
	if !okRet {
		return false, why
	}
	// error edge: the err result must be tested and its non-nil edge must not reach a return of an id
	errChecked := false
	for _, r := range *read.Referrers() {
		ex, isEx := r.(*ssa.Extract)
		if !isEx || ex.Index != 1 {
			continue
		}
		for _, rr := range *ex.Referrers() {
			bin, isBin := rr.(*ssa.BinOp)
			if !isBin {
				continue
			}
			for _, r3 := range *bin.Referrers() {
				ifi, isIf := r3.(*ssa.If)
				if !isIf {
					continue
				}
				errSucc := 0
				if bin.Op == token.EQL {
					errSucc = 1
				}
				esc := flow.ExitsAvoiding(gen, nil, func(ssa.Instruction) bool { return false }, false)
				_ = esc
				// a normal return reachable from the error edge = the failure is swallowed
				reach := flow.BlocksReachableAvoiding(ifi.Block().Succs[errSucc], nil)
				swallowed := false
				for b := range reach {
					for _, in := range b.Instrs {
						if _, isRet := in.(*ssa.Return); isRet {
							// returning is only acceptable if this return is also... no: any id returned after a failed read is bad
							swallowed = true
						}
					}
				}
				if !swallowed {
					errChecked = true
				}
			}
		}
	}
	if !errChecked {
		return false, "the error of crypto/rand.Read is not checked (or its failure edge still returns an id)"
	}
	return true, sprintf("%d bytes from crypto/rand.Read, failure edge cut, ASCII-encoded", n)
}

// ---------------------------------------------------------------- R-issue-point
// returns the stateless flag field key discovered on the POST path ("" if not found)
func (x *c04ctx) issuePoint() string {
	c := x.c
	type site struct {
		fn   *ssa.Function
		call *ssa.Call
	}
	var creators, throwaways []site
	ctor := map[*ssa.Function]bool{} // functions allocating a session object (constructor of the element type)
	sessT := x.sessElem()
	for _, fn := range c.P.LibFns {
		ir.EachInstr(fn, func(_ *ssa.BasicBlock, _ int, in ssa.Instruction) {
			if al, ok := in.(*ssa.Alloc); ok && al.Heap {
				if n, ok := al.Type().(*types.Pointer).Elem().(*types.Named); ok && n == sessT {
					ctor[fn] = true
				}
			}
		})
	}
	for fn := range x.httpFns {
		ir.EachInstr(fn, func(_ *ssa.BasicBlock, _ int, in ssa.Instruction) {
			call, ok := in.(*ssa.Call)
			if !ok {
				return
			}
			if sc := ir.StaticCallee(call); sc != nil && x.httpFns[sc] {
				return // forwarding to another HTTP-level function: judged there
			}
			if x.callReaches(call, x.inserters) {
				creators = append(creators, site{fn, call})
			} else if x.callReaches(call, ctor) {
				throwaways = append(throwaways, site{fn, call})
			}
		})
	}
	if len(creators) != 1 {
		var where []string
		for _, s := range creators {
			where = append(where, fname(s.fn)+"@"+c.Pos(s.call.Pos()))
		}
		c.R.Violate("R-issue-point", "session creation sites", "", sprintf("expected exactly one request-path call site that creates a table session, found %d: %v", len(creators), where))
		return ""
	}
	cr := creators[0]
	guards := flow.Guards(cr.fn, cr.call.Block())
	hdrEmpty, isInit := false, false
	for _, g := range guards {
		if condIsHeaderEmpty(g.If.Cond, "Mcp-Session-Id") == boolToPolarity(g.Branch) {
			hdrEmpty = true
		}
		if g.Branch && boolFromCompare(c, cr.fn, g.If.Cond, "initialize", 0) {
			isInit = true
		}
	}
	// what decides that a POST opens a session is its header, its id and its method — nothing read from the rest of
	// the message: a well-formed initialize with unusable params is answered by the shared handler (-32602) like on
	// every other transport and mode, not refused at the HTTP level because "it is no initialize"
	{
		body := ""
		seenV := map[ssa.Value]bool{}
		var scan func(f *ssa.Function, v ssa.Value, d int)
		scan = func(f *ssa.Function, v ssa.Value, d int) {
			if v == nil || d > 8 || seenV[v] || body != "" {
				return
			}
			seenV[v] = true
			switch y := v.(type) {
			case *ssa.BinOp:
				scan(f, y.X, d+1)
				scan(f, y.Y, d+1)
			case *ssa.UnOp:
				if u := unspill(y); u != ssa.Value(y) {
					scan(f, u, d+1)
				} else if y.Op == token.NOT {
					scan(f, y.X, d+1)
				}
			case *ssa.Phi:
				for _, e := range y.Edges {
					scan(f, e, d+1)
				}
				// the conditions under which the edges are taken (a && b && c)
				for _, pb := range y.Block().Preds {
					if ifi, ok := pb.Instrs[len(pb.Instrs)-1].(*ssa.If); ok {
						scan(f, ifi.Cond, d+1)
					}
				}
			case *ssa.Call:
				if strings.HasPrefix(ir.CallName(y), "encoding/json.") || strings.HasPrefix(ir.CallName(y), "(*encoding/json.") {
					return // "the message could be decoded at all" is not a decision about its content
				}
				for _, a := range y.Call.Args {
					switch ir.TypeStr(a.Type()) {
					case "encoding/json.RawMessage", "[]byte", "map[string]interface{}", "*mcp.JSONRPCRequest", "interface{}":
						body = ir.CallName(y)
					}
				}
				if sc := ir.StaticCallee(y); sc != nil && c.P.IsLib(sc) && body == "" {
					for _, b := range sc.Blocks {
						if ret, ok := b.Instrs[len(b.Instrs)-1].(*ssa.Return); ok && b != sc.Recover && len(ret.Results) > 0 {
							scan(sc, ir.Results(ret)[0], d+1)
						}
					}
				}
			case *ssa.Lookup:
				body = "a lookup in the decoded message"
			}
		}
		for _, g := range guards {
			scan(cr.fn, g.If.Cond, 0)
		}
		c.R.Check(body == "", "R-issue-point", "create in "+fname(cr.fn)+": decided by header, id and method only", c.Pos(cr.call.Pos()), "no condition of the session-opening branch inspects the message body",
			sprintf("whether %s opens a session for a POST also depends on the message body (%s): a well-formed initialize whose parameters it does not like is not treated as an initialize — it is refused with an HTTP error for lacking a session id instead of being answered with the JSON-RPC error every other transport and mode gives", fname(cr.fn), body))
	}
	// stateless flag: the bool field whose true edge guards the throw-away session construction
	flag := ""
	for _, t := range throwaways {
		if t.fn != cr.fn {
			continue
		}
		for _, g := range flow.Guards(t.fn, t.call.Block()) {
			if f, _, ok := ir.LoadedField(g.If.Cond); ok && g.Branch {
				if b, isB := f.Type.Underlying().(*types.Basic); isB && b.Kind() == types.Bool {
					flag = f.Key()
				}
			}
		}
	}
	notStateless := false
	for _, g := range guards {
		if f, _, ok := ir.LoadedField(g.If.Cond); ok && !g.Branch && f.Key() == flag && flag != "" {
			notStateless = true
		}
	}
	construct := "create in " + fname(cr.fn)
	c.R.Check(hdrEmpty, "R-issue-point", construct+": header empty", c.Pos(cr.call.Pos()), "controlled by an empty Mcp-Session-Id header",
		"the session-creating call is not controlled by 'request carried no Mcp-Session-Id header': a request bearing an id can be issued another one")
	c.R.Check(isInit, "R-issue-point", construct+": initialize", c.Pos(cr.call.Pos()), "controlled by method == initialize",
		"the session-creating call is not controlled by 'the message is an initialize request'")
	c.R.Check(flag != "" && notStateless, "R-issue-point", construct+": not stateless", c.Pos(cr.call.Pos()), "controlled by the false edge of the stateless flag "+flag,
		"the session-creating call is not controlled by the false edge of the stateless flag (the flag guarding the throw-away session)")
	for _, t := range throwaways {
		if t.fn == cr.fn {
			c.R.Hold("R-stateless", "throw-away session in "+fname(t.fn), c.Pos(t.call.Pos()), "stateless requests build their session with the constructor that does not insert into the table")
		}
	}
	// missing-id, not initialize: 400
	for _, g := range guards {
		if g.Branch && boolFromCompare(c, cr.fn, g.If.Cond, "initialize", 0) {
			other := g.If.Block().Succs[1]
			esc := exitsFromBlockAvoiding(cr.fn, other, func(in ssa.Instruction) bool {
				s, ok := httpErrorStatus(in)
				return ok && s == 400
			})
			c.R.Check(esc == nil, "R-refuse", "no id and not initialize in "+fname(cr.fn), ipos(c, g.If), "answered 400 on every path",
				"a non-initialize request without session id can reach the end of the handler without being answered 400")
		}
	}
	c.R.Min("R-issue-point", 3)
	return flag
}

func boolToPolarity(b bool) int {
	if b {
		return 1
	}
	return -1
}

// condIsHeaderEmpty: cond compares Header.Get(<key>) with "". Returns +1 if cond true means empty,
// -1 if cond true means non-empty, 0 otherwise.
func condIsHeaderEmpty(cond ssa.Value, key string) int {
	bin, ok := cond.(*ssa.BinOp)
	if !ok {
		return 0
	}
	var other ssa.Value
	if s, ok := ir.ConstStr(bin.Y); ok && s == "" {
		other = bin.X
	} else if s, ok := ir.ConstStr(bin.X); ok && s == "" {
		other = bin.Y
	} else {
		return 0
	}
	oc := originCall(other)
	if oc != nil && ir.CallName(oc) != "(net/http.Header).Get" {
		// an accessor that returns the header value untouched (sessionIDOf(r))
		if sc := ir.StaticCallee(oc); sc != nil && sc.Blocks != nil && len(sc.Blocks) == 1 {
			if ret, ok := sc.Blocks[0].Instrs[len(sc.Blocks[0].Instrs)-1].(*ssa.Return); ok && len(ret.Results) == 1 {
				oc = originCall(ret.Results[0])
			}
		}
	}
	if oc == nil || ir.CallName(oc) != "(net/http.Header).Get" {
		return 0
	}
	if k, ok := ir.ConstStr(oc.Call.Args[len(oc.Call.Args)-1]); !ok || !strings.EqualFold(k, key) {
		return 0
	}
	switch bin.Op {
	case token.EQL:
		return 1
	case token.NEQ:
		return -1
	}
	return 0
}

// boolFromCompare: the boolean v is (or is a phi whose true inputs are only assigned under) a
// comparison of some string with the constant want.
func boolFromCompare(c *Ctx, fn *ssa.Function, v ssa.Value, want string, depth int) bool {
	if depth > 4 {
		return false
	}
	switch x := v.(type) {
	case *ssa.BinOp:
		if x.Op == token.EQL {
			if s, ok := ir.ConstStr(x.X); ok && s == want {
				return true
			}
			if s, ok := ir.ConstStr(x.Y); ok && s == want {
				return true
			}
		}
	case *ssa.Call:
		// a predicate helper (base.isInitializeRequest()): true only where its own comparison is
		sc := ir.StaticCallee(x)
		if sc == nil || !c.P.IsLib(sc) || sc.Blocks == nil {
			return false
		}
		any := false
		for _, b := range sc.Blocks {
			ret, ok := b.Instrs[len(b.Instrs)-1].(*ssa.Return)
			if !ok || b == sc.Recover || len(ret.Results) != 1 {
				continue
			}
			if !boolFromCompare(c, sc, ir.Results(ret)[0], want, depth+1) {
				return false
			}
			any = true
		}
		return any
	case *ssa.Parameter:
		// the decision was made by the callers and handed down (helper extracted from the handler)
		idx := -1
		for i, p := range fn.Params {
			if p == x {
				idx = i
			}
		}
		all := false
		for _, e := range ir.Callers(c.G, fn) {
			if e.Site == nil || !c.P.IsLib(e.Caller.Func) || idx < 0 || idx >= len(e.Site.Common().Args) {
				continue
			}
			if !boolFromCompare(c, e.Caller.Func, e.Site.Common().Args[idx], want, depth+1) {
				return false
			}
			all = true
		}
		return all
	case *ssa.Phi:
		found := false
		for i, e := range x.Edges {
			if cst, ok := e.(*ssa.Const); ok {
				if cst.Value != nil && cst.Value.String() == "true" {
					pred := x.Block().Preds[i]
					okEdge := false
					for _, g := range flow.Guards(fn, pred) {
						if g.Branch && boolFromCompare(c, fn, g.If.Cond, want, depth+1) {
							okEdge = true
						}
					}
					if !okEdge {
						return false
					}
					found = true
				}
				continue
			}
			if !boolFromCompare(c, fn, e, want, depth+1) {
				return false
			}
			found = true
		}
		return found
	}
	return false
}

func exitsFromBlockAvoiding(fn *ssa.Function, b *ssa.BasicBlock, stop func(ssa.Instruction) bool) *flow.Escape {
	if len(b.Instrs) == 0 {
		return nil
	}
	if stop(b.Instrs[0]) {
		return nil
	}
	if _, isRet := b.Instrs[0].(*ssa.Return); isRet {
		return &flow.Escape{Exit: b.Instrs[0]}
	}
	return flow.ExitsAvoiding(fn, b.Instrs[0], stop, false)
}

// ---------------------------------------------------------------- R-refuse
func (x *c04ctx) refuse() {
	c := x.c
	stateChanging := func(fn *ssa.Function, in ssa.Instruction) string {
		call, ok := in.(ssa.CallInstruction)
		if !ok {
			return ""
		}
		if x.callReaches(call, x.inserters) {
			return "session creation"
		}
		if x.callReaches(call, x.deleters) {
			return "session termination"
		}
		if c.isDispatchCall(call) {
			return "request dispatch"
		}
		for _, cal := range ir.Callees(c.G, call) {
			if !c.P.IsLib(cal) {
				continue
			}
			for f := range x.reach(cal) {
				wr := false
				for _, a := range x.accs {
					if a.Fn == f && a.Field == x.streamTbl && a.Write {
						wr = true
					}
				}
				if wr {
					return "stream table write"
				}
			}
		}
		return ""
	}
	n := 0
	for fn := range x.httpFns {
		ir.EachInstr(fn, func(_ *ssa.BasicBlock, _ int, in ssa.Instruction) {
			call, ok := in.(*ssa.Call)
			if !ok {
				return
			}
			isLookup := x.callReaches(call, x.lookers) && !x.callReaches(call, x.inserters) && !x.callReaches(call, x.deleters)
			isTerminate := x.callReaches(call, x.deleters) && !x.callReaches(call, x.inserters)
			if sc := ir.StaticCallee(call); sc != nil && x.httpFns[sc] {
				return
			}
			if !isLookup && !isTerminate {
				return
			}
			// only call sites that themselves deliver the found/terminated verdict
			if !returnsVerdict(call) {
				return
			}
			// the boolean result
			var okv ssa.Value
			if isTerminate {
				if b, isB := call.Type().Underlying().(*types.Basic); isB && b.Kind() == types.Bool {
					okv = call
				}
			} else if refs := call.Referrers(); refs != nil {
				for _, r := range *refs {
					if ex, isEx := r.(*ssa.Extract); isEx && ex.Index == 1 {
						okv = ex
					}
				}
			}
			kind := "lookup"
			if isTerminate {
				kind = "terminate"
			}
			construct := sprintf("%s failure in %s", kind, fname(fn))
			if okv == nil {
				c.R.Violate("R-refuse", construct, c.Pos(call.Pos()), "the found/terminated result of the session table operation is ignored")
				return
			}
			var ifi *ssa.If
			neg := false
			for _, r := range *okv.Referrers() {
				switch y := r.(type) {
				case *ssa.If:
					ifi = y
				case *ssa.UnOp:
					if y.Op == token.NOT {
						for _, rr := range *y.Referrers() {
							if i2, ok := rr.(*ssa.If); ok {
								ifi, neg = i2, true
							}
						}
					}
				}
			}
			if ifi == nil {
				c.R.Violate("R-refuse", construct, c.Pos(call.Pos()), "no branch on the found/terminated result: an unknown session id is not refused")
				return
			}
			n++
			failSucc := 1
			if neg {
				failSucc = 0
			}
			fb := ifi.Block().Succs[failSucc]
			esc := exitsFromBlockAvoiding(fn, fb, func(in ssa.Instruction) bool {
				s, ok := httpErrorStatus(in)
				return ok && s == 404
			})
			c.R.Check(esc == nil, "R-refuse", construct+": 404", ipos(c, ifi), "every path from the not-found edge passes http.Error(…, 404)",
				sprintf("in %s the unknown-session edge can reach the end of the handler without answering 404", fname(fn)))
			// no state change between the failed edge and the 404
			region := flow.BlocksReachableAvoiding(fb, nil)
			bad := ""
			for b := range region {
				if !b.Dominates(b) {
					continue
				}
				for _, in2 := range b.Instrs {
					if w := stateChanging(fn, in2); w != "" && fb.Dominates(b) {
						bad = w + " at " + c.Pos(in2.Pos())
					}
				}
			}
			c.R.Check(bad == "", "R-refuse", construct+": no state change", ipos(c, ifi), "no state-changing call on the refusal edge",
				sprintf("in %s the unknown-session edge performs %s", fname(fn), bad))
		})
	}
	// missing id on GET / DELETE: 400
	for fn := range x.httpFns {
		for _, b := range fn.Blocks {
			if len(b.Instrs) == 0 {
				continue
			}
			ifi, ok := b.Instrs[len(b.Instrs)-1].(*ssa.If)
			if !ok {
				continue
			}
			pol := condIsHeaderEmpty(ifi.Cond, "Mcp-Session-Id")
			if pol == 0 {
				continue
			}
			emptySucc := 0
			if pol < 0 {
				emptySucc = 1
			}
			eb := b.Succs[emptySucc]
			esc := exitsFromBlockAvoiding(fn, eb, func(in ssa.Instruction) bool {
				if s, ok := httpErrorStatus(in); ok && s >= 400 && s < 500 {
					return true
				}
				if call, ok := in.(ssa.CallInstruction); ok && x.callReaches(call, x.inserters) {
					return true // the initialize path: a session is issued instead
				}
				return false
			})
			c.R.Check(esc == nil, "R-refuse", "missing id in "+fname(fn), ipos(c, ifi), "a request without session id is refused with 4xx (or is the initialize that gets one)",
				sprintf("in %s a request without Mcp-Session-Id can be served without being refused", fname(fn)))
		}
	}
	c.R.Min("R-refuse", 8)
}

// ---------------------------------------------------------------- R-header-guard
func (x *c04ctx) headerGuard() {
	c := x.c
	n := 0
	for _, fn := range c.P.LibFns {
		if c.InitOnly()[fn] {
			continue
		}
		ir.EachInstr(fn, func(_ *ssa.BasicBlock, _ int, in ssa.Instruction) {
			call, ok := in.(*ssa.Call)
			if !ok {
				return
			}
			nm := ir.CallName(call)
			if nm != "(net/http.Header).Set" && nm != "(net/http.Header).Add" {
				return
			}
			args := call.Call.Args
			if k, ok := ir.ConstStr(args[1]); !ok || !strings.EqualFold(k, "Mcp-Session-Id") {
				return
			}
			// response header: receiver is w.Header()
			oc := originCall(args[0])
			if oc == nil || ir.CallName(oc) != "(net/http.ResponseWriter).Header" {
				return
			}
			n++
			construct := "Set(Mcp-Session-Id) in " + fname(fn)
			guarded := false
			for _, ff := range boolFieldFacts(c, fn, call.Block(), 0) {
				if !ff.Value {
					guarded = true // on the false edge of a bool flag (directly, or established by a check-and-report helper)
					x.guardFlags[ff.Field] = true
				}
			}
			c.R.Check(guarded, "R-header-guard", construct+": stateless guard", c.Pos(call.Pos()), "emitted only on the false edge of a stateless flag",
				sprintf("%s sets the Mcp-Session-Id response header without being guarded by the false edge of a stateless flag: a stateless server would issue a session id", fname(fn)))
			vo := originCall(args[2])
			fromSession := vo != nil && strings.HasSuffix(ir.CallName(vo), ").GetID")
			c.R.Check(fromSession, "R-header-guard", construct+": value", c.Pos(call.Pos()), "value is GetID() of the request's session",
				sprintf("%s sets the Mcp-Session-Id response header to a value that is not GetID() of the request's session", fname(fn)))
		})
	}
	c.R.Min("R-header-guard", 3) // (one shared helper may hold the only Set)
	_ = n
}

// ---------------------------------------------------------------- R-stateless
func (x *c04ctx) stateless(flag string) {
	c := x.c
	if flag == "" {
		c.R.Break("stateless flag not discovered (R-stateless cannot be decided)")
		return
	}
	// the GET handler: the function that stores into the stream table
	for _, a := range x.accs {
		if a.Field != x.streamTbl || a.Kind != "map-update" {
			continue
		}
		fn := a.Fn
		site := a.Instr
		var ifi *ssa.If
		findTest := func(f *ssa.Function) *ssa.If {
			var found *ssa.If
			ir.EachInstr(f, func(_ *ssa.BasicBlock, _ int, in ssa.Instruction) {
				if i, ok := in.(*ssa.If); ok {
					if fl, _, ok := ir.LoadedField(i.Cond); ok && fl.Key() == flag {
						found = i
					}
				}
			})
			return found
		}
		// the registration may sit in a helper extracted from the handler: judge the (single) caller then
		viaHelper := false
		for lvl := 0; lvl < 3; lvl++ {
			if ifi = findTest(fn); ifi != nil {
				break
			}
			// the test may sit in a check-and-report helper whose ok-edge controls the registration
			for _, ff := range boolFieldFacts(c, fn, site.Block(), 0) {
				if ff.Field == flag && !ff.Value {
					for _, g := range flow.Guards(fn, site.Block()) {
						var hc *ssa.Call
						switch y := g.If.Cond.(type) {
						case *ssa.Call:
							hc = y
						case *ssa.Extract:
							hc, _ = y.Tuple.(*ssa.Call)
						}
						if hc == nil {
							continue
						}
						if sc := ir.StaticCallee(hc); sc != nil && c.P.IsLib(sc) {
							if t := findTest(sc); t != nil {
								ifi, viaHelper = t, true
							}
						}
					}
				}
			}
			if ifi != nil {
				break
			}
			var sites []ssa.CallInstruction
			for _, e := range ir.Callers(c.G, fn) {
				if e.Site != nil && c.P.IsLib(e.Caller.Func) {
					sites = append(sites, e.Site)
				}
			}
			if len(sites) != 1 {
				break
			}
			fn, site = sites[0].Parent(), sites[0]
		}
		construct := "GET in stateless mode (" + fname(fn) + ")"
		if ifi == nil {
			c.R.Violate("R-stateless", construct, c.Pos(a.Pos), sprintf("%s registers a listening stream without testing the stateless flag %s", fname(fn), flag))
			continue
		}
		esc := exitsFromBlockAvoiding(ifi.Parent(), ifi.Block().Succs[0], func(in ssa.Instruction) bool {
			s, ok := httpErrorStatus(in)
			return ok && s == 405
		})
		c.R.Check(esc == nil, "R-stateless", construct+": 405", ipos(c, ifi), "stateless edge answers 405 on every path", "the stateless edge of the GET handler does not answer 405 on every path")
		c.R.Check(viaHelper || flow.Dominates(ifi, site), "R-stateless", construct+": before registration", ipos(c, ifi), "the stateless test dominates the stream registration",
			"the listening stream is registered on a path that has not passed the stateless test")
	}
	c.R.Min("R-stateless", 3)
}

// ---------------------------------------------------------------- R-delete
func (x *c04ctx) deleteRule() {
	c := x.c
	streamDeleters := map[*ssa.Function]bool{}
	for _, a := range x.accs {
		if a.Field == x.streamTbl && a.Kind == "map-delete" {
			streamDeleters[a.Fn] = true
		}
	}
	for fn := range x.httpFns {
		x.deleteRuleIn(fn, streamDeleters, 0)
	}
	c.R.Min("R-delete", 1)
}

func (x *c04ctx) deleteRuleIn(fn *ssa.Function, streamDeleters map[*ssa.Function]bool, d int) {
	c := x.c
	{
		ir.EachInstr(fn, func(_ *ssa.BasicBlock, _ int, in ssa.Instruction) {
			call, ok := in.(*ssa.Call)
			if !ok || !x.callReaches(call, x.deleters) {
				return
			}
			if sc := ir.StaticCallee(call); sc != nil && x.httpFns[sc] {
				return
			}
			// a helper that ends the session together with its stream (endSession(id)): judged inside the helper
			if sc := ir.StaticCallee(call); sc != nil && c.P.IsLib(sc) && d < 2 && x.callReaches(call, streamDeleters) {
				inner := false
				ir.EachInstr(sc, func(_ *ssa.BasicBlock, _ int, in2 ssa.Instruction) {
					if c2, ok := in2.(*ssa.Call); ok && x.callReaches(c2, x.deleters) {
						inner = true
					}
				})
				if inner {
					x.deleteRuleIn(sc, streamDeleters, d+1)
					return
				}
			}
			var ifi *ssa.If
			succ := 0
			if refs := call.Referrers(); refs != nil {
				for _, r := range *refs {
					if i, ok := r.(*ssa.If); ok {
						ifi = i
					}
					// `if !terminate(id) { return false }`: the success edge is the other one
					if u, ok := r.(*ssa.UnOp); ok && u.Op == token.NOT && u.Referrers() != nil {
						for _, rr := range *u.Referrers() {
							if i, ok := rr.(*ssa.If); ok {
								ifi, succ = i, 1
							}
						}
					}
				}
			}
			construct := "DELETE success edge in " + fname(fn)
			if ifi == nil {
				c.R.Violate("R-delete", construct, c.Pos(call.Pos()), "termination result not branched on")
				return
			}
			inline := map[ssa.Instruction]bool{}
			for _, a := range x.accs {
				if a.Field == x.streamTbl && a.Kind == "map-delete" && a.Fn == fn {
					inline[a.Instr] = true
				}
			}
			esc := exitsFromBlockAvoiding(fn, ifi.Block().Succs[succ], func(in ssa.Instruction) bool {
				if inline[in] {
					return true // the cleanup written out in this function
				}
				// … which starts by looking the session's stream up (there may be none to clean)
				if lk, ok := in.(*ssa.Lookup); ok && len(inline) > 0 && fromTableLookup(lk, x.streamTbl) {
					return true
				}
				cl, ok := in.(ssa.CallInstruction)
				return ok && x.callReaches(cl, streamDeleters)
			})
			c.R.Check(esc == nil, "R-delete", construct, ipos(c, ifi), "every path from successful termination passes the listening-stream cleanup (cancel + table delete)",
				sprintf("in %s a successful session termination can answer without cancelling and removing the session's listening stream", fname(fn)))
		})
	}
}

// ---------------------------------------------------------------- R-table
func (x *c04ctx) table() {
	c := x.c
	guards := GuardTable(c, x.accs)
	for _, tbl := range []string{x.sessTable, x.streamTbl} {
		guard := ""
		for _, g := range guards {
			if g.Field != tbl {
				continue
			}
			guard = g.Guard
			cons := accessConstructs(g)
			for i, a := range g.Accesses {
				ok := guard != "" && a.Locks.Has(guard) && (!a.Write || a.Locks.HasWrite(guard))
				c.R.Check(ok, "R-table", cons[i], c.Pos(a.Pos), "holds "+guard,
					sprintf("%s (%s) of %s in %s without holding %s appropriately (held: [%s])", a.Kind, kindClass(a), tbl, fname(a.Fn), guard, strings.Join(a.Locks.Keys(), ",")))
				if a.Write && tbl == x.sessTable {
					recv := a.Fn.Signature.Recv()
					own := false
					if recv != nil {
						t := recv.Type()
						if pt, ok := t.(*types.Pointer); ok {
							t = pt.Elem()
						}
						own = t == types.Type(x.sessOwner)
					}
					c.R.Check(own, "R-table", "writer "+fname(a.Fn)+" of "+tbl, c.Pos(a.Pos), "writer is a method of the owning type",
						sprintf("%s mutates the session table but is not a method of %s", fname(a.Fn), ir.TypeKey(x.sessOwner)))
				}
			}
		}
		// check-then-act: every delete is dominated by a lookup/range of the same table in the same critical section
		for _, a := range x.accs {
			if a.Field != tbl || a.Kind != "map-delete" || a.Init {
				continue
			}
			site := a.Locks[guard].Site
			ok := false
			ir.EachInstr(a.Fn, func(_ *ssa.BasicBlock, _ int, in ssa.Instruction) {
				var coll ssa.Value
				switch y := in.(type) {
				case *ssa.Lookup:
					coll = y.X
				case *ssa.Range:
					coll = y.X
				default:
					return
				}
				u, isU := coll.(*ssa.UnOp)
				if !isU {
					return
				}
				fa, isFa := u.X.(*ssa.FieldAddr)
				if !isFa {
					return
				}
				if key, _, _, _ := ir.FullField(fa); key != tbl {
					return
				}
				if h, held := c.Locks().At(in)[guard]; held && h.Site == site && site != nil && flow.Dominates(in, a.Instr) {
					ok = true
				}
			})
			c.R.Check(ok, "R-table", "check-then-act delete in "+fname(a.Fn)+" of "+tbl, c.Pos(a.Pos), "delete decided by a lookup in the same critical section",
				sprintf("%s deletes from %s without having looked the entry up in the same critical section: two concurrent callers can both succeed", fname(a.Fn), tbl))
		}
	}
	c.R.Min("R-table", 20)
}

// returnsVerdict: the call returns a bool, or a tuple whose last component is a bool.
func returnsVerdict(call *ssa.Call) bool {
	t := call.Type()
	if tup, ok := t.(*types.Tuple); ok {
		if tup.Len() == 0 {
			return false
		}
		t = tup.At(tup.Len() - 1).Type()
	}
	b, ok := t.Underlying().(*types.Basic)
	return ok && b.Kind() == types.Bool
}

// ipos: a usable source position for an instruction (If instructions carry none).
func ipos(c *Ctx, in ssa.Instruction) string {
	if in.Pos().IsValid() {
		return c.Pos(in.Pos())
	}
	if ifi, ok := in.(*ssa.If); ok {
		if ci, ok := ifi.Cond.(ssa.Instruction); ok && ci.Pos().IsValid() {
			return c.Pos(ci.Pos())
		}
	}
	b := in.Block()
	for i := len(b.Instrs) - 1; i >= 0; i-- {
		if b.Instrs[i].Pos().IsValid() {
			return c.Pos(b.Instrs[i].Pos())
		}
	}
	return "-"
}

// ---------------------------------------------------------------- R-flag-wired
// The objects that write the answer (the responders) carry their own copy of the stateless flag, and that copy guards
// the Mcp-Session-Id header. Wherever the factory hands out a responder, it must be one constructed there with the
// option that sets this flag — a responder built once with defaults (flag false) and shared would issue session ids
// in stateless mode.
func (x *c04ctx) flagWired() {
	c := x.c
	// owner type -> guard flags
	byOwner := map[string][]string{}
	for f := range x.guardFlags {
		if i := strings.LastIndex(f, "."); i > 0 {
			byOwner[f[:i]] = append(byOwner[f[:i]], f)
		}
	}
	// option constructors: library functions returning a closure that stores into a guard flag of its parameter
	setter := map[*ssa.Function]string{}
	for _, fn := range c.P.LibFns {
		if fn.Parent() == nil {
			continue
		}
		ir.EachInstr(fn, func(_ *ssa.BasicBlock, _ int, in ssa.Instruction) {
			if st, ok := in.(*ssa.Store); ok {
				if f, base, ok := ir.FieldOf(st.Addr); ok && x.guardFlags[f.Key()] {
					if _, isParam := base.(*ssa.Parameter); isParam {
						setter[fn.Parent()] = f.Key()
					}
				}
			}
		})
	}
	n := 0
	for _, fn := range c.P.LibFns {
		res := fn.Signature.Results()
		if res.Len() != 1 {
			continue
		}
		it, ok := res.At(0).Type().Underlying().(*types.Interface)
		if !ok || it.NumMethods() == 0 {
			continue
		}
		if nt, ok := res.At(0).Type().(*types.Named); !ok || !ir.InLibrary(nt) {
			continue
		}
		ir.EachInstr(fn, func(blk *ssa.BasicBlock, _ int, in ssa.Instruction) {
			r, ok := in.(*ssa.Return)
			if !ok || blk == fn.Recover {
				return
			}
			v := ir.Unwrap(ir.Results(r)[0])
			pt, ok := v.Type().(*types.Pointer)
			if !ok {
				return
			}
			nt, ok := pt.Elem().(*types.Named)
			if !ok {
				return
			}
			flags := byOwner[ir.TypeKey(nt)]
			if len(flags) == 0 {
				return
			}
			sort.Strings(flags)
			for _, fl := range flags {
				n++
				set := false
				why := "the responder it returns is not constructed here"
				if call, ok := v.(*ssa.Call); ok {
					why = "nothing derived from the factory's own stateless flag goes into its construction"
					// what goes into the construction: arguments, arguments of option constructors, members of a
					// configuration literal — one of them must be a bool member of the factory itself
					var inputs []ssa.Value
					seen := map[ssa.Value]bool{}
					var add func(v ssa.Value, d int)
					add = func(v ssa.Value, d int) {
						if v == nil || d > 4 || seen[v] {
							return
						}
						seen[v] = true
						inputs = append(inputs, v)
						for _, el := range variadicElems(v) {
							if el != nil {
								add(ir.Unwrap(el), d+1)
							}
						}
						switch y := v.(type) {
						case *ssa.Call:
							for _, a := range y.Call.Args {
								add(ir.Unwrap(a), d+1)
							}
						case *ssa.UnOp:
							// a configuration struct built in place: the values stored into its members
							if al, ok := y.X.(*ssa.Alloc); ok {
								for _, rr := range *al.Referrers() {
									if fa, ok := rr.(*ssa.FieldAddr); ok && fa.Referrers() != nil {
										for _, r2 := range *fa.Referrers() {
											if st, ok := r2.(*ssa.Store); ok {
												add(ir.Unwrap(st.Val), d+1)
											}
										}
									}
								}
							}
						case *ssa.MakeClosure:
							for _, b := range y.Bindings {
								add(ir.Unwrap(b), d+1)
							}
						}
					}
					for _, a := range call.Call.Args {
						add(ir.Unwrap(a), 0)
					}
					for _, in := range inputs {
						if f, _, ok := ir.LoadedField(in); ok {
							if bt, isB := f.Type.Underlying().(*types.Basic); isB && bt.Kind() == types.Bool {
								set = true
							}
						}
					}
				}
				c.R.Check(set, "R-flag-wired", sprintf("%s of the %s returned by %s", fl, nt.Obj().Name(), fname(fn)), c.Pos(r.Pos()), "constructed at the point of use with the option that sets the flag",
					sprintf("%s hands out a %s whose flag %s guards the Mcp-Session-Id header, but %s: the flag keeps its default and a stateless server issues session ids", fname(fn), nt.Obj().Name(), fl, why))
			}
		})
	}
	c.R.Min("R-flag-wired", 2)
	_ = n
}

// c04SwitchStaysOff (R-session-switch): sessions are switched off by an option that clears the session manager and a
// boolean member along with it (discovered, as for C06's R-nil-member). Nothing else on the construction path may switch
// that member back on unconditionally: a store of `true` into it outside the constructor's own literal must be control
// dependent on something in its function, or — for an option closure — every call that creates and applies that option
// must be conditional. Otherwise a server configured without sessions issues session ids and refuses requests that
// carry none.
func c04SwitchStaysOff(c *Ctx) {
	// the switch: bool members cleared in a function that also sets an interface/pointer member to nil
	switches := map[string]bool{}
	for _, fn := range c.P.LibFns {
		var falses []string
		nils := false
		ir.EachInstr(fn, func(_ *ssa.BasicBlock, _ int, in ssa.Instruction) {
			st, ok := in.(*ssa.Store)
			if !ok {
				return
			}
			fa, ok := st.Addr.(*ssa.FieldAddr)
			if !ok {
				return
			}
			key, _, typ, base := ir.FullField(fa)
			if key == "" || ir.BaseAlloc(base) {
				return
			}
			if ir.IsNilConst(st.Val) {
				switch typ.Underlying().(type) {
				case *types.Interface, *types.Pointer:
					nils = true
				}
			}
			if cst, ok := st.Val.(*ssa.Const); ok && cst.Value != nil && cst.Value.String() == "false" {
				falses = append(falses, key)
			}
		})
		if nils {
			for _, k := range falses {
				if strings.Contains(strings.ToLower(k), "session") {
					switches[k] = true
				}
			}
		}
	}
	n := 0
	for _, fn := range c.P.LibFns {
		if clientSide(c, fn) {
			continue
		}
		var pd *flow.PostDom
		ir.EachInstr(fn, func(_ *ssa.BasicBlock, _ int, in ssa.Instruction) {
			st, ok := in.(*ssa.Store)
			if !ok {
				return
			}
			fa, ok := st.Addr.(*ssa.FieldAddr)
			if !ok {
				return
			}
			key, _, _, base := ir.FullField(fa)
			if !switches[key] || ir.BaseAlloc(base) {
				return
			}
			cst, ok := st.Val.(*ssa.Const)
			if !ok || cst.Value == nil || cst.Value.String() != "true" {
				return
			}
			n++
			if pd == nil {
				pd = flow.NewPostDom(fn)
			}
			conditional := len(pd.ControlDepsTransitive(st.Block())) > 0
			where := fname(fn)
			if !conditional && fn.Parent() != nil {
				// an option closure: conditional if every application of the option is
				maker := fn.Parent()
				sites, all := 0, true
				for _, e := range ir.Callers(c.G, maker) {
					if e.Site == nil || !c.P.IsLib(e.Caller.Func) {
						continue
					}
					sites++
					if len(flow.NewPostDom(e.Caller.Func).ControlDepsTransitive(e.Site.Block())) == 0 {
						all = false
						where = fname(fn) + ", applied unconditionally by " + fname(e.Caller.Func)
					}
				}
				conditional = sites > 0 && all
			}
			c.R.Check(conditional, "R-session-switch", "switch "+key+" turned on in "+fname(fn), c.Pos(st.Pos()),
				"only under a condition (a mode that was asked for)",
				sprintf("%s is set to true unconditionally on the construction path (%s): the option that switches sessions off has no effect, and a server configured without sessions issues session ids and answers 400/404 by them", key, where))
		})
	}
	var ks []string
	for k := range switches {
		ks = append(ks, k)
	}
	sort.Strings(ks)
	c.R.Extra["session_switches"] = ks
	if n == 0 {
		c.R.Hold("R-session-switch", "the session switch is never turned on outside the constructor's defaults", "", sprintf("%v", ks))
	}
}

// ---------------------------------------------------------------- R-header-before-stream
// "Every request bearing the id is answered with the same id": response headers can only be set until the first byte
// of the body is written. A handler that builds a notification sender around its own ResponseWriter gives the user's
// handler the means to write to the response while the request is being dispatched — the first in-call notification
// commits the headers. In such a function a Set of the Mcp-Session-Id response header must therefore lie on the way to
// the dispatch (it reaches the dispatch call); one that only happens when the answer is written comes too late for
// every call that notifies first.
func c04HeaderBeforeStream(c *Ctx) {
	senderIface := c.senderIface()
	if senderIface == nil {
		c.R.Break("R-header-before-stream: notification sender interface not found")
		return
	}
	n := 0
	for _, fn := range c.P.LibFns {
		if clientSide(c, fn) {
			continue
		}
		var w *ssa.Parameter
		for _, p := range fn.Params {
			if isResponseWriter(p.Type()) {
				w = p
			}
		}
		if w == nil {
			continue
		}
		var senderCalls []*ssa.Call
		ir.EachInstr(fn, func(_ *ssa.BasicBlock, _ int, in ssa.Instruction) {
			call, ok := in.(*ssa.Call)
			if !ok {
				return
			}
			sc := ir.StaticCallee(call)
			if sc == nil || !c.P.IsLib(sc) || sc.Signature.Results().Len() != 1 || !types.Implements(sc.Signature.Results().At(0).Type(), senderIface.Underlying().(*types.Interface)) {
				return
			}
			for _, a := range call.Call.Args {
				if ir.Unwrap(a) == ssa.Value(w) {
					senderCalls = append(senderCalls, call)
				}
			}
		})
		if len(senderCalls) == 0 {
			continue
		}
		// header sets of the session id on w in this function — made directly, or by a helper handed w
		var setsHeader func(f *ssa.Function, d int) bool
		setsHeader = func(f *ssa.Function, d int) bool {
			found := false
			ir.EachInstr(f, func(_ *ssa.BasicBlock, _ int, in ssa.Instruction) {
				call, ok := in.(*ssa.Call)
				if !ok || found {
					return
				}
				nm := ir.CallName(call)
				if nm == "(net/http.Header).Set" || nm == "(net/http.Header).Add" {
					if k, ok := ir.ConstStr(call.Call.Args[1]); ok && strings.EqualFold(k, "Mcp-Session-Id") {
						found = true
					}
					return
				}
				if sc := ir.StaticCallee(call); sc != nil && c.P.IsLib(sc) && d < 2 && passesWriter(call) && !isRespondCall(c, call) {
					if setsHeader(sc, d+1) {
						found = true
					}
				}
			})
			return found
		}
		var sets []ssa.Instruction
		ir.EachInstr(fn, func(_ *ssa.BasicBlock, _ int, in ssa.Instruction) {
			call, ok := in.(*ssa.Call)
			if !ok {
				return
			}
			nm := ir.CallName(call)
			if nm == "(net/http.Header).Set" || nm == "(net/http.Header).Add" {
				if k, ok := ir.ConstStr(call.Call.Args[1]); ok && strings.EqualFold(k, "Mcp-Session-Id") {
					sets = append(sets, in)
				}
				return
			}
			if sc := ir.StaticCallee(call); sc != nil && c.P.IsLib(sc) && passesWriter(call) && !isRespondCall(c, call) && setsHeader(sc, 1) {
				sets = append(sets, in)
			}
		})
		// dispatch calls that can run with the sender (reachable from its construction)
		ir.EachInstr(fn, func(_ *ssa.BasicBlock, _ int, in ssa.Instruction) {
			call, ok := in.(*ssa.Call)
			if !ok {
				return
			}
			dispatches := c.isDispatchCall(call)
			if !dispatches {
				// the dispatch may sit in a helper this function hands the prepared context to (serveRequest(reqCtx, …))
				if sc := ir.StaticCallee(call); sc != nil && c.P.IsLib(sc) && !isRespondCall(c, call) {
					takesCtx := false
					for _, a := range call.Call.Args {
						if ir.TypeStr(a.Type()) == "context.Context" {
							takesCtx = true
						}
					}
					if takesCtx {
						ir.EachCall(sc, func(ic ssa.CallInstruction) {
							if c.isDispatchCall(ic) {
								dispatches = true
							}
						})
					}
				}
			}
			if !dispatches {
				return
			}
			after := false
			for _, s := range senderCalls {
				if flow.Reaches(s, call) {
					after = true
				}
			}
			if !after {
				return
			}
			n++
			early := false
			for _, s := range sets {
				if flow.Reaches(s, call) {
					early = true
				}
			}
			c.R.Check(early, "R-header-before-stream", sprintf("session id header before the streaming dispatch in %s", fname(fn)), c.Pos(call.Pos()),
				"the Mcp-Session-Id header is set on the way to the dispatch",
				sprintf("%s dispatches the request with a notification sender that writes to its own ResponseWriter, but no Set of the Mcp-Session-Id response header lies before that dispatch: the first notification the handler sends commits the response headers, and the answer of a request that bears a session id goes out without the id", fname(fn)))
		})
	}
	if n == 0 {
		c.R.Break("R-header-before-stream: no dispatch with a sender around the handler's own ResponseWriter found")
	}
}

// ---------------------------------------------------------------- R-report-from-table
// "The set of live sessions the server reports equals the set the history leaves alive": the exported reporting call
// (GetActiveSessions of a server type) enumerates the session table itself — some function it reaches ranges over the
// table's map — and consults no other table (the table of open listening streams has an entry only for sessions that
// currently hold a GET stream).
func (x *c04ctx) reportFromTable() {
	c := x.c
	n := 0
	for _, T := range c.serverTypes() {
		m := c.P.Method(T, "GetActiveSessions")
		if m == nil {
			continue
		}
		n++
		reach := c.ReachSync(m)
		ranges, other := false, ""
		for f := range reach {
			if !c.P.IsLib(f) {
				continue
			}
			ir.EachInstr(f, func(_ *ssa.BasicBlock, _ int, in ssa.Instruction) {
				switch y := in.(type) {
				case *ssa.Range:
					if fl, _, ok := ir.LoadedField(y.X); ok && fl.Key() == x.sessTable {
						ranges = true
					}
				case *ssa.UnOp:
					if fl, _, ok := ir.LoadedField(y); ok && fl.Key() == x.streamTbl && x.streamTbl != "" {
						other = fname(f)
					}
				}
			})
		}
		construct := ir.TypeKey(T) + ".GetActiveSessions"
		c.R.Check(ranges && other == "", "R-report-from-table", construct, c.Pos(m.Pos()), "enumerates "+x.sessTable+" and no other table",
			sprintf("%s does not report the session table: enumerates %s: %v; reads the listening-stream table %s in %q — sessions that are alive but hold no GET stream at the moment are missing from the reported set", construct, x.sessTable, ranges, x.streamTbl, other))
	}
	if n == 0 {
		c.R.Break("R-report-from-table: no exported GetActiveSessions on a server type")
	}
}

// ---------------------------------------------------------------- R-id-opaque
// To the server an incoming Mcp-Session-Id is an opaque key: a request is refused with 400 because the header is
// missing and with 404 because the table does not know the id — never because of how the id is spelled. The value read
// from the request header may therefore only be compared with "", handed to the functions that look it up in (or
// remove it from) the session table, echoed, or logged; a predicate over its characters that controls a branch makes
// the status of a never-issued id depend on its spelling (and lets a stateless server, which must not look at the
// header, refuse a request because of it).
func (x *c04ctx) idOpaque() {
	c := x.c
	n := 0
	for _, fn := range c.P.LibFns {
		if clientSide(c, fn) {
			continue
		}
		ir.EachInstr(fn, func(_ *ssa.BasicBlock, _ int, in ssa.Instruction) {
			call, ok := in.(*ssa.Call)
			if !ok || ir.CallName(call) != "(net/http.Header).Get" || call.Referrers() == nil {
				return
			}
			if k, ok := ir.ConstStr(call.Call.Args[len(call.Call.Args)-1]); !ok || !strings.EqualFold(k, "Mcp-Session-Id") {
				return
			}
			// a request header (r.Header), not the response's
			if oc := originCall(call.Call.Args[0]); oc != nil && ir.CallName(oc) == "(net/http.ResponseWriter).Header" {
				return
			}
			n++
			bad := ""
			seen := map[ssa.Value]bool{}
			var visit func(f *ssa.Function, v ssa.Value, d int)
			visit = func(f *ssa.Function, v ssa.Value, d int) {
				if v.Referrers() == nil || d > 4 || seen[v] || bad != "" {
					return
				}
				seen[v] = true
				for _, r := range *v.Referrers() {
					switch y := r.(type) {
					case *ssa.BinOp:
						if s, ok := ir.ConstStr(y.X); ok && s == "" {
							continue
						}
						if s, ok := ir.ConstStr(y.Y); ok && s == "" {
							continue
						}
						if y.Op == token.EQL || y.Op == token.NEQ || y.Op == token.LSS || y.Op == token.GTR || y.Op == token.LEQ || y.Op == token.GEQ {
							// compared with something else than "": with another id (equality with a stored id) is a lookup
							if _, isConst := y.X.(*ssa.Const); isConst {
								bad = "compares it with a constant at " + c.Pos(y.Pos())
							}
							if _, isConst := y.Y.(*ssa.Const); isConst {
								bad = "compares it with a constant at " + c.Pos(y.Pos())
							}
						}
					case *ssa.Phi:
						visit(f, y, d+1)
					case *ssa.Call:
						if b, ok := y.Call.Value.(*ssa.Builtin); ok && b.Name() == "len" {
							// len(id) == 0 is the emptiness test; any other use of the length is about the spelling
							if y.Referrers() != nil {
								for _, lr := range *y.Referrers() {
									if bin, ok := lr.(*ssa.BinOp); ok {
										if k, ok := ir.ConstInt(bin.Y); !ok || k != 0 {
											bad = "tests its length at " + c.Pos(bin.Pos())
										}
									}
								}
							}
							continue
						}
						sc := ir.StaticCallee(y)
						if sc == nil {
							if nm := ir.CallName(y); strings.HasPrefix(nm, "strings.") || strings.HasPrefix(nm, "unicode") || strings.HasPrefix(nm, "regexp") || strings.HasPrefix(nm, "(*regexp") {
								bad = "inspects it with " + nm
							}
							continue
						}
						if !c.P.IsLib(sc) {
							if nm := ir.CallName(y); strings.HasPrefix(nm, "strings.") || strings.HasPrefix(nm, "unicode") || strings.HasPrefix(nm, "regexp") || strings.HasPrefix(nm, "(*regexp") || strings.HasPrefix(nm, "strconv.") {
								bad = "inspects it with " + nm
							}
							continue
						}
						// a library predicate over the id that does not consult the table
						if r := sc.Signature.Results(); r.Len() == 1 && ir.TypeStr(r.At(0).Type()) == "bool" && !x.callReaches(y, x.lookers) && !x.callReaches(y, x.deleters) && !x.callReaches(y, x.inserters) {
							bad = "judges it with the predicate " + fname(sc)
							continue
						}
						for ai, a := range y.Call.Args {
							if a == v && ai < len(sc.Params) {
								visit(sc, sc.Params[ai], d+1)
							}
						}
					case *ssa.Index, *ssa.IndexAddr, *ssa.Range, *ssa.Slice:
						bad = "looks at its characters at " + c.Pos(r.Pos())
					case *ssa.Return:
						// an accessor hands the value to its callers
						for _, e := range ir.Callers(c.G, f) {
							if site, ok := e.Site.(*ssa.Call); ok && c.P.IsLib(e.Caller.Func) {
								visit(e.Caller.Func, site, d+1)
							}
						}
					}
				}
			}
			visit(fn, call, 0)
			c.R.Check(bad == "", "R-id-opaque", sprintf("incoming session id read in %s", fname(fn)), c.Pos(call.Pos()), "only tested for emptiness, looked up, echoed or logged",
				sprintf("%s reads the Mcp-Session-Id request header and %s: whether a request with a never-issued id is refused with 404 (unknown session) or something else then depends on how the id is spelled, and a server in stateless mode lets a header it must ignore decide about the request", fname(fn), bad))
		})
	}
	if n < 1 {
		c.R.Break("R-id-opaque: no read of the Mcp-Session-Id request header found")
	}
}
