package rules

import (
	"go/token"
	"go/types"
	"os"
	"reflect"
	"sort"
	"strings"

	"golang.org/x/tools/go/ssa"

	"verif/checker/flow"
	"verif/checker/ir"
)

// C03 — every emitted message is well-formed JSON-RPC 2.0 / MCP.
//
//	R-version          every constructed request/response/error/notification value gets "2.0"
//	R-code-class       error constructions are classified by the branch that controls them
//	                   (params assertion failed -> -32602, dispatch default -> -32601,
//	                   handler error -> -32603 carrying the error text, decode failure -> -32700)
//	R-status-written   every path through each ServeHTTP (and what it calls synchronously) writes a status/body
//	R-decode-answered  the failure edge of decoding a request/raw message is answered (HTTP error,
//	                   JSON-RPC error) before the handler returns
//	R-array-shape      result fields whose MCP shape is "array" cannot be marshalled as null
//	R-queue-answered  on queue-answering transports (legacy SSE) every path after the dispatch hands a frame to the session queue
//	R-error-passthrough / R-fresh-message  handler errors and response objects reach the wire unaltered / unshared
func init() { Registry["C03"] = checkC03 }

var msgTypes = []string{"JSONRPCRequest", "JSONRPCResponse", "JSONRPCError", "JSONRPCNotification"}

func checkC03(c *Ctx) {
	c.R.Explanation = "Static well-formedness check of what servers emit: every message construction sets jsonrpc \"2.0\"; every JSON-RPC error construction is classified by the branch controlling it " +
		"(control dependence on the SSA CFG) and must carry the standard code of that class; every ServeHTTP path writes an answer (interprocedural always-answers summaries); decode-failure edges are answered; " +
		"array-shaped result fields cannot encode as null."
	c.R.NotDecided = "conformance of arbitrary user-supplied result payloads to the MCP schema; that exactly one of result/error is present for results produced by user middlewares"
	c.R.Assumptions = []string{"encoding/json behaves as documented (nil slice -> null, omitempty semantics)", "net/http sends an implicit empty 200 when a handler returns without writing"}
	c03Version(c)
	c03EnvelopeType(c)
	c03ResultPresent(c)
	c09DataLineWhole(c, "R-data-line-whole")
	c03Codes(c)
	c03Status(c)
	c03Decode(c)
	c03Arrays(c)
	c03MarshalReceiver(c)
	c03ResponseNeedsID(c)
	// what reaches a stream is one message per frame and nothing else (a log line on the stdio server's stdout is not a
	// JSON-RPC message): the stream-sharing rules of C09 apply
	{
		e, nd, as := c.R.Explanation, c.R.NotDecided, c.R.Assumptions
		checkC09(c)
		c.R.Explanation, c.R.NotDecided, c.R.Assumptions = e, nd, as
	}
	c03Passthrough(c)
	c03QueueAnswered(c)
	// a response without the id of its request is not a well-formed answer to it (shared with C01)
	c01IDProvenance(c, false)
	poolAliasRule(c, "R-frame-owned")
	poolResetRule(c, "R-pool-reset")
	c03EncodeChecked(c)
	c03EncodeFailureAnswered(c)
	// frames written by concurrent senders to one stream must not interleave (C05/C09's rule): an interleaved frame is malformed
	streamWriteLocked(c, "R-stream-locked", true)
	c.R.Min("R-id-echo", 40)
}

// ------------------------------------------------------------------ R-error-passthrough / R-fresh-message
//
// R-error-passthrough: the transports recognise "the handler already produced a JSON-RPC error" by the
// dynamic type *JSONRPCError (comma-ok assertion). Every error object that a request-path function
// returns inside an interface-typed result must therefore be a *JSONRPCError — a JSONRPCError value
// would be wrapped as the result of a success response.
// R-fresh-message: a message object whose members are written while a request is processed must be
// allocated for that request; writing through a pointer loaded from a package-level variable shares
// one object between concurrent requests (wrong id on the wire).
func c03Passthrough(c *Ctx) {
	// what the wrappers test for
	recognised := map[string]bool{}
	for _, fn := range c.P.LibFns {
		ir.EachInstr(fn, func(_ *ssa.BasicBlock, _ int, in ssa.Instruction) {
			ta, ok := in.(*ssa.TypeAssert)
			if !ok || !ta.CommaOk {
				return
			}
			t := ir.TypeStr(ta.AssertedType)
			if t == "*mcp.JSONRPCError" || t == "mcp.JSONRPCError" {
				recognised[fname(fn)+" tests "+t] = true
			}
		})
	}
	onlyPtr := true
	nPtrTests := 0
	for k := range recognised {
		if strings.HasSuffix(k, "tests *mcp.JSONRPCError") {
			nPtrTests++
		}
	}
	_ = onlyPtr
	if nPtrTests < 3 {
		c.R.Break("R-error-passthrough: expected the transports to test results for *JSONRPCError (found %d tests)", nPtrTests)
	}
	n := 0
	for _, fn := range c.P.LibFns {
		res := fn.Signature.Results()
		var idxs []int
		for i := 0; i < res.Len(); i++ {
			if types.IsInterface(res.At(i).Type()) && ir.TypeStr(res.At(i).Type()) != "error" {
				idxs = append(idxs, i)
			}
		}
		if len(idxs) == 0 {
			continue
		}
		ir.EachInstr(fn, func(_ *ssa.BasicBlock, _ int, in ssa.Instruction) {
			r, ok := in.(*ssa.Return)
			if !ok || len(ir.Results(r)) == 0 {
				return
			}
			var visit func(v ssa.Value, d int)
			visit = func(v ssa.Value, d int) {
				if d > 5 {
					return
				}
				switch x := v.(type) {
				case *ssa.Phi:
					for _, e := range x.Edges {
						visit(e, d+1)
					}
				case *ssa.MakeInterface:
					t := ir.TypeStr(x.X.Type())
					if t == "*mcp.JSONRPCError" {
						n++
					}
					if t == "mcp.JSONRPCError" {
						n++
						c.R.Violate("R-error-passthrough", "error by value returned from "+fname(fn), ipos(c, r),
							sprintf("%s returns a JSONRPCError VALUE inside its interface-typed result; the HTTP transports only recognise *JSONRPCError, so this error is sent as the result of a success response", fname(fn)))
					}
				}
			}
			for _, i := range idxs {
				if i < len(ir.Results(r)) {
					visit(ir.Results(r)[i], 0)
				}
			}
		})
	}
	if n > 0 {
		c.R.Hold("R-error-passthrough", "all returned error objects are *JSONRPCError", "", sprintf("%d returned error objects checked", n))
	}
	c.R.Min("R-error-passthrough", 1)

	// R-fresh-message
	m := 0
	for _, fn := range c.P.LibFns {
		if c.InitOnly()[fn] || fn.Name() == "init" {
			continue
		}
		ir.EachInstr(fn, func(_ *ssa.BasicBlock, _ int, in ssa.Instruction) {
			st, ok := in.(*ssa.Store)
			if !ok {
				return
			}
			fa, ok := st.Addr.(*ssa.FieldAddr)
			if !ok {
				return
			}
			owner := ir.FullFieldOwner(fa)
			if owner == nil || !ir.InLibrary(owner) {
				return
			}
			isMsg := false
			for _, mt := range msgTypes {
				if owner.Obj().Name() == mt && owner.Obj().Pkg().Path() == ir.RootPath {
					isMsg = true
				}
			}
			if !isMsg {
				return
			}
			m++
			if g := globalBase(fa.X, 0); g != nil {
				c.R.Violate("R-fresh-message", "shared "+owner.Obj().Name()+" written in "+fname(fn), c.Pos(st.Pos()),
					sprintf("%s writes a member of a %s reached through the package-level variable %s: the object is shared by all concurrent requests", fname(fn), owner.Obj().Name(), g.Name()))
			}
		})
	}
	c.R.Hold("R-fresh-message", "message member writes target per-request objects", "", sprintf("%d member writes checked", m))
	c.R.Min("R-fresh-message", 1)
}

func globalBase(v ssa.Value, d int) *ssa.Global {
	if d > 8 {
		return nil
	}
	switch x := v.(type) {
	case *ssa.Global:
		return x
	case *ssa.UnOp:
		return globalBase(x.X, d+1)
	case *ssa.FieldAddr:
		return globalBase(x.X, d+1)
	case *ssa.Phi:
		for _, e := range x.Edges {
			if g := globalBase(e, d+1); g != nil {
				return g
			}
		}
	case *ssa.ChangeType:
		return globalBase(x.X, d+1)
	case *ssa.IndexAddr:
		return globalBase(x.X, d+1)
	}
	return nil
}

// ------------------------------------------------------------------ R-version
func c03Version(c *Ctx) {
	isMsg := func(t types.Type) string {
		if p, ok := t.(*types.Pointer); ok {
			t = p.Elem()
		}
		n, ok := t.(*types.Named)
		if !ok || n.Obj().Pkg() == nil || n.Obj().Pkg().Path() != ir.RootPath {
			return ""
		}
		for _, m := range msgTypes {
			if n.Obj().Name() == m {
				return m
			}
		}
		return ""
	}
	cnt := map[string]int{}
	for _, fn := range c.P.LibFns {
		ir.EachInstr(fn, func(_ *ssa.BasicBlock, _ int, in ssa.Instruction) {
			al, ok := in.(*ssa.Alloc)
			if !ok {
				return
			}
			m := isMsg(al.Type())
			if m == "" {
				return
			}
			// decode target? (address passed to json.Unmarshal / Decode, or the value is only read)
			decodeTarget, versionSet, copied := false, false, false
			var bad string
			for _, r := range *al.Referrers() {
				switch x := r.(type) {
				case *ssa.MakeInterface:
					for _, rr := range *x.Referrers() {
						if call, ok := rr.(ssa.CallInstruction); ok {
							n := ir.CallName(call)
							if n == "encoding/json.Unmarshal" || n == "(*encoding/json.Decoder).Decode" {
								decodeTarget = true
							}
							// ... or to a decoding helper that hands its parameter to the decoder
							if sc := ir.StaticCallee(call); sc != nil && c.P.IsLib(sc) {
								for i, a := range call.Common().Args {
									if a != ssa.Value(x) || i >= len(sc.Params) {
										continue
									}
									prm := sc.Params[i]
									ir.EachCall(sc, func(ic ssa.CallInstruction) {
										in2 := ir.CallName(ic)
										if in2 != "encoding/json.Unmarshal" && in2 != "(*encoding/json.Decoder).Decode" {
											return
										}
										for _, ia := range ic.Common().Args {
											if ia == ssa.Value(prm) {
												decodeTarget = true
											}
										}
									})
								}
							}
						}
					}
				case *ssa.FieldAddr:
					f, _, _ := ir.FieldOf(x)
					if f.Name != "JSONRPC" {
						continue
					}
					for _, rr := range *x.Referrers() {
						if st, ok := rr.(*ssa.Store); ok && st.Addr == x {
							if s, ok := ir.ConstStr(st.Val); ok && s == "2.0" {
								versionSet = true
							} else {
								bad = "jsonrpc set to a value that is not the constant \"2.0\""
							}
						}
					}
				case *ssa.Store:
					if x.Addr == al {
						copied = true // whole-struct assignment from another value (e.g. *notification)
					}
				}
			}
			if decodeTarget || copied {
				return
			}
			k := m + " built in " + fname(fn)
			cnt[k]++
			construct := k
			if cnt[k] > 1 {
				construct = sprintf("%s#%d", k, cnt[k])
			}
			if bad != "" {
				c.R.Violate("R-version", construct, c.Pos(al.Pos()), bad)
				return
			}
			c.R.Check(versionSet, "R-version", construct, c.Pos(al.Pos()), "jsonrpc: \"2.0\"",
				sprintf("%s constructs a %s without setting its jsonrpc member to \"2.0\"", fname(fn), m))
		})
	}
	c.R.Min("R-version", 20)
	// a request object the CALLER built (the exported SendRequest of each server) is emitted as it is: the function
	// that takes it — or something it calls with it — fills in an empty jsonrpc member. Sibling agreement: if one
	// server's SendRequest does, all do.
	type sr struct {
		fn    *ssa.Function
		fills bool
	}
	var srs []sr
	for _, T := range c.serverTypes() {
		for _, fn := range c.methodsWithPrefix(T, "SendRequest") {
			var p *ssa.Parameter
			for _, q := range fn.Params {
				if ir.TypeStr(q.Type()) == "*mcp.JSONRPCRequest" {
					p = q
				}
			}
			if p == nil {
				continue
			}
			fills := false
			var scan func(f *ssa.Function, v ssa.Value, d int)
			scan = func(f *ssa.Function, v ssa.Value, d int) {
				if d > 3 || fills {
					return
				}
				ir.EachInstr(f, func(_ *ssa.BasicBlock, _ int, in ssa.Instruction) {
					switch x := in.(type) {
					case *ssa.Store:
						if fa, ok := x.Addr.(*ssa.FieldAddr); ok && fa.X == v {
							if fl, _, ok := ir.FieldOf(fa); ok && fl.Name == "JSONRPC" {
								if sv, ok := ir.ConstStr(x.Val); ok && sv == "2.0" {
									fills = true
								}
							}
						}
					case *ssa.Call:
						for _, cal := range ir.Callees(c.G, x) {
							if !c.P.IsLib(cal) {
								continue
							}
							args := x.Call.Args
							off := 0
							if x.Call.IsInvoke() {
								off = 1
							}
							for i, a := range args {
								if a == v && i+off < len(cal.Params) {
									scan(cal, cal.Params[i+off], d+1)
								}
							}
						}
					}
				})
			}
			scan(fn, p, 0)
			srs = append(srs, sr{fn, fills})
		}
	}
	any := false
	for _, x := range srs {
		any = any || x.fills
	}
	for _, x := range srs {
		if any {
			c.R.Check(x.fills, "R-version", "caller-built request sent by "+fname(x.fn), c.Pos(x.fn.Pos()), "an empty jsonrpc member is set to \"2.0\" before the request is emitted",
				sprintf("%s emits a request object built by its caller without filling in an empty jsonrpc member, although a sibling server's SendRequest does: the same call produces \"jsonrpc\":\"\" on this transport", fname(x.fn)))
		}
	}
}

// ------------------------------------------------------------------ R-code-class
type errSite struct {
	fn    *ssa.Function
	at    ssa.Instruction
	code  ssa.Value
	texts []ssa.Value // message and data operands
}

func isErrBody(t types.Type) bool {
	st, ok := t.Underlying().(*types.Struct)
	if !ok || st.NumFields() != 3 {
		return false
	}
	return st.Field(0).Name() == "Code" && st.Field(1).Name() == "Message" && st.Field(2).Name() == "Data"
}

func errBodyField(addr ssa.Value) (string, ssa.Value) {
	fa, ok := addr.(*ssa.FieldAddr)
	if !ok {
		return "", nil
	}
	pt, ok := fa.X.Type().Underlying().(*types.Pointer)
	if !ok || !isErrBody(pt.Elem()) {
		return "", nil
	}
	st := pt.Elem().Underlying().(*types.Struct)
	return st.Field(fa.Field).Name(), fa.X
}

func collectErrSites(c *Ctx) []errSite {
	type ctor struct{ code, msg, data int }
	ctors := map[*ssa.Function]*ctor{}
	paramIdx := func(fn *ssa.Function, v ssa.Value) int {
		for i, p := range fn.Params {
			if p == v {
				return i
			}
		}
		return -1
	}
	for _, fn := range c.P.LibFns {
		ir.EachInstr(fn, func(_ *ssa.BasicBlock, _ int, in ssa.Instruction) {
			st, ok := in.(*ssa.Store)
			if !ok {
				return
			}
			name, _ := errBodyField(st.Addr)
			if name == "" {
				return
			}
			if i := paramIdx(fn, st.Val); i >= 0 {
				ct := ctors[fn]
				if ct == nil {
					ct = &ctor{-1, -1, -1}
					ctors[fn] = ct
				}
				switch name {
				case "Code":
					ct.code = i
				case "Message":
					ct.msg = i
				case "Data":
					ct.data = i
				}
			}
		})
	}
	// wrappers: a function that forwards its own parameters to a constructor is a constructor too
	for changed := true; changed; {
		changed = false
		for _, fn := range c.P.LibFns {
			if ctors[fn] != nil {
				continue
			}
			ir.EachCall(fn, func(call ssa.CallInstruction) {
				sc := ir.StaticCallee(call)
				if sc == nil || ctors[sc] == nil || ctors[sc].code < 0 {
					return
				}
				args := call.Common().Args
				ci := paramIdx(fn, args[ctors[sc].code])
				if ci < 0 {
					return
				}
				ct := &ctor{ci, -1, -1}
				if ctors[sc].msg >= 0 {
					ct.msg = paramIdx(fn, args[ctors[sc].msg])
				}
				if ctors[sc].data >= 0 {
					ct.data = paramIdx(fn, args[ctors[sc].data])
				}
				ctors[fn] = ct
				changed = true
			})
		}
	}
	// fixed-code constructors: a straight-line function that only calls a constructor (or another fixed-code
	// constructor) with a constant code and returns the result — invalidParamsResponse(req) and the like. The fault such
	// a call reports is classified where it is called, like a call of the constructor itself.
	type fixedCtor struct {
		code ssa.Value
		msg  int
	}
	fixed := map[*ssa.Function]*fixedCtor{}
	for changed := true; changed; {
		changed = false
		for _, fn := range c.P.LibFns {
			if ctors[fn] != nil || fixed[fn] != nil || len(fn.Blocks) != 1 {
				continue
			}
			var only *ssa.Call
			nCalls := 0
			for _, in := range fn.Blocks[0].Instrs {
				if call, ok := in.(*ssa.Call); ok {
					if sc := ir.StaticCallee(call); sc != nil && (ctors[sc] != nil && ctors[sc].code >= 0 || fixed[sc] != nil) {
						only = call
						nCalls++
					}
				}
			}
			if nCalls != 1 {
				continue
			}
			ret, ok := fn.Blocks[0].Instrs[len(fn.Blocks[0].Instrs)-1].(*ssa.Return)
			if !ok || len(ret.Results) != 1 || ir.Unwrap(ret.Results[0]) != ssa.Value(only) {
				continue
			}
			sc := ir.StaticCallee(only)
			fc := &fixedCtor{msg: -1}
			if ct := ctors[sc]; ct != nil {
				if _, isConst := only.Call.Args[ct.code].(*ssa.Const); !isConst {
					continue
				}
				fc.code = only.Call.Args[ct.code]
				if ct.msg >= 0 {
					fc.msg = msgParam(fn, only.Call.Args[ct.msg])
				}
			} else {
				fc.code = fixed[sc].code
				if fixed[sc].msg >= 0 {
					fc.msg = msgParam(fn, only.Call.Args[fixed[sc].msg])
				}
			}
			fixed[fn] = fc
			changed = true
		}
	}
	var sites []errSite
	for _, fn := range c.P.LibFns {
		if fixed[fn] != nil {
			continue // classified at its callers
		}
		body := map[ssa.Value]*errSite{}
		ir.EachInstr(fn, func(_ *ssa.BasicBlock, _ int, in ssa.Instruction) {
			switch x := in.(type) {
			case *ssa.Call:
				if sc := ir.StaticCallee(x); sc != nil {
					if ct := ctors[sc]; ct != nil && ct.code >= 0 {
						if _, fwd := x.Call.Args[ct.code].(*ssa.Parameter); fwd && ctors[fn] != nil {
							return // a wrapper forwarding its own code parameter
						}
						s := errSite{fn: fn, at: x, code: x.Call.Args[ct.code]}
						if ct.msg >= 0 {
							s.texts = append(s.texts, x.Call.Args[ct.msg])
						}
						if ct.data >= 0 {
							s.texts = append(s.texts, x.Call.Args[ct.data])
						}
						sites = append(sites, s)
					} else if fc := fixed[sc]; fc != nil {
						s := errSite{fn: fn, at: x, code: fc.code}
						if fc.msg >= 0 && fc.msg < len(x.Call.Args) {
							s.texts = append(s.texts, x.Call.Args[fc.msg])
						}
						sites = append(sites, s)
					}
				}
			case *ssa.Store:
				name, base := errBodyField(x.Addr)
				if name == "" {
					return
				}
				if ct := ctors[fn]; ct != nil && ct.code >= 0 && name == "Code" {
					if _, isParam := x.Val.(*ssa.Parameter); isParam {
						return // the constructor itself
					}
				}
				s := body[base]
				if s == nil {
					s = &errSite{fn: fn, at: x}
					body[base] = s
				}
				switch name {
				case "Code":
					s.code = x.Val
					s.at = x
				case "Message", "Data":
					s.texts = append(s.texts, x.Val)
				}
			}
		})
		for _, s := range body {
			if s.code != nil {
				if _, isParam := s.code.(*ssa.Parameter); isParam {
					continue
				}
				sites = append(sites, *s)
			}
		}
	}
	sort.SliceStable(sites, func(i, j int) bool { return sites[i].at.Pos() < sites[j].at.Pos() })
	return sites
}

// msgParam: the parameter of fn the message operand is, or is computed from (cause.Error()); -1 if none.
func msgParam(fn *ssa.Function, v ssa.Value) int {
	for i, p := range fn.Params {
		if ssa.Value(p) == ir.Unwrap(v) {
			return i
		}
	}
	for i, p := range fn.Params {
		if valueDependsOn(v, p, 0) {
			return i
		}
	}
	return -1
}

func derivesFromParams(v ssa.Value, depth int) bool {
	if depth > 8 || v == nil {
		return false
	}
	switch x := v.(type) {
	case *ssa.TypeAssert:
		return derivesFromParams(x.X, depth+1)
	case *ssa.Extract:
		return derivesFromParams(x.Tuple, depth+1)
	case *ssa.Lookup:
		return derivesFromParams(x.X, depth+1)
	case *ssa.MakeInterface:
		return derivesFromParams(x.X, depth+1)
	case *ssa.Phi:
		for _, e := range x.Edges {
			if derivesFromParams(e, depth+1) {
				return true
			}
		}
	case *ssa.UnOp:
		if f, _, ok := ir.LoadedField(x); ok && f.Name == "Params" {
			return true
		}
	case *ssa.Call:
		// helper returning a projection of its request argument (parseGetPromptParams style) is handled at the callee
		return false
	}
	return false
}

func derivesFromMethod(v ssa.Value) bool {
	if u, ok := v.(*ssa.UnOp); ok {
		if f, _, ok := ir.LoadedField(u); ok && f.Name == "Method" {
			return true
		}
	}
	return false
}

// errOrigins: the calls an error value may come from (through phis/extracts).
func errOrigins(v ssa.Value, depth int, out *[]*ssa.Call) {
	if depth > 6 || v == nil {
		return
	}
	switch x := v.(type) {
	case *ssa.Extract:
		if call, ok := x.Tuple.(*ssa.Call); ok {
			*out = append(*out, call)
		}
	case *ssa.Call:
		*out = append(*out, x)
	case *ssa.Phi:
		for _, e := range x.Edges {
			errOrigins(e, depth+1, out)
		}
	case *ssa.UnOp:
		if al, ok := x.X.(*ssa.Alloc); ok {
			for _, r := range *al.Referrers() {
				if st, ok := r.(*ssa.Store); ok && st.Addr == al {
					errOrigins(st.Val, depth+1, out)
				}
			}
		}
	}
}

func nilCompare(cond ssa.Value) (ssa.Value, token.Token, bool) {
	bin, ok := cond.(*ssa.BinOp)
	if !ok || (bin.Op != token.NEQ && bin.Op != token.EQL) {
		return nil, 0, false
	}
	if ir.IsNilConst(bin.Y) {
		return bin.X, bin.Op, true
	}
	if ir.IsNilConst(bin.X) {
		return bin.Y, bin.Op, true
	}
	return nil, 0, false
}

// classify returns the fault class of a block from its direct control dependences.
func classifyBlock(c *Ctx, fn *ssa.Function, b *ssa.BasicBlock, pd *flow.PostDom) (class string, errVal ssa.Value) {
	deps := pd.ControlDeps(b)
	for _, g := range deps {
		cond := g.If.Cond
		// comma-ok assertion / lookup result
		if ex, ok := cond.(*ssa.Extract); ok && ex.Index == 1 && !g.Branch {
			switch t := ex.Tuple.(type) {
			case *ssa.TypeAssert:
				if derivesFromParams(t.X, 0) {
					return "params", nil
				}
			case *ssa.Lookup:
				if m, ok := t.X.Type().Underlying().(*types.Map); ok {
					if _, isSig := m.Elem().Underlying().(*types.Signature); isSig {
						return "dispatch-default", nil
					}
				}
				if derivesFromParams(t.X, 0) {
					return "params", nil
				}
				return "not-found", nil
			}
		}
		if v, op, ok := nilCompare(cond); ok {
			isNilEdge := (op == token.EQL) == g.Branch
			if f, _, okf := ir.LoadedField(v); okf && f.Name == "Params" && isNilEdge {
				return "params", nil
			}
			if !isNilEdge && ir.TypeStr(v.Type()) == "error" {
				var calls []*ssa.Call
				errOrigins(v, 0, &calls)
				decode, handler := false, false
				for _, call := range calls {
					n := ir.CallName(call)
					switch {
					case n == "encoding/json.Unmarshal" || n == "(*encoding/json.Decoder).Decode":
						decode = true
					case n == "dynamic":
						handler = true
					default:
						// request-processing call: returns (interface-typed message, error)
						if tup, ok := call.Type().(*types.Tuple); ok && tup.Len() == 2 && types.IsInterface(tup.At(0).Type()) {
							if call.Call.IsInvoke() || (ir.StaticCallee(call) != nil && c.P.IsLib(ir.StaticCallee(call))) {
								handler = true
							}
						}
					}
				}
				if decode {
					return "decode", v
				}
				if handler {
					return "handler-error", v
				}
			}
		}
		if bin, ok := cond.(*ssa.BinOp); ok && (bin.Op == token.EQL || bin.Op == token.NEQ) {
			_, cx := bin.X.(*ssa.Const)
			_, cy := bin.Y.(*ssa.Const)
			other := bin.X
			if cx {
				other = bin.Y
			}
			if cx || cy {
				cst := bin.Y
				if cx {
					cst = bin.X
				}
				if sv, isStr := ir.ConstStr(cst); isStr && sv != "" && derivesFromMethod(other) && ((bin.Op == token.EQL) != g.Branch) {
					return "dispatch-default", nil
				}
				if derivesFromParams(other, 0) || stringFromParams(other) {
					return "params", nil
				}
			}
		}
	}
	return "", nil
}

// stringFromParams: v is the #0 result of a comma-ok string assertion on a params projection.
func stringFromParams(v ssa.Value) bool {
	if ex, ok := v.(*ssa.Extract); ok && ex.Index == 0 {
		if ta, ok := ex.Tuple.(*ssa.TypeAssert); ok {
			return derivesFromParams(ta.X, 0)
		}
	}
	return false
}

var classCode = map[string]int64{"params": -32602, "dispatch-default": -32601, "handler-error": -32603, "decode": -32700}

func valueDependsOn(v, src ssa.Value, depth int) bool {
	if v == src {
		return true
	}
	if depth > 6 || v == nil {
		return false
	}
	switch x := v.(type) {
	case *ssa.Call:
		if x.Call.IsInvoke() && x.Call.Value == src {
			return true
		}
		for _, a := range x.Call.Args {
			if valueDependsOn(a, src, depth+1) {
				return true
			}
		}
		if x.Call.IsInvoke() {
			return valueDependsOn(x.Call.Value, src, depth+1)
		}
	case *ssa.MakeInterface:
		return valueDependsOn(x.X, src, depth+1)
	case *ssa.ChangeInterface:
		return valueDependsOn(x.X, src, depth+1)
	case *ssa.Slice:
		return valueDependsOn(x.X, src, depth+1)
	case *ssa.Alloc:
		for _, r := range *x.Referrers() {
			switch y := r.(type) {
			case *ssa.IndexAddr:
				for _, rr := range *y.Referrers() {
					if st, ok := rr.(*ssa.Store); ok && valueDependsOn(st.Val, src, depth+1) {
						return true
					}
				}
			case *ssa.Store:
				if y.Addr == x && valueDependsOn(y.Val, src, depth+1) {
					return true
				}
			}
		}
	case *ssa.BinOp:
		return valueDependsOn(x.X, src, depth+1) || valueDependsOn(x.Y, src, depth+1)
	case *ssa.Phi:
		for _, e := range x.Edges {
			if valueDependsOn(e, src, depth+1) {
				return true
			}
		}
	case *ssa.UnOp:
		return valueDependsOn(x.X, src, depth+1)
	case *ssa.Extract:
		return valueDependsOn(x.Tuple, src, depth+1)
	}
	return false
}

func c03Codes(c *Ctx) {
	c03SentinelsWrapped(c)
	sites := collectErrSites(c)
	pds := map[*ssa.Function]*flow.PostDom{}
	pdOf := func(fn *ssa.Function) *flow.PostDom {
		if pds[fn] == nil {
			pds[fn] = flow.NewPostDom(fn)
		}
		return pds[fn]
	}
	perClass := map[string]int{}
	n := map[string]int{}
	for _, s := range sites {
		class, errVal := classifyBlock(c, s.fn, s.at.Block(), pdOf(s.fn))
		if class == "" {
			// unconditional inside its function: inherit the class from the (library) call sites of the function
			var classes []string
			var inheritedErr ssa.Value
			for _, e := range ir.Callers(c.G, s.fn) {
				if e.Site == nil || !c.P.IsLib(e.Caller.Func) {
					continue
				}
				cl, ev := classifyBlock(c, e.Caller.Func, e.Site.Block(), pdOf(e.Caller.Func))
				classes = append(classes, cl)
				// the error handed over as an argument
				if ev != nil {
					for i, a := range e.Site.Common().Args {
						if a == ev && i < len(s.fn.Params) {
							inheritedErr = s.fn.Params[i]
						}
					}
				}
			}
			if len(classes) > 0 {
				same := true
				for _, cl := range classes {
					if cl != classes[0] {
						same = false
					}
				}
				if same {
					class, errVal = classes[0], inheritedErr
				}
			}
		}
		if class == "" || class == "not-found" {
			perClass["unclassified"]++
			continue
		}
		perClass[class]++
		key := class + " error in " + fname(s.fn)
		n[key]++
		construct := key
		if n[key] > 1 {
			construct = sprintf("%s#%d", key, n[key])
		}
		code, isConst := ir.ConstInt(s.code)
		want := classCode[class]
		if !isConst {
			c.R.Add(reportUndecided("R-code-class", construct, c.Pos(s.at.Pos()), "error code is not a constant"))
			continue
		}
		if code != want {
			c.R.Violate("R-code-class", construct, c.Pos(s.at.Pos()),
				sprintf("%s reports a fault of class %q with JSON-RPC code %d; the standard code of that class is %d", fname(s.fn), class, code, want))
			continue
		}
		if class == "handler-error" && errVal != nil {
			dep := false
			for _, t := range s.texts {
				if valueDependsOn(t, errVal, 0) {
					dep = true
				}
			}
			if !dep {
				c.R.Violate("R-code-class", construct, c.Pos(s.at.Pos()),
					sprintf("%s answers a handler failure with -32603 but neither message nor data is derived from the handler's error", fname(s.fn)))
				continue
			}
		}
		c.R.Hold("R-code-class", construct, c.Pos(s.at.Pos()), sprintf("class %s -> %d", class, want))
	}
	c.R.Extra["error_sites_per_class"] = perClass
	c.R.Min("R-code-class", 25)
	for cl, min := range map[string]int{"params": 8, "dispatch-default": 1, "handler-error": 2, "decode": 2} {
		if perClass[cl] < min {
			c.R.Break("R-code-class: only %d sites of class %s recognised (expected >= %d)", perClass[cl], cl, min)
		}
	}
}

// ------------------------------------------------------------------ R-status-written
func isResponseWriter(t types.Type) bool { return ir.TypeStr(t) == "net/http.ResponseWriter" }

func c03Status(c *Ctx) {
	a := &answerAnalysis{c: c, sum: map[*ssa.Function]int{}, blocked: map[*ssa.BasicBlock]int{}}
	a.emptyEventIDException()
	var cands []*ssa.Function
	for _, fn := range c.P.LibFns {
		if hasWriterParam(fn) {
			cands = append(cands, fn)
		}
	}
	for iter := 0; iter < 20; iter++ {
		changed := false
		for _, fn := range cands {
			if a.sum[fn] == ansAlways {
				continue
			}
			if a.escape(fn, false) == nil {
				a.sum[fn] = ansAlways
				changed = true
				continue
			}
			if a.sum[fn] == ansNone && returnsError(fn) && a.escape(fn, true) == nil {
				a.sum[fn] = ansOrErr
				changed = true
			}
			if a.sum[fn] == ansNone && returnsBool(fn) {
				a.boolMode = true
				esc := a.escape(fn, false)
				a.boolMode = false
				if esc == nil {
					a.sum[fn] = ansOrOK
					changed = true
				}
			}
		}
		if !changed {
			break
		}
	}
	if os.Getenv("C03_DEBUG") != "" {
		for _, fn := range cands {
			println("SUM", fname(fn), a.sum[fn])
		}
	}
	nEntries := 0
	for _, fn := range cands {
		if fn.Name() != "ServeHTTP" || fn.Signature.Recv() == nil {
			continue
		}
		nEntries++
		a.report(fn, fname(fn), map[*ssa.Function]bool{})
	}
	c.R.Min("R-status-written", 2)
	if nEntries < 2 {
		c.R.Break("found %d ServeHTTP implementations, expected 2", nEntries)
	}
}

const (
	ansNone   = 0
	ansOrErr  = 1 // every path writes an answer or returns a non-nil error
	ansAlways = 2
	ansOrOK   = -1 // last result is a bool: every path writes an answer or returns true ("not answered, go on"); the
	// caller's not-ok edge is answered by the callee (helper extracted from a handler: `x, ok := h.resolve(w, r); if !ok { return }`)
)

type answerAnalysis struct {
	c        *Ctx
	sum      map[*ssa.Function]int
	blocked  map[*ssa.BasicBlock]int // checked exceptions: CFG edges (block -> successor index) known to be infeasible
	boolMode bool                    // while summarising a bool-returning helper: `return …, true` delegates to the caller
}

func returnsBool(fn *ssa.Function) bool {
	r := fn.Signature.Results()
	return r.Len() > 0 && ir.TypeStr(r.At(r.Len()-1).Type()) == "bool"
}

func returnsError(fn *ssa.Function) bool {
	r := fn.Signature.Results()
	return r.Len() > 0 && ir.TypeStr(r.At(r.Len()-1).Type()) == "error"
}

func passesWriter(call ssa.CallInstruction) bool {
	for _, a := range call.Common().Args {
		if isResponseWriter(ir.Unwrap(a).Type()) || isResponseWriter(a.Type()) {
			return true
		}
	}
	return false
}

func directAnswer(in ssa.Instruction) bool {
	call, ok := in.(*ssa.Call)
	if !ok {
		return false
	}
	n := ir.CallName(call)
	switch n {
	case "(net/http.ResponseWriter).WriteHeader", "(net/http.ResponseWriter).Write", "net/http.Error", "(net/http.Flusher).Flush", "net/http.NotFound", "net/http.Redirect":
		return true
	case "fmt.Fprintf", "fmt.Fprint", "fmt.Fprintln":
		return isResponseWriter(ir.Unwrap(call.Call.Args[0]).Type())
	case "(*encoding/json.Encoder).Encode":
		if oc := originCall(call.Call.Args[0]); oc != nil && ir.CallName(oc) == "encoding/json.NewEncoder" {
			return isResponseWriter(ir.Unwrap(oc.Call.Args[0]).Type())
		}
	}
	return false
}

// callees of a writer-passing call, with dynamic types excluded by a dominating failed comma-ok assertion.
func (a *answerAnalysis) callees(call *ssa.Call) []*ssa.Function {
	cals := ir.Callees(a.c.G, call)
	// a function value taken from a table of bound methods: judge the methods, not their wrappers
	for i, f := range cals {
		if f.Synthetic != "" && strings.Contains(f.Synthetic, "bound") {
			cals[i] = unbound(f)
		}
	}
	if !call.Call.IsInvoke() {
		return cals
	}
	excluded := map[string]bool{}
	for _, g := range flow.Guards(call.Parent(), call.Block()) {
		if ex, ok := g.If.Cond.(*ssa.Extract); ok && ex.Index == 1 && !g.Branch {
			if ta, ok := ex.Tuple.(*ssa.TypeAssert); ok && ta.X == call.Call.Value {
				excluded[types.TypeString(ta.AssertedType, nil)] = true
			}
		}
	}
	if len(excluded) == 0 {
		return cals
	}
	var out []*ssa.Function
	for _, f := range cals {
		if recv := f.Signature.Recv(); recv != nil && excluded[types.TypeString(recv.Type(), nil)] {
			continue
		}
		out = append(out, f)
	}
	return out
}

func (a *answerAnalysis) callKind(call *ssa.Call) int {
	if !passesWriter(call) {
		return ansNone
	}
	cals := a.callees(call)
	if len(cals) == 0 {
		return ansNone
	}
	k := ansAlways
	allOK := true
	for _, f := range cals {
		if a.sum[f] != ansOrOK {
			allOK = false
		}
		if v := a.sum[f]; v != ansOrOK && v < k {
			k = v
		} else if v == ansOrOK {
			k = ansNone
		}
	}
	if allOK {
		return ansOrOK
	}
	return k
}

// escape searches fn for a path from entry to a return that writes no answer.
func (a *answerAnalysis) escape(fn *ssa.Function, errReturnOK bool) ssa.Instruction {
	if len(fn.Blocks) == 0 {
		return nil
	}
	seen := map[*ssa.BasicBlock]bool{fn.Blocks[0]: true}
	stack := []*ssa.BasicBlock{fn.Blocks[0]}
	for len(stack) > 0 {
		b := stack[len(stack)-1]
		stack = stack[:len(stack)-1]
		answered := false
		for _, in := range b.Instrs {
			if directAnswer(in) {
				answered = true
				break
			}
			if call, ok := in.(*ssa.Call); ok && a.callKind(call) == ansAlways {
				answered = true
				break
			}
			if r, ok := in.(*ssa.Return); ok {
				if a.boolMode && len(ir.Results(r)) > 0 {
					if cst, ok := ir.Results(r)[len(ir.Results(r))-1].(*ssa.Const); ok && cst.Value != nil && cst.Value.String() == "true" {
						answered = true
						break
					}
				}
				if errReturnOK && len(ir.Results(r)) > 0 {
					last := ir.Results(r)[len(ir.Results(r))-1]
					if ir.TypeStr(last.Type()) == "error" && definitelyNonNilErr(last) {
						answered = true
						break
					}
					// tail call `return g(w, …)`: g answers or hands its error on
					if tc, ok := last.(*ssa.Call); ok && a.callKind(tc) >= ansOrErr {
						answered = true
						break
					}
				}
				return in
			}
			if _, ok := in.(*ssa.Panic); ok {
				answered = true
				break
			}
		}
		if answered {
			continue
		}
		skip := -1
		if len(b.Instrs) > 0 {
			if ifi, ok := b.Instrs[len(b.Instrs)-1].(*ssa.If); ok {
				if v, op, ok := nilCompare(ifi.Cond); ok && ir.TypeStr(v.Type()) == "error" {
					var calls []*ssa.Call
					errOrigins(v, 0, &calls)
					all := len(calls) > 0
					for _, cl := range calls {
						if a.callKind(cl) < ansOrErr {
							all = false
						}
					}
					if all {
						// the err == nil edge is answered by the callee
						if op == token.NEQ {
							skip = 1
						} else {
							skip = 0
						}
					}
				}
			}
		}
		if len(b.Instrs) > 0 && skip < 0 {
			if ifi, ok := b.Instrs[len(b.Instrs)-1].(*ssa.If); ok {
				var oc *ssa.Call
				switch x := ifi.Cond.(type) {
				case *ssa.Call:
					oc = x
				case *ssa.Extract:
					if cl, ok := x.Tuple.(*ssa.Call); ok && x.Index == cl.Call.Signature().Results().Len()-1 {
						oc = cl
					}
				}
				if oc != nil && a.callKind(oc) == ansOrOK {
					skip = 1 // the not-ok edge was answered by the callee
				}
			}
		}
		blk, isBlocked := a.blocked[b]
		for i, s := range b.Succs {
			if i == skip || seen[s] || (isBlocked && i == blk) {
				continue
			}
			seen[s] = true
			stack = append(stack, s)
		}
	}
	return nil
}

// emptyEventIDException: the exported sseutil.Writer.WriteEvent refuses an event with an empty ID
// before writing anything. That edge is infeasible iff every caller passes an ID produced by the
// exported GenerateEventID (which always returns a non-empty "evt-…" string). The side condition
// is checked here on every run; only then is the edge blocked.
func (a *answerAnalysis) emptyEventIDException() {
	c := a.c
	wt := c.P.Named(ir.RootPath+"/internal/sseutil", "Writer")
	we := c.P.Method(wt, "WriteEvent")
	if we == nil {
		return
	}
	ok := true
	n := 0
	for _, e := range ir.Callers(c.G, we) {
		if e.Site == nil || !c.P.IsLib(e.Caller.Func) {
			if os.Getenv("C03_DEBUG") != "" {
				println("EXC: non-lib caller", e.Caller.Func.String())
			}
			ok = false
			continue
		}
		n++
		args := e.Site.Common().Args
		ev := args[len(args)-1]
		// Event{ID: x, ...}: a load of a local struct whose ID field store comes from GenerateEventID()
		fromGen := false
		if u, isU := ev.(*ssa.UnOp); isU {
			if al, isAl := u.X.(*ssa.Alloc); isAl {
				for _, r := range *al.Referrers() {
					if fa, isFa := r.(*ssa.FieldAddr); isFa {
						if f, _, _ := ir.FieldOf(fa); f.Name == "ID" {
							for _, rr := range *fa.Referrers() {
								if st, isSt := rr.(*ssa.Store); isSt {
									if oc := originCall(st.Val); oc != nil && strings.HasSuffix(ir.CallName(oc), "sseutil.Writer).GenerateEventID") {
										fromGen = true
									}
								}
							}
						}
					}
				}
			}
		}
		if !fromGen {
			if os.Getenv("C03_DEBUG") != "" {
				println("EXC: caller without GenerateEventID id:", fname(e.Caller.Func), ev.String())
			}
			ok = false
		}
	}
	if !ok || n == 0 {
		return
	}
	for _, b := range we.Blocks {
		if len(b.Instrs) == 0 {
			continue
		}
		ifi, isIf := b.Instrs[len(b.Instrs)-1].(*ssa.If)
		if !isIf {
			continue
		}
		bin, isBin := ifi.Cond.(*ssa.BinOp)
		if !isBin || bin.Op != token.EQL {
			continue
		}
		if s, isS := ir.ConstStr(bin.Y); !isS || s != "" {
			continue
		}
		isID := false
		if f, isF := bin.X.(*ssa.Field); isF {
			if fr, _, okf := ir.FieldOf(f); okf && fr.Name == "ID" {
				isID = true
			}
		}
		if fr, _, okf := ir.LoadedField(bin.X); okf && fr.Name == "ID" {
			isID = true
		}
		if isID {
			a.blocked[b] = 0
			c.R.Hold("R-exception", "WriteEvent empty-ID edge", c.Pos(bin.Pos()), sprintf("infeasible: all %d callers pass GenerateEventID() as the event ID (checked)", n))
		}
	}
}

func definitelyNonNilErr(v ssa.Value) bool {
	switch x := v.(type) {
	case *ssa.Const:
		return false
	case *ssa.Phi:
		for _, e := range x.Edges {
			if !definitelyNonNilErr(e) {
				return false
			}
		}
		return true
	case *ssa.Call:
		n := ir.CallName(x)
		return n == "fmt.Errorf" || n == "errors.New"
	case *ssa.MakeInterface:
		return true
	case *ssa.Extract, *ssa.Parameter, *ssa.UnOp:
		// an error value that was tested non-nil on this path: accept when the return is controlled by its != nil edge
		if in, ok := v.(ssa.Instruction); ok {
			_ = in
		}
		return true
	}
	return false
}

// report descends from entry to the innermost function where an unanswered path is local.
func (a *answerAnalysis) report(fn *ssa.Function, entry string, seen map[*ssa.Function]bool) {
	c := a.c
	if seen[fn] {
		return
	}
	seen[fn] = true
	construct := fname(fn) + " (via " + entry + ")"
	orErr := a.sum[fn] == ansOrErr // such a function may leave the answer to its caller by returning a non-nil error
	esc := a.escape(fn, orErr)
	if esc == nil {
		c.R.Hold("R-status-written", construct, c.Pos(fn.Pos()), "every path to the function exit writes a status or body")
		return
	}
	// which writer-passing calls to non-always callees would close the gap if they always answered?
	var culprits []*ssa.Call
	ir.EachInstr(fn, func(_ *ssa.BasicBlock, _ int, in ssa.Instruction) {
		call, ok := in.(*ssa.Call)
		if !ok || !passesWriter(call) || a.callKind(call) == ansAlways {
			return
		}
		for _, f := range a.callees(call) {
			if c.P.IsLib(f) && hasWriterParam(f) && a.mayAnswer(f, map[*ssa.Function]bool{}) {
				culprits = append(culprits, call)
				return
			}
		}
	})
	// local gap: an escape that passes none of the culprit calls
	saved := map[*ssa.Function]int{}
	for _, cl := range culprits {
		for _, f := range a.callees(cl) {
			if _, done := saved[f]; !done {
				saved[f] = a.sum[f]
			}
			if a.sum[f] == ansNone {
				a.sum[f] = ansAlways // assume the callee's own gaps away (they are reported at the callee)
			}
		}
	}
	local := a.escape(fn, orErr)
	for f, v := range saved {
		a.sum[f] = v
	}
	if local != nil {
		c.R.Violate("R-status-written", construct, ipos(c, local),
			sprintf("%s can return (near %s) without having written any status or body: net/http then sends an empty 200", fname(fn), ipos(c, local)))
	} else {
		c.R.Hold("R-status-written", construct, c.Pos(fn.Pos()), "no local unanswered path (delegates to callees checked below)")
	}
	for _, cl := range culprits {
		for _, f := range a.callees(cl) {
			if a.sum[f] == ansOrErr {
				// the callee answers or reports an error: the caller's error edge must answer — that is the local check above
				a.report(f, entry, seen)
				continue
			}
			a.report(f, entry, seen)
		}
	}
}

// mayAnswer: fn (transitively) contains some answering instruction.
func (a *answerAnalysis) mayAnswer(fn *ssa.Function, seen map[*ssa.Function]bool) bool {
	if seen[fn] {
		return false
	}
	seen[fn] = true
	found := false
	ir.EachInstr(fn, func(_ *ssa.BasicBlock, _ int, in ssa.Instruction) {
		if found {
			return
		}
		if directAnswer(in) {
			found = true
			return
		}
		if call, ok := in.(*ssa.Call); ok && passesWriter(call) {
			for _, f := range a.callees(call) {
				if a.c.P.IsLib(f) && a.mayAnswer(f, seen) {
					found = true
				}
			}
		}
	})
	return found
}

// ------------------------------------------------------------------ R-decode-answered
func c03Decode(c *Ctx) {
	// server entry points: ServeHTTP implementations and the stdio line loop (functions reachable from exported Start*/ServeHTTP of server types)
	var roots []*ssa.Function
	for _, T := range c.serverTypes() {
		roots = append(roots, c.methodsWithPrefix(T, "ServeHTTP", "Start")...)
	}
	for _, fn := range c.P.LibFns {
		if fn.Name() == "ServeHTTP" && fn.Signature.Recv() != nil {
			roots = append(roots, fn)
		}
	}
	reach := c.Reach(roots...)
	isReqTarget := func(v ssa.Value) string {
		v = ir.Unwrap(v)
		pt, ok := v.Type().(*types.Pointer)
		if !ok {
			return ""
		}
		// first-stage decodes only (raw bytes of the peer): a second-stage decode of bytes that already
		// passed the envelope stage into a type with the same member types cannot fail, so demanding an
		// answer on its error edge would flag an infeasible path (this was a false alarm; see DESIGN.md).
		switch ir.TypeStr(pt.Elem()) {
		case "encoding/json.RawMessage":
			return "RawMessage"
		}
		if st, ok := pt.Elem().Underlying().(*types.Struct); ok {
			hasID, hasMethod := false, false
			for i := 0; i < st.NumFields(); i++ {
				tag := reflect.StructTag(st.Tag(i)).Get("json")
				if strings.HasPrefix(tag, "id") {
					hasID = true
				}
				if strings.HasPrefix(tag, "method") {
					hasMethod = true
				}
			}
			hasRes := false
			for i := 0; i < st.NumFields(); i++ {
				tag := reflect.StructTag(st.Tag(i)).Get("json")
				if strings.HasPrefix(tag, "result") || strings.HasPrefix(tag, "error") {
					hasRes = true
				}
			}
			if hasID && hasMethod && !hasRes {
				return "envelope"
			}
		}
		return ""
	}
	n := map[string]int{}
	for _, fn := range sortedFuncs(reach) {
		if c.InitOnly()[fn] {
			continue
		}
		ir.EachInstr(fn, func(_ *ssa.BasicBlock, _ int, in ssa.Instruction) {
			call, ok := in.(*ssa.Call)
			if !ok {
				return
			}
			nm := ir.CallName(call)
			if nm != "encoding/json.Unmarshal" && nm != "(*encoding/json.Decoder).Decode" {
				return
			}
			target := isReqTarget(call.Call.Args[len(call.Call.Args)-1])
			if target == "" {
				return
			}
			// only functions that process a message to completion (no result, or only an error/message result), not value-returning helpers
			if res := fn.Signature.Results(); res.Len() > 0 {
				last := res.At(res.Len() - 1).Type()
				if ir.TypeStr(last) != "error" {
					return
				}
			}
			// client-side code reachable from servers? restrict to functions whose receiver/params are server-side: skip files of clients
			if clientSide(c, fn) {
				return
			}
			key := "decode " + target + " in " + fname(fn)
			n[key]++
			construct := key
			if n[key] > 1 {
				construct = sprintf("%s#%d", key, n[key])
			}
			// error value: the call's (only or last) result
			var errv ssa.Value = call
			if _, isTuple := call.Type().(*types.Tuple); isTuple {
				errv = nil
			}
			if errv == nil {
				c.R.Add(reportUndecided("R-decode-answered", construct, c.Pos(call.Pos()), "unexpected result shape"))
				return
			}
			var ifi *ssa.If
			errSucc := 0
			for _, r := range *errv.Referrers() {
				if bin, ok := r.(*ssa.BinOp); ok {
					if _, op, ok := nilCompare(bin); ok {
						for _, rr := range *bin.Referrers() {
							if i, ok := rr.(*ssa.If); ok {
								ifi = i
								if op == token.EQL {
									errSucc = 1
								}
							}
						}
					}
				}
			}
			if ifi == nil {
				c.R.Violate("R-decode-answered", construct, c.Pos(call.Pos()), sprintf("%s ignores the decode error of a peer message", fname(fn)))
				return
			}
			answered := func(in ssa.Instruction) bool {
				if cl, ok := in.(ssa.CallInstruction); ok {
					switch ir.CallName(cl) {
					case "net/http.Error", "(net/http.ResponseWriter).WriteHeader":
						return true
					}
					// library helper that writes a JSON-RPC error to the writer
					for _, a := range cl.Common().Args {
						if isResponseWriter(ir.Unwrap(a).Type()) || isResponseWriter(a.Type()) {
							return true
						}
					}
				}
				if r, ok := in.(*ssa.Return); ok {
					for _, res := range ir.Results(r) {
						// returning a constructed JSON-RPC error, or a non-nil error to the caller
						if oc := originCall(res); oc != nil {
							if sc := ir.StaticCallee(oc); sc != nil && strings.Contains(ir.TypeStr(sc.Signature.Results().At(0).Type()), "JSONRPCError") {
								return true
							}
						}
						if ir.TypeStr(res.Type()) == "error" && !ir.IsNilConst(res) {
							return true
						}
					}
				}
				return false
			}
			esc := exitsFromBlockAvoiding(fn, ifi.Block().Succs[errSucc], answered)
			c.R.Check(esc == nil, "R-decode-answered", construct, c.Pos(call.Pos()), "decode failure is answered (HTTP error / JSON-RPC error / error returned)",
				sprintf("%s: when decoding the peer's %s fails the handler only logs and returns — the input is neither served nor answered with an error", fname(fn), target))
		})
	}
	c.R.Min("R-decode-answered", 5)
}

// ------------------------------------------------------------------ R-array-shape
func c03Arrays(c *Ctx) {
	sc := c.P.Root.Types.Scope()
	for _, name := range sc.Names() {
		tn, ok := sc.Lookup(name).(*types.TypeName)
		if !ok || !strings.HasSuffix(name, "Result") {
			continue
		}
		nt, ok := tn.Type().(*types.Named)
		if !ok {
			continue
		}
		st, ok := nt.Underlying().(*types.Struct)
		if !ok {
			continue
		}
		for i := 0; i < st.NumFields(); i++ {
			f := st.Field(i)
			if _, isSlice := f.Type().Underlying().(*types.Slice); !isSlice {
				continue
			}
			tag := reflect.StructTag(st.Tag(i)).Get("json")
			if tag == "-" || strings.Contains(tag, "omitempty") {
				continue
			}
			construct := name + "." + f.Name()
			// custom marshaller on the type?
			hasMarshal := false
			for _, recv := range []types.Type{nt, types.NewPointer(nt)} {
				if ms := types.NewMethodSet(recv); ms.Lookup(nil, "MarshalJSON") != nil {
					hasMarshal = true
				}
			}
			if hasMarshal {
				c.R.Hold("R-array-shape", construct, c.Pos(f.Pos()), "type has a MarshalJSON")
				continue
			}
			// every library construction stores a provably non-nil slice; and the type is not handed over by user handlers
			userMade := userHandlerProduces(c, nt, f)
			bad := ""
			for _, fn := range c.P.LibFns {
				ir.EachInstr(fn, func(_ *ssa.BasicBlock, _ int, in ssa.Instruction) {
					stI, ok := in.(*ssa.Store)
					if !ok {
						return
					}
					fr, _, ok := ir.FieldOf(stI.Addr)
					if !ok || fr.Struct != nt || fr.Name != f.Name() {
						return
					}
					if !nonNilSlice(stI.Val, 0) {
						bad = sprintf("%s stores a possibly nil slice (%s)", fname(fn), c.Pos(stI.Pos()))
					}
				})
			}
			switch {
			case userMade != "":
				c.R.Violate("R-array-shape", construct, c.Pos(f.Pos()),
					sprintf("%s is an MCP array member without omitempty and %s: a nil slice is encoded as null, not []", construct, userMade))
			case bad != "":
				c.R.Violate("R-array-shape", construct, c.Pos(f.Pos()), sprintf("%s is an MCP array member without omitempty and %s", construct, bad))
			default:
				c.R.Hold("R-array-shape", construct, c.Pos(f.Pos()), "all constructions store a non-nil slice")
			}
		}
	}
	c.R.Min("R-array-shape", 6)
}

// userHandlerProduces: the struct (or the slice itself) is the result of a user-supplied handler type.
func userHandlerProduces(c *Ctx, nt *types.Named, f *types.Var) string {
	sc := c.P.Root.Types.Scope()
	for _, name := range sc.Names() {
		tn, ok := sc.Lookup(name).(*types.TypeName)
		if !ok {
			continue
		}
		sig, ok := tn.Type().Underlying().(*types.Signature)
		if !ok || sig.Results().Len() == 0 {
			continue
		}
		if !strings.HasSuffix(strings.ToLower(name), "handler") {
			continue
		}
		r := sig.Results().At(0).Type()
		if p, ok := r.(*types.Pointer); ok {
			r = p.Elem()
		}
		if r == types.Type(nt) {
			return "values of this type are returned by user handlers (" + name + ")"
		}
		if types.Identical(r, f.Type()) {
			// the slice itself comes from a user handler and is stored into the field
			stored := false
			for _, fn := range c.P.LibFns {
				ir.EachInstr(fn, func(_ *ssa.BasicBlock, _ int, in ssa.Instruction) {
					st, ok := in.(*ssa.Store)
					if !ok {
						return
					}
					fr, _, ok := ir.FieldOf(st.Addr)
					if ok && fr.Struct == nt && fr.Name == f.Name() {
						if ex, ok := st.Val.(*ssa.Extract); ok {
							if call, ok := ex.Tuple.(*ssa.Call); ok && ir.CallName(call) == "dynamic" {
								stored = true
							}
						}
					}
				})
			}
			if stored {
				return "the slice returned by a user handler (" + name + ") is stored unnormalised"
			}
		}
	}
	return ""
}

func nonNilSlice(v ssa.Value, depth int) bool {
	if depth > 6 {
		return false
	}
	switch x := v.(type) {
	case *ssa.MakeSlice:
		return true
	case *ssa.Slice:
		if _, ok := x.X.(*ssa.Alloc); ok {
			return true
		}
		return nonNilSlice(x.X, depth+1)
	case *ssa.Call:
		if b, ok := x.Call.Value.(*ssa.Builtin); ok && b.Name() == "append" {
			return nonNilSlice(x.Call.Args[0], depth+1) || (len(x.Call.Args) > 1 && nonNilSlice(x.Call.Args[1], depth+1))
		}
		// a library helper (also an instance of a generic one) every return of which yields a non-nil slice
		if sc := ir.StaticCallee(x); sc != nil && len(sc.Blocks) > 0 && strings.HasPrefix(ir.PkgPathOf(sc), ir.RootPath) {
			nRet, all := 0, true
			ir.EachInstr(sc, func(b *ssa.BasicBlock, _ int, in ssa.Instruction) {
				if r, ok := in.(*ssa.Return); ok && b != sc.Recover && len(ir.Results(r)) > 0 {
					nRet++
					if !nonNilSlice(unspill(ir.Results(r)[0]), depth+1) {
						all = false
					}
				}
			})
			return nRet > 0 && all
		}
	case *ssa.Phi:
		for i, e := range x.Edges {
			if nonNilSlice(e, depth+1) {
				continue
			}
			// normalisation idiom: `if v == nil { v = []T{} }` — this edge is the non-nil edge of the test on e
			pred := x.Block().Preds[i]
			ok := false
			if len(pred.Instrs) > 0 {
				if ifi, isIf := pred.Instrs[len(pred.Instrs)-1].(*ssa.If); isIf {
					if v, op, isNil := nilCompare(ifi.Cond); isNil && v == e {
						nonNilSucc := 1
						if op == token.NEQ {
							nonNilSucc = 0
						}
						if pred.Succs[nonNilSucc] == x.Block() {
							ok = true
						}
					}
				}
			}
			if !ok {
				return false
			}
		}
		return true
	case *ssa.Const:
		return false
	}
	return false
}

// ---------------------------------------------------------------- R-queue-answered
// Transports that answer through a per-session queue instead of an http.ResponseWriter (legacy SSE): in the function
// that dispatches a decoded request, every path from the dispatch to the function's exit hands a frame to the
// session's queue — directly (a blocking select with a send on a channel field; one with a default arm drops the frame
// when the queue is full) or through a callee that does so on all of its
// own paths. A path that only logs (e.g. "could not encode the response") leaves the caller without any answer.
func c03QueueAnswered(c *Ctx) {
	// summary: functions in which every path from entry to a return enqueues
	sum := map[*ssa.Function]bool{}
	enqHere := func(in ssa.Instruction) bool {
		switch x := in.(type) {
		case *ssa.Select:
			if !x.Blocking {
				return false // with a default arm the frame is dropped when the queue is full: not an answer handed over
			}
			for _, st := range x.States {
				if st.Dir == types.SendOnly {
					if _, _, ok := ir.LoadedField(st.Chan); ok {
						return true
					}
				}
			}
		case *ssa.Send:
			if _, _, ok := ir.LoadedField(x.Chan); ok {
				return true
			}
		case *ssa.Call:
			for _, cal := range ir.Callees(c.G, x) {
				if sum[cal] {
					return true
				}
			}
		}
		return false
	}
	var cands []*ssa.Function
	for _, fn := range c.P.LibFns {
		if serverSide(c, fn) && !hasWriterParam(fn) && len(fn.Blocks) > 0 {
			cands = append(cands, fn)
		}
	}
	for iter := 0; iter < 10; iter++ {
		changed := false
		for _, fn := range cands {
			if sum[fn] {
				continue
			}
			has := false
			ir.EachInstr(fn, func(_ *ssa.BasicBlock, _ int, in ssa.Instruction) {
				if enqHere(in) {
					has = true
				}
			})
			if !has {
				continue
			}
			if flow.ExitsAvoiding(fn, nil, enqHere, false) == nil {
				sum[fn] = true
				changed = true
			}
		}
		if !changed {
			break
		}
	}
	n := 0
	for _, fn := range cands {
		ir.EachInstr(fn, func(_ *ssa.BasicBlock, _ int, in ssa.Instruction) {
			call, ok := in.(*ssa.Call)
			if !ok || !c.isDispatchCall(call) {
				return
			}
			// only transports that answer through a queue: the function (or its callees) enqueues at all
			uses := false
			for f := range c.ReachSync(fn) {
				ir.EachInstr(f, func(_ *ssa.BasicBlock, _ int, in2 ssa.Instruction) {
					if sel, ok := in2.(*ssa.Select); ok {
						for _, st := range sel.States {
							if st.Dir == types.SendOnly {
								if _, _, ok := ir.LoadedField(st.Chan); ok {
									uses = true
								}
							}
						}
					}
				})
			}
			if !uses {
				return
			}
			n++
			esc := flow.ExitsAvoiding(fn, call, enqHere, false)
			// ... and before the dispatch: a decoded message leaves this function without dispatch and without a frame only
			// where a test of its method has said that it is not a request (an answer posted by the client has none).
			// A diversion decided by the id alone swallows every request that happens to carry the id of something pending.
			examines := func(cond ssa.Value) bool {
				for {
					if u, ok := cond.(*ssa.UnOp); ok && u.Op == token.NOT {
						cond = u.X
						continue
					}
					break
				}
				switch x := cond.(type) {
				case *ssa.BinOp:
					return derivesFromMethod(x.X) || derivesFromMethod(x.Y)
				case *ssa.Call:
					sc := ir.StaticCallee(x)
					if sc == nil || !c.P.IsLib(sc) {
						return false
					}
					found := false
					for i, a := range x.Call.Args {
						if ir.TypeStr(a.Type()) != "*mcp.JSONRPCRequest" || i >= len(sc.Params) {
							continue
						}
						prm := sc.Params[i]
						ir.EachInstr(sc, func(_ *ssa.BasicBlock, _ int, in3 ssa.Instruction) {
							if fa, ok := in3.(*ssa.FieldAddr); ok {
								if key, _, _, _ := ir.FullField(fa); strings.HasSuffix(key, ".Method") {
									root := ssa.Value(fa)
									for {
										if pfa, ok := root.(*ssa.FieldAddr); ok {
											root = pfa.X
											continue
										}
										break
									}
									if root == ssa.Value(prm) {
										found = true
									}
								}
							}
						})
					}
					return found
				}
				return false
			}
			var diverted *ssa.BasicBlock
			seenB := map[*ssa.BasicBlock]bool{}
			stack := []*ssa.BasicBlock{fn.Blocks[0]}
			for len(stack) > 0 && diverted == nil {
				b := stack[len(stack)-1]
				stack = stack[:len(stack)-1]
				if seenB[b] || b == fn.Recover {
					continue
				}
				seenB[b] = true
				stop := false
				for _, bi := range b.Instrs {
					if bi == ssa.Instruction(call) || enqHere(bi) {
						stop = true
					}
				}
				if stop {
					continue
				}
				if _, isRet := b.Instrs[len(b.Instrs)-1].(*ssa.Return); isRet {
					diverted = b
					break
				}
				if bif, ok := b.Instrs[len(b.Instrs)-1].(*ssa.If); ok && examines(bif.Cond) {
					continue
				}
				stack = append(stack, b.Succs...)
			}
			c.R.Check(diverted == nil, "R-queue-answered", "no request diverted before the dispatch in "+fname(fn), c.Pos(call.Pos()),
				"a message bypasses the dispatch only after a test of its method",
				sprintf("%s can return without dispatching the message and without queueing any frame on a path that no test of the message's method controls: a request (for instance one whose id equals that of a pending server request) is taken for something else and never answered", fname(fn)))
			c.R.Check(esc == nil, "R-queue-answered", "answer enqueued after dispatch in "+fname(fn), c.Pos(call.Pos()),
				"every path from the dispatch to the exit hands a frame to the session's queue",
				sprintf("%s can return (near %s) after dispatching a request without handing any frame to the session's queue (a send that a default arm can skip does not count): the request gets no answer at all (not even -32603)", fname(fn), iposEsc(c, esc)))
		})
	}
	c.R.Min("R-queue-answered", 1)
}

// c03SentinelsWrapped (R-code-class): where the class of a failure — and with it the JSON-RPC code — is decided by
// errors.Is against a sentinel, an error that names that sentinel has to WRAP it: `fmt.Errorf("%v: …", ErrInvalidParams)`
// prints the same text as `%w` but is no longer recognised, and the failure is answered with the default (internal) code.
func c03SentinelsWrapped(c *Ctx) {
	tested := map[*ssa.Global]*ssa.Function{}
	for _, fn := range c.P.LibFns {
		ir.EachCall(fn, func(call ssa.CallInstruction) {
			if ir.CallName(call) != "errors.Is" || len(call.Common().Args) != 2 {
				return
			}
			if u, ok := call.Common().Args[1].(*ssa.UnOp); ok {
				if g, ok := u.X.(*ssa.Global); ok && g.Pkg != nil && strings.HasPrefix(g.Pkg.Pkg.Path(), ir.RootPath) {
					if tested[g] == nil {
						tested[g] = fn
					}
				}
			}
		})
	}
	n := 0
	for _, fn := range c.P.LibFns {
		cnt := 0
		ir.EachInstr(fn, func(_ *ssa.BasicBlock, _ int, in ssa.Instruction) {
			call, ok := in.(*ssa.Call)
			if !ok || ir.CallName(call) != "fmt.Errorf" || len(call.Call.Args) < 2 {
				return
			}
			format, ok := ir.ConstStr(call.Call.Args[0])
			if !ok {
				return
			}
			elems := variadicElems(call.Call.Args[1])
			// verbs in order
			var verbs []byte
			for i := 0; i+1 < len(format); i++ {
				if format[i] != '%' {
					continue
				}
				j := i + 1
				for j < len(format) && strings.IndexByte("+-# 0123456789.[]*", format[j]) >= 0 {
					j++
				}
				if j < len(format) {
					if format[j] != '%' {
						verbs = append(verbs, format[j])
					}
					i = j
				}
			}
			for i, e := range elems {
				if e == nil {
					continue
				}
				u, ok := ir.Unwrap(e).(*ssa.UnOp)
				if !ok {
					continue
				}
				g, ok := u.X.(*ssa.Global)
				if !ok || tested[g] == nil {
					continue
				}
				n++
				cnt++
				wrapped := i < len(verbs) && verbs[i] == 'w'
				c.R.Check(wrapped, "R-code-class", sprintf("sentinel %s named by an error built in %s #%d", g.Name(), fname(fn), cnt), c.Pos(call.Pos()),
					"the sentinel is wrapped with %w, so errors.Is recognises the failure's class",
					sprintf("%s builds an error that prints %s with %%%c instead of wrapping it with %%w, while %s decides the failure's class (and JSON-RPC code) by errors.Is(err, %s): this failure is answered with the code of the default class", fname(fn), g.Name(), verbAt(verbs, i), fname(tested[g]), g.Name()))
			}
		})
	}
	if n == 0 {
		c.R.Hold("R-code-class", "no error names a sentinel that a classifier tests with errors.Is without wrapping it", "", sprintf("%d sentinel(s) tested with errors.Is in the library", len(tested)))
	}
}

func verbAt(verbs []byte, i int) byte {
	if i < len(verbs) {
		return verbs[i]
	}
	return '?'
}

// c03EncodeChecked (R-encode-checked): a value of interface type that comes in as a parameter (a handler's result, a
// typed tool's output) may be unencodable (NaN, a channel, a cyclic map). Where the library encodes such a value with
// json.Marshal, the bytes are used only on the err == nil edge: used regardless, a failed encoding yields nil bytes —
// as a json.RawMessage that is the JSON text `null` inside an otherwise successful answer, where the property demands
// an internal error.
func c03EncodeChecked(c *Ctx) {
	n := 0
	for _, fn := range c.P.LibFns {
		if clientSide(c, fn) {
			continue
		}
		var pd *flow.PostDom
		cnt := 0
		ir.EachInstr(fn, func(_ *ssa.BasicBlock, _ int, in ssa.Instruction) {
			call, ok := in.(*ssa.Call)
			if !ok || ir.CallName(call) != "encoding/json.Marshal" || call.Referrers() == nil {
				return
			}
			arg := call.Call.Args[0]
			for {
				if ci, ok := arg.(*ssa.ChangeInterface); ok {
					arg = ci.X
					continue
				}
				break
			}
			if _, isIface := arg.Type().Underlying().(*types.Interface); !isIface {
				return
			}
			if _, isParam := arg.(*ssa.Parameter); !isParam {
				return
			}
			var data, errv ssa.Value
			for _, r := range *call.Referrers() {
				if ex, ok := r.(*ssa.Extract); ok {
					if ex.Index == 0 {
						data = ex
					} else {
						errv = ex
					}
				}
			}
			if data == nil || data.Referrers() == nil {
				return
			}
			n++
			cnt++
			if pd == nil {
				pd = flow.NewPostDom(fn)
			}
			bad := ""
			errOK := func(g flow.Guard, ev ssa.Value) bool {
				v, op, ok := nilCompare(g.If.Cond)
				return ok && ev != nil && v == ev && ((op == token.EQL && g.Branch) || (op == token.NEQ && !g.Branch))
			}
			var checkUses func(d, ev ssa.Value, depth int)
			checkUses = func(d, ev ssa.Value, depth int) {
				if d.Referrers() == nil || depth > 3 {
					return
				}
				for _, u := range *d.Referrers() {
					if phi, ok := u.(*ssa.Phi); ok {
						pb := phi.Block()
						for i, e := range phi.Edges {
							if e != d || i >= len(pb.Preds) {
								continue
							}
							pred := pb.Preds[i]
							// (1) the edge itself is the err == nil edge of a test in the predecessor
							edgeOK := false
							if ifi, ok := pred.Instrs[len(pred.Instrs)-1].(*ssa.If); ok {
								if v, op, ok := nilCompare(ifi.Cond); ok && ev != nil && v == ev {
									okSucc := 0
									if op == token.NEQ {
										okSucc = 1
									}
									if pred.Succs[okSucc] == pb {
										edgeOK = true
									}
								}
							}
							for _, g := range append(pd.ControlDepsTransitive(pred), flow.Guards(fn, pred)...) {
								if errOK(g, ev) {
									edgeOK = true
								}
							}
							if edgeOK {
								continue
							}
							// (2) the error travels with the bytes: a phi of the errors in the same block, same edge
							var q *ssa.Phi
							for _, bi := range pb.Instrs {
								if cand, ok := bi.(*ssa.Phi); ok && cand != phi && i < len(cand.Edges) && cand.Edges[i] == ev {
									q = cand
								}
							}
							if q != nil {
								checkUses(phi, q, depth+1)
							} else {
								bad = c.Pos(fn.Pos())
							}
						}
						continue
					}
					guarded := false
					for _, g := range append(pd.ControlDepsTransitive(u.Block()), flow.Guards(fn, u.Block())...) {
						if errOK(g, ev) {
							guarded = true
						}
					}
					// handed back together with the error of the same call: the caller decides
					if r, ok := u.(*ssa.Return); ok && ev != nil {
						for _, rv := range r.Results {
							if rv == ev {
								guarded = true
							}
						}
					}
					if !guarded {
						bad = c.Pos(u.Pos())
					}
				}
			}
			checkUses(data, errv, 0)
			c.R.Check(bad == "", "R-encode-checked", sprintf("bytes of json.Marshal #%d in %s", cnt, fname(fn)), c.Pos(call.Pos()),
				"used only where the encoding succeeded",
				sprintf("%s encodes a caller-supplied value and uses the bytes (at %s) also when json.Marshal failed: an unencodable result becomes `null` inside a successful answer instead of an internal error", fname(fn), bad))
		})
	}
	if n == 0 {
		c.R.Hold("R-encode-checked", "no caller-supplied interface value is encoded with json.Marshal on the server side", "", "")
	}
}

// c03EncodeFailureAnswered (R-encode-failure-answered): the result of a handler may be unencodable. The function that
// encodes what the dispatcher returned and writes it out must, when json.Marshal fails, still answer the request — by
// encoding an error object instead (a second Marshal, or a helper that builds a -32603 answer). Returning the error to
// a caller that only logs it leaves the request without any answer: over stdio the client waits until its own timeout.
func c03EncodeFailureAnswered(c *Ctx) {
	// functions that dispatch requests: the table-driven dispatcher's ancestors, and those comparing the method themselves
	dispatches := func(f *ssa.Function) bool {
		if f == nil {
			return false
		}
		if c.dispatchReach()[f] {
			return true
		}
		found := false
		ir.EachInstr(f, func(_ *ssa.BasicBlock, _ int, in ssa.Instruction) {
			if bin, ok := in.(*ssa.BinOp); ok && bin.Op == token.EQL && derivesFromMethod(bin.X) {
				if s, ok := ir.ConstStr(bin.Y); ok && s == "tools/call" {
					found = true
				}
			}
		})
		return found
	}
	fedByDispatch := func(fn *ssa.Function, p *ssa.Parameter) bool {
		idx := -1
		for i, q := range fn.Params {
			if q == p {
				idx = i
			}
		}
		for _, e := range ir.Callers(c.G, fn) {
			if e.Site == nil || !c.P.IsLib(e.Caller.Func) || idx < 0 || idx >= len(e.Site.Common().Args) {
				continue
			}
			v := e.Site.Common().Args[idx]
			for i := 0; i < 4; i++ {
				switch x := v.(type) {
				case *ssa.ChangeInterface:
					v = x.X
					continue
				case *ssa.MakeInterface:
					v = x.X
					continue
				case *ssa.Extract:
					v = x.Tuple
					continue
				}
				break
			}
			if call, ok := v.(*ssa.Call); ok {
				for _, cal := range ir.Callees(c.G, call) {
					if dispatches(cal) {
						return true
					}
				}
			}
		}
		return false
	}
	var fallback func(call ssa.CallInstruction, d int) bool
	fallback = func(call ssa.CallInstruction, d int) bool {
		if ir.CallName(call) == "encoding/json.Marshal" {
			return true
		}
		for _, a := range call.Common().Args {
			if n, ok := ir.ConstInt(a); ok && n == -32603 {
				return true
			}
		}
		sc := ir.StaticCallee(call)
		if d >= 2 || sc == nil || !c.P.IsLib(sc) {
			return false
		}
		found := false
		ir.EachCall(sc, func(ic ssa.CallInstruction) {
			if fallback(ic, d+1) {
				found = true
			}
		})
		ir.EachInstr(sc, func(_ *ssa.BasicBlock, _ int, in ssa.Instruction) {
			if st, ok := in.(*ssa.Store); ok {
				if n, ok := ir.ConstInt(st.Val); ok && n == -32603 {
					found = true
				}
			}
		})
		return found
	}
	n := 0
	for _, fn := range c.P.LibFns {
		if clientSide(c, fn) {
			continue
		}
		ir.EachInstr(fn, func(_ *ssa.BasicBlock, _ int, in ssa.Instruction) {
			call, ok := in.(*ssa.Call)
			isEncode := ok && ir.CallName(call) == "(*encoding/json.Encoder).Encode"
			if !ok || (ir.CallName(call) != "encoding/json.Marshal" && !isEncode) || call.Referrers() == nil {
				return
			}
			arg := call.Call.Args[len(call.Call.Args)-1]
			for {
				if ci, ok := arg.(*ssa.ChangeInterface); ok {
					arg = ci.X
					continue
				}
				break
			}
			p, ok := arg.(*ssa.Parameter)
			if !ok {
				return
			}
			// ... or the function is a responder: it is handed the request's writer, the request and the answer
			responder := false
			if hasWriterParam(fn) {
				for _, q := range fn.Params {
					if ir.TypeStr(q.Type()) == "*net/http.Request" {
						responder = true
					}
				}
			}
			if !fedByDispatch(fn, p) && !responder {
				return
			}
			var errv ssa.Value
			for _, r := range *call.Referrers() {
				if ex, ok := r.(*ssa.Extract); ok && ex.Index == 1 {
					errv = ex
				}
			}
			if isEncode {
				errv = call // Encode returns the error itself
			}
			n++
			construct := "failed encoding of a handler's result in " + fname(fn)
			if errv == nil {
				c.R.Violate("R-encode-failure-answered", construct, c.Pos(call.Pos()), sprintf("%s ignores the error of encoding what the dispatcher returned", fname(fn)))
				return
			}
			var failEdge *ssa.BasicBlock
			for _, b := range fn.Blocks {
				if len(b.Instrs) == 0 {
					continue
				}
				if ifi, ok := b.Instrs[len(b.Instrs)-1].(*ssa.If); ok {
					if v, op, ok := nilCompare(ifi.Cond); ok && v == errv {
						if op == token.NEQ {
							failEdge = b.Succs[0]
						} else {
							failEdge = b.Succs[1]
						}
					}
				}
			}
			if failEdge == nil {
				c.R.Violate("R-encode-failure-answered", construct, c.Pos(call.Pos()), sprintf("%s never tests the error of encoding what the dispatcher returned", fname(fn)))
				return
			}
			stops := map[*ssa.BasicBlock]bool{}
			for _, b := range fn.Blocks {
				for _, in2 := range b.Instrs {
					if ci, ok := in2.(ssa.CallInstruction); ok && ci != ssa.CallInstruction(call) && fallback(ci, 0) {
						stops[b] = true
					}
				}
			}
			// (a type switch over the value may single out the answer types: what is none of them — a notification the
			// server sends — needs no answer, so the "is not of this type" edges are not followed)
			okFail := stops[failEdge]
			if !okFail {
				okFail = true
				seenB := map[*ssa.BasicBlock]bool{}
				stack := []*ssa.BasicBlock{failEdge}
				for len(stack) > 0 && okFail {
					b := stack[len(stack)-1]
					stack = stack[:len(stack)-1]
					if seenB[b] || stops[b] {
						continue
					}
					seenB[b] = true
					if len(b.Succs) == 0 {
						okFail = false
						break
					}
					skip := -1
					if ifi, ok := b.Instrs[len(b.Instrs)-1].(*ssa.If); ok {
						if ex, ok := ifi.Cond.(*ssa.Extract); ok && ex.Index == 1 {
							if ta, ok := ex.Tuple.(*ssa.TypeAssert); ok {
								tv := ta.X
								if ci, ok := tv.(*ssa.ChangeInterface); ok {
									tv = ci.X
								}
								if tv == ssa.Value(p) {
									skip = 1
								}
							}
						}
					}
					for i, sb := range b.Succs {
						if i != skip {
							stack = append(stack, sb)
						}
					}
				}
			}
			c.R.Check(okFail, "R-encode-failure-answered", construct, c.Pos(call.Pos()), "an error answer is encoded instead",
				sprintf("%s encodes what the dispatcher returned and, when that fails, returns without encoding an error answer in its place: the request gets no answer at all (over stdio the client waits until its own timeout)", fname(fn)))
		})
	}
	c.R.Min("R-encode-failure-answered", 2)
}

// ---------------------------------------------------------------- R-envelope-type
// Functions that put "any" message on the wire — an interface{} parameter that they encode and write — emit exactly
// what they are given. Every library value boxed into that parameter must therefore be one of the four JSON-RPC
// envelope types (request, response, error, notification; by value or pointer). Handing such a sender an inner payload
// type (a bare Notification, a result struct) writes a message without "jsonrpc":"2.0" (and without an id).
func c03EnvelopeType(c *Ctx) {
	isEnvelope := func(t types.Type) bool {
		if p, ok := t.(*types.Pointer); ok {
			t = p.Elem()
		}
		n, ok := t.(*types.Named)
		if !ok || n.Obj().Pkg() == nil || n.Obj().Pkg().Path() != ir.RootPath {
			return false
		}
		for _, m := range msgTypes {
			if n.Obj().Name() == m {
				return true
			}
		}
		return false
	}
	isLibStruct := func(t types.Type) bool {
		if p, ok := t.(*types.Pointer); ok {
			t = p.Elem()
		}
		n, ok := t.(*types.Named)
		if !ok || !ir.InLibrary(n) {
			return false
		}
		_, isStruct := n.Underlying().(*types.Struct)
		return isStruct
	}
	// senders: server-side functions with a writer parameter and an empty-interface parameter that reaches an encoder
	type sender struct {
		fn  *ssa.Function
		idx int
	}
	var senders []sender
	for _, fn := range c.P.LibFns {
		if clientSide(c, fn) {
			continue
		}
		hasWriter := false
		for _, p := range fn.Params {
			if isResponseWriter(p.Type()) || ir.TypeStr(p.Type()) == "io.Writer" {
				hasWriter = true
			}
		}
		if !hasWriter {
			continue
		}
		for i, p := range fn.Params {
			it, ok := p.Type().Underlying().(*types.Interface)
			if !ok || it.NumMethods() != 0 || p.Referrers() == nil {
				continue
			}
			encodes := false
			seen := map[ssa.Value]bool{}
			var visit func(v ssa.Value, d int)
			visit = func(v ssa.Value, d int) {
				if v.Referrers() == nil || d > 4 || seen[v] {
					return
				}
				seen[v] = true
				for _, r := range *v.Referrers() {
					switch y := r.(type) {
					case *ssa.Call:
						switch ir.CallName(y) {
						case "encoding/json.Marshal", "(*encoding/json.Encoder).Encode":
							encodes = true
						default:
							if sc := ir.StaticCallee(y); sc != nil && c.P.IsLib(sc) && d < 2 {
								for ai, a := range y.Call.Args {
									if a == v && ai < len(sc.Params) {
										visit(sc.Params[ai], d+1)
									}
								}
							}
						}
					case *ssa.Phi:
						visit(y, d+1)
					case *ssa.TypeAssert:
						// (the asserted value is the same message)
					}
				}
			}
			visit(p, 0)
			if encodes {
				senders = append(senders, sender{fn, i})
			}
		}
	}
	if len(senders) < 2 {
		c.R.Break("R-envelope-type: only %d wire senders taking an interface{} message found", len(senders))
		return
	}
	n := 0
	var judge func(caller *ssa.Function, v ssa.Value, site ssa.CallInstruction, target *ssa.Function, d int)
	judge = func(caller *ssa.Function, v ssa.Value, site ssa.CallInstruction, target *ssa.Function, d int) {
		switch x := v.(type) {
		case *ssa.MakeInterface:
			t := x.X.Type()
			if !isLibStruct(t) {
				return
			}
			n++
			c.R.Check(isEnvelope(t), "R-envelope-type", sprintf("%s handed to %s by %s", ir.TypeStr(t), fname(target), fname(caller)), c.Pos(site.Pos()),
				"a JSON-RPC envelope type",
				sprintf("%s hands %s a value of type %s, which that function encodes and writes as it is: not one of the JSON-RPC envelope types, so the message on the wire has no \"jsonrpc\":\"2.0\" member and is not a JSON-RPC 2.0 message", fname(caller), fname(target), ir.TypeStr(t)))
		case *ssa.Phi:
			for _, e := range x.Edges {
				judge(caller, e, site, target, d)
			}
		case *ssa.Parameter:
			if d >= 2 {
				return
			}
			idx := -1
			for i, q := range caller.Params {
				if q == x {
					idx = i
				}
			}
			for _, e := range ir.Callers(c.G, caller) {
				if e.Site == nil || !c.P.IsLib(e.Caller.Func) {
					continue
				}
				cc := e.Site.Common()
				ai := idx
				if cc.IsInvoke() {
					ai--
				}
				if ai >= 0 && ai < len(cc.Args) {
					judge(e.Caller.Func, cc.Args[ai], e.Site, target, d+1)
				}
			}
		}
	}
	for _, s := range senders {
		for _, e := range ir.Callers(c.G, s.fn) {
			if e.Site == nil || !c.P.IsLib(e.Caller.Func) {
				continue
			}
			cc := e.Site.Common()
			ai := s.idx
			if cc.IsInvoke() {
				ai--
			}
			if ai < 0 || ai >= len(cc.Args) {
				continue
			}
			judge(e.Caller.Func, cc.Args[ai], e.Site, s.fn, 0)
		}
	}
	c.R.Min("R-envelope-type", 6)
	if n == 0 {
		c.R.Break("R-envelope-type: no library value boxed into a wire sender's message parameter found")
	}
}

// ---------------------------------------------------------------- R-result-present
// A response carries exactly one of "result" and "error". The envelope's result member is `omitempty`, so a method
// handler that reports success with a nil result (`return nil, nil`) produces {"jsonrpc":"2.0","id":…} — neither. The
// functions the dispatch tables route requests to (and the functions they return the result of) therefore never return
// a nil result together with a nil error; an empty result is an empty object.
func c03ResultPresent(c *Ctx) {
	targets := map[*ssa.Function]bool{}
	for _, es := range c.MapLiteralDispatch() {
		for _, e := range es {
			if e.Target != nil && c.P.IsLib(e.Target) {
				targets[e.Target] = true
			}
		}
	}
	if len(targets) < 5 {
		c.R.Break("R-result-present: only %d dispatch targets found", len(targets))
		return
	}
	sigOK := func(f *ssa.Function) bool {
		r := f.Signature.Results()
		if r.Len() != 2 || ir.TypeStr(r.At(1).Type()) != "error" {
			return false
		}
		_, isIface := r.At(0).Type().Underlying().(*types.Interface)
		return isIface
	}
	// functions whose result a target returns as its own (return m.handleX(ctx, req))
	for changed := true; changed; {
		changed = false
		for f := range targets {
			ir.EachInstr(f, func(_ *ssa.BasicBlock, _ int, in ssa.Instruction) {
				ret, ok := in.(*ssa.Return)
				if !ok || len(ret.Results) != 2 {
					return
				}
				if ex, ok := ret.Results[0].(*ssa.Extract); ok {
					if call, ok := ex.Tuple.(*ssa.Call); ok {
						if sc := ir.StaticCallee(call); sc != nil && c.P.IsLib(sc) && sigOK(sc) && !targets[sc] {
							targets[sc] = true
							changed = true
						}
					}
				}
			})
		}
	}
	n := 0
	for _, f := range sortedFuncs(targets) {
		if !sigOK(f) {
			continue
		}
		n++
		bad := ""
		ir.EachInstr(f, func(blk *ssa.BasicBlock, _ int, in ssa.Instruction) {
			ret, ok := in.(*ssa.Return)
			if !ok || blk == f.Recover || len(ret.Results) != 2 {
				return
			}
			rs := ir.Results(ret)
			if ir.IsNilConst(rs[0]) && ir.IsNilConst(rs[1]) {
				bad = c.Pos(ret.Pos())
			}
		})
		c.R.Check(bad == "", "R-result-present", "success result of "+fname(f), c.Pos(f.Pos()), "never (nil, nil)",
			sprintf("%s, which the dispatcher routes requests to, can return a nil result with a nil error (at %s): the response envelope omits a nil result, so the request is answered with neither \"result\" nor \"error\" — not a JSON-RPC response", fname(f), bad))
	}
	c.R.Min("R-result-present", 8)
}
