package rules

import (
	"go/token"
	"go/types"
	"os"
	"sort"
	"strings"

	"golang.org/x/tools/go/ssa"

	"verif/checker/flow"
	"verif/checker/ir"
)

// ---- entry points -----------------------------------------------------------------------------

// serverEntries: the HTTP entry points and the stdio line loop (exported Start* of the stdio server).
func serverEntries(c *Ctx) []*ssa.Function {
	var out []*ssa.Function
	for _, fn := range c.P.LibFns {
		if fn.Name() == "ServeHTTP" && fn.Signature.Recv() != nil {
			out = append(out, fn)
		}
	}
	if T := c.P.RootNamed("StdioServer"); T != nil {
		out = append(out, c.methodsWithPrefix(T, "Start")...)
	}
	return out
}

// clientSide reports whether fn belongs to the client half of the library. Decided from types and the call graph, not
// from file names: fn (or an enclosing function) has a receiver, parameter, result or captured variable of a
// client-only type (reachable from the Connector implementers through fields, not from the server types), or fn is
// reachable from such functions and from no function of the server half.
func clientSide(c *Ctx, fn *ssa.Function) bool {
	if c.cliFns == nil {
		c.cliFns = map[*ssa.Function]bool{}
		var croots, sroots []*ssa.Function
		srvT := c.serverOnlyTypes()
		for _, f := range c.P.LibFns {
			if clientSideByType(c, f) {
				croots = append(croots, f)
				c.cliFns[f] = true
			} else if sideByType(f, srvT) {
				sroots = append(sroots, f)
			}
		}
		sroots = append(sroots, serverEntries(c)...)
		sreach := c.Reach(sroots...)
		c.srvFns = sreach
		for f := range c.Reach(croots...) {
			if !sreach[f] {
				c.cliFns[f] = true
			}
		}
	}
	return c.cliFns[fn]
}

// ---- lock pairing -----------------------------------------------------------------------------

type lockLeak struct {
	fn  *ssa.Function
	key string
	at  ssa.Instruction // the acquiring call
	ret ssa.Instruction
}

// lockLeaks finds returns that are reachable with a mutex still held that was acquired in the same
// function and has no deferred unlock.
func lockLeaks(c *Ctx, fns []*ssa.Function) []lockLeak {
	ls := c.Locks()
	var out []lockLeak
	for _, fn := range fns {
		deferred := map[string]bool{}
		ir.EachInstr(fn, func(_ *ssa.BasicBlock, _ int, in ssa.Instruction) {
			d, ok := in.(*ssa.Defer)
			if !ok {
				return
			}
			n := ir.CallName(d)
			if strings.HasSuffix(n, ").Unlock") || strings.HasSuffix(n, ").RUnlock") {
				if len(d.Call.Args) > 0 {
					deferred[ls.KeyOf(d.Call.Args[0])] = true
				}
			}
			// defer func() { ...Unlock() }()
			if mc, ok := d.Call.Value.(*ssa.MakeClosure); ok {
				if cf, ok := mc.Fn.(*ssa.Function); ok {
					ir.EachCall(cf, func(call ssa.CallInstruction) {
						n := ir.CallName(call)
						if strings.HasSuffix(n, ").Unlock") || strings.HasSuffix(n, ").RUnlock") {
							deferred["*"] = true
						}
					})
				}
			}
		})
		seen := map[string]bool{}
		ir.EachInstr(fn, func(_ *ssa.BasicBlock, _ int, in ssa.Instruction) {
			r, ok := in.(*ssa.Return)
			if !ok {
				return
			}
			for k, h := range ls.At(r) {
				if h.Site == nil || h.Site.Parent() != fn || deferred[k] || deferred["*"] {
					continue
				}
				if !seen[k] {
					seen[k] = true
					out = append(out, lockLeak{fn, k, h.Site, r})
				}
			}
		})
	}
	return out
}

// must-hold at returns misses "held on some path only"; mayLeak searches explicitly: from each
// acquire, a path to a return that passes no release of the same key.
func mayLeaks(c *Ctx, fns []*ssa.Function) []lockLeak {
	ls := c.Locks()
	var out []lockLeak
	for _, fn := range fns {
		deferredAny := false
		deferredKeys := map[string]bool{}
		ir.EachInstr(fn, func(_ *ssa.BasicBlock, _ int, in ssa.Instruction) {
			if d, ok := in.(*ssa.Defer); ok {
				n := ir.CallName(d)
				if (strings.HasSuffix(n, ").Unlock") || strings.HasSuffix(n, ").RUnlock")) && len(d.Call.Args) > 0 {
					deferredKeys[ls.KeyOf(d.Call.Args[0])] = true
				}
				if mc, ok := d.Call.Value.(*ssa.MakeClosure); ok {
					if cf, ok := mc.Fn.(*ssa.Function); ok {
						ir.EachCall(cf, func(call ssa.CallInstruction) {
							n := ir.CallName(call)
							if strings.HasSuffix(n, ").Unlock") || strings.HasSuffix(n, ").RUnlock") {
								deferredAny = true
							}
						})
					}
				}
			}
		})
		if deferredAny {
			continue
		}
		ir.EachInstr(fn, func(_ *ssa.BasicBlock, _ int, in ssa.Instruction) {
			op, ok := ls.Classify(in)
			if !ok || !op.Acquire || deferredKeys[op.Key] {
				return
			}
			esc := flow.ExitsAvoiding(fn, in, func(x ssa.Instruction) bool {
				o2, ok := ls.Classify(x)
				return ok && !o2.Acquire && o2.Key == op.Key
			}, true)
			if esc != nil {
				out = append(out, lockLeak{fn, op.Key, in, esc.Exit})
			}
		})
	}
	return out
}

// ---- lock order -------------------------------------------------------------------------------

type lockEdge struct {
	from, to string
	at       ssa.Instruction
}

// lockOrderEdges: "to acquired while from is held" over the given functions.
func lockOrderEdges(c *Ctx, fns []*ssa.Function) []lockEdge {
	ls := c.Locks()
	var out []lockEdge
	for _, fn := range fns {
		ir.EachInstr(fn, func(_ *ssa.BasicBlock, _ int, in ssa.Instruction) {
			op, ok := ls.Classify(in)
			if !ok || !op.Acquire {
				return
			}
			for h, held := range ls.At(in) {
				if h == op.Key && !held.Write && !op.Write {
					continue // recursive read lock of an RWMutex
				}
				out = append(out, lockEdge{h, op.Key, in})
			}
		})
	}
	return out
}

// lockCycles returns the cycles of the lock-order graph (as sorted edge strings).
func lockCycles(edges []lockEdge) []string {
	adj := map[string]map[string]bool{}
	for _, e := range edges {
		if adj[e.from] == nil {
			adj[e.from] = map[string]bool{}
		}
		adj[e.from][e.to] = true
	}
	var cycles []string
	var nodes []string
	for n := range adj {
		nodes = append(nodes, n)
	}
	sort.Strings(nodes)
	for _, s := range nodes {
		// BFS back to s
		seen := map[string]bool{}
		stack := []string{}
		for t := range adj[s] {
			stack = append(stack, t)
		}
		for len(stack) > 0 {
			x := stack[len(stack)-1]
			stack = stack[:len(stack)-1]
			if x == s {
				cycles = append(cycles, s)
				break
			}
			if seen[x] {
				continue
			}
			seen[x] = true
			for t := range adj[x] {
				stack = append(stack, t)
			}
		}
	}
	return cycles
}

// ---- user callbacks ---------------------------------------------------------------------------

// userCallbackCall: the call invokes user-supplied code (a func value of an exported func type or of a
// handler type, or a method of an exported interface implemented by users).
func userCallbackCall(c *Ctx, call ssa.CallInstruction) string {
	cc := call.Common()
	if cc.IsInvoke() {
		n := ir.CallName(call)
		for _, p := range []string{"(mcp.RootsProvider).", "(mcp.HTTPReqHandler).", "(mcp.SessionIDGenerator)."} {
			if strings.HasPrefix(n, p) {
				return n
			}
		}
		return ""
	}
	if ir.StaticCallee(call) != nil {
		return ""
	}
	if _, isBuiltin := cc.Value.(*ssa.Builtin); isBuiltin {
		return ""
	}
	t := cc.Value.Type()
	if n, ok := t.(*types.Named); ok && n.Obj().Pkg() != nil && n.Obj().Pkg().Path() == ir.RootPath {
		switch n.Obj().Name() {
		case "toolHandler", "promptHandler", "resourceHandler", "resourcesHandler", "resourceTemplateHandler",
			"ToolListFilter", "PromptListFilter", "ResourceListFilter", "Middleware", "HandlerFunc", "HTTPContextFunc",
			"ServerNotificationHandler", "NotificationHandler", "HTTPBeforeRequestFunc", "MethodNameModifier", "StdioContextFunc":
			return n.Obj().Name()
		}
	}
	return ""
}

// ---- assertions on peer data ------------------------------------------------------------------

// peerDerived: v derives from a decoded peer message (a Params member chain, a lookup in / assertion on a
// value that was the target of json.Unmarshal / Decode in this function).
// peerParam, when set, says whether a parameter carries decoded peer data because a library caller passes such data
// (the decoders that take apart a map[string]any handed down by the function that unmarshalled it).
var peerParam func(p *ssa.Parameter, depth int) bool

func peerDerived(v ssa.Value, depth int) bool {
	if depth > 14 || v == nil {
		return false
	}
	if derivesFromParams(v, 0) {
		return true
	}
	switch x := v.(type) {
	case *ssa.Parameter:
		if peerParam != nil {
			switch ir.TypeStr(x.Type()) {
			case "map[string]interface{}", "map[string]any", "[]interface{}", "[]any", "interface{}", "any":
				return peerParam(x, depth)
			}
		}
	case *ssa.Next:
		if rg, ok := x.Iter.(*ssa.Range); ok {
			return peerDerived(rg.X, depth+1) // an element (or key) of a decoded slice or map
		}
	case *ssa.TypeAssert:
		return peerDerived(x.X, depth+1)
	case *ssa.Extract:
		return peerDerived(x.Tuple, depth+1)
	case *ssa.Lookup:
		return peerDerived(x.X, depth+1)
	case *ssa.Phi:
		for _, e := range x.Edges {
			if peerDerived(e, depth+1) {
				return true
			}
		}
	case *ssa.UnOp:
		if ia, ok := x.X.(*ssa.IndexAddr); ok && x.Op == token.MUL && peerDerived(ia.X, depth+1) {
			return true // element of a decoded slice
		}
		if x.Op == token.MUL {
			// load of a local that was an Unmarshal target, or of a field of one
			root := rootOf(x.X)
			if al, ok := root.(*ssa.Alloc); ok {
				for _, r := range *al.Referrers() {
					if mi, ok := r.(*ssa.MakeInterface); ok {
						for _, rr := range *mi.Referrers() {
							if call, ok := rr.(ssa.CallInstruction); ok {
								n := ir.CallName(call)
								if n == "encoding/json.Unmarshal" || n == "(*encoding/json.Decoder).Decode" {
									return true
								}
							}
						}
					}
				}
			}
		}
	}
	return false
}

// assertKey names an assertion by access path and asserted type, so that a validator's comma-ok test can
// be matched with a later single-value assertion of the same thing.
func assertKey(ta *ssa.TypeAssert) string {
	return assertPath(ta.X, 0) + " as " + ir.TypeStr(ta.AssertedType)
}

func assertPath(v ssa.Value, d int) string {
	if d > 8 {
		return "?"
	}
	switch x := v.(type) {
	case *ssa.UnOp:
		if f, _, ok := ir.LoadedField(x); ok {
			return "." + f.Name
		}
	case *ssa.Lookup:
		k, _ := ir.ConstStr(ir.Unwrap(x.Index))
		return assertPath(x.X, d+1) + "[" + k + "]"
	case *ssa.TypeAssert:
		return assertPath(x.X, d+1)
	case *ssa.Extract:
		return assertPath(x.Tuple, d+1)
	case *ssa.Parameter:
		return x.Name()
	}
	return "?"
}

// validatorCovers: the set of assertKeys for which fn returns a non-nil value on the failure edge.
func validatorCovers(fn *ssa.Function) map[string]bool {
	out := map[string]bool{}
	ir.EachInstr(fn, func(_ *ssa.BasicBlock, _ int, in ssa.Instruction) {
		ta, ok := in.(*ssa.TypeAssert)
		if !ok || !ta.CommaOk {
			return
		}
		// find If on the ok
		for _, r := range *ta.Referrers() {
			ex, ok := r.(*ssa.Extract)
			if !ok || ex.Index != 1 {
				continue
			}
			for _, rr := range *ex.Referrers() {
				ifi, ok := rr.(*ssa.If)
				if !ok {
					continue
				}
				// failure edge = false successor: every path from it must return non-nil
				fail := ifi.Block().Succs[1]
				bad := false
				reach := flow.BlocksReachableAvoiding(fail, nil)
				for b := range reach {
					if !fail.Dominates(b) && b != fail {
						continue
					}
					for _, x := range b.Instrs {
						if ret, ok := x.(*ssa.Return); ok && len(ir.Results(ret)) > 0 && ir.IsNilConst(ir.Results(ret)[0]) {
							bad = true
						}
					}
				}
				// the failure edge must lead straight to a return (no fall-through to later code)
				if !bad {
					esc := false
					for b := range reach {
						if fail.Dominates(b) || b == fail {
							continue
						}
						esc = true
					}
					if !esc {
						out[assertKey(ta)] = true
					}
				}
			}
		}
	})
	return out
}

// unguardedAssertions returns the single-value assertions on peer-derived values in fns that are not
// covered by a dominating comma-ok test of the same thing (directly or through a validator call).
func unguardedAssertions(c *Ctx, fns []*ssa.Function) (all int, bad []*ssa.TypeAssert) {
	covers := map[*ssa.Function]map[string]bool{}
	for _, fn := range fns {
		ir.EachInstr(fn, func(_ *ssa.BasicBlock, _ int, in ssa.Instruction) {
			ta, ok := in.(*ssa.TypeAssert)
			if !ok || ta.CommaOk || !peerDerived(ta.X, 0) {
				return
			}
			all++
			key := assertKey(ta)
			guarded := false
			// (a) a dominating comma-ok assertion of the same key on its success edge
			for _, g := range flow.Guards(fn, ta.Block()) {
				if ex, ok := g.If.Cond.(*ssa.Extract); ok && ex.Index == 1 && g.Branch {
					if t2, ok := ex.Tuple.(*ssa.TypeAssert); ok && assertKey(t2) == key {
						guarded = true
					}
				}
			}
			// (b) a dominating validator call whose non-nil result makes the function return
			validatedAt := func(f *ssa.Function, at ssa.Instruction) bool {
				okV := false
				ir.EachInstr(f, func(_ *ssa.BasicBlock, _ int, x ssa.Instruction) {
					call, ok := x.(*ssa.Call)
					if !ok || !flow.Dominates(call, at) {
						return
					}
					v := ir.StaticCallee(call)
					if v == nil || !c.P.IsLib(v) {
						return
					}
					if covers[v] == nil {
						covers[v] = validatorCovers(v)
					}
					if !covers[v][key] {
						return
					}
					// the assertion must be on the nil edge of the validator's result
					for _, g := range flow.Guards(f, at.Block()) {
						if val, op, ok := nilCompare(g.If.Cond); ok && val == ssa.Value(call) {
							if (op == token.NEQ && !g.Branch) || (op == token.EQL && g.Branch) {
								okV = true
							}
						}
					}
				})
				return okV
			}
			if validatedAt(fn, ta) {
				guarded = true
			}
			// (c) an extraction helper (requestedVersion(req)): every library call site is validated in that way
			if !guarded {
				callers, all := 0, true
				for _, e := range ir.Callers(c.G, fn) {
					if e.Site == nil || !c.P.IsLib(e.Caller.Func) {
						continue
					}
					callers++
					if !validatedAt(e.Caller.Func, e.Site) {
						all = false
					}
				}
				if callers > 0 && all {
					guarded = true
				}
			}
			if !guarded {
				bad = append(bad, ta)
			}
		})
	}
	return
}

// ---- channel closes ---------------------------------------------------------------------------

type closeSite struct {
	fn      *ssa.Function
	call    ssa.CallInstruction
	field   string // "" when the channel is not loaded from a struct field / table
	guarded string // how a second close is prevented ("" = not)
}

func closeSites(c *Ctx, fns []*ssa.Function) []closeSite {
	var out []closeSite
	for _, fn := range fns {
		ir.EachCall(fn, func(call ssa.CallInstruction) {
			if ir.CallName(call) != "builtin.close" {
				return
			}
			ch := call.Common().Args[0]
			cs := closeSite{fn: fn, call: call}
			if f, _, ok := ir.LoadedField(ch); ok {
				cs.field = f.Key()
			}
			// element of a table field (range over map of channels)
			if ex, ok := ch.(*ssa.Extract); ok {
				if nx, ok := ex.Tuple.(*ssa.Next); ok {
					if rg, ok := nx.Iter.(*ssa.Range); ok {
						if f, _, ok := ir.LoadedField(rg.X); ok {
							cs.field = f.Key() + "[*]"
						}
					}
				}
			}
			if cs.field == "" {
				// local channel (made here or captured): owned by this function
				out = append(out, cs)
				return
			}
			outer := ir.Outer(fn)
			for _, f := range ir.WithClosures(outer) {
				ir.EachInstr(f, func(_ *ssa.BasicBlock, _ int, in ssa.Instruction) {
					switch x := in.(type) {
					case *ssa.Call:
						n := ir.CallName(x)
						if strings.HasSuffix(n, ").CompareAndSwap") || n == "(*sync.Once).Do" {
							cs.guarded = n
						}
					case *ssa.Defer:
						if mc, ok := x.Call.Value.(*ssa.MakeClosure); ok {
							if cf, ok := mc.Fn.(*ssa.Function); ok {
								ir.EachCall(cf, func(rc ssa.CallInstruction) {
									if ir.CallName(rc) == "builtin.recover" {
										cs.guarded = "recover"
									}
								})
							}
						}
					}
				})
			}
			// called only from a function that is itself once-guarded?
			if cs.guarded == "" {
				callers := ir.Callers(c.G, outer)
				allGuarded := len(callers) > 0
				for _, e := range callers {
					g := false
					if e.Site != nil {
						for _, f := range ir.WithClosures(ir.Outer(e.Caller.Func)) {
							ir.EachCall(f, func(rc ssa.CallInstruction) {
								if n := ir.CallName(rc); n == "(*sync.Once).Do" || strings.HasSuffix(n, ").CompareAndSwap") {
									g = true
								}
							})
						}
					}
					if !g {
						allGuarded = false
					}
				}
				if allGuarded {
					cs.guarded = "every caller is once-guarded (sync.Once / CompareAndSwap)"
				}
			}
			// closed by the one goroutine / call that is started together with the freshly created object holding the
			// channel: the object is allocated in the (single) caller, handed over once, outside any loop
			if cs.guarded == "" {
				if _, base, ok := ir.LoadedField(ch); ok {
					if p, isParam := base.(*ssa.Parameter); isParam {
						idx := -1
						for i, q := range fn.Params {
							if q == p {
								idx = i
							}
						}
						callers := ir.Callers(c.G, fn)
						okAll := len(callers) == 1 && idx >= 0
						for _, e := range callers {
							if e.Site == nil || idx >= len(e.Site.Common().Args) || !ir.BaseAlloc(e.Site.Common().Args[idx]) || flow.InCycle(e.Site.Block()) {
								okAll = false
							}
						}
						if okAll {
							cs.guarded = "closed by the single goroutine started with the freshly created object"
						}
					}
				}
			}
			out = append(out, cs)
		})
	}
	return out
}

// serverSide reports whether fn is reachable from the server half (methods and functions over server-only types,
// ServeHTTP implementations, the stdio server's Start*).
func serverSide(c *Ctx, fn *ssa.Function) bool {
	clientSide(c, fn) // computes both sets
	return c.srvFns[fn]
}

// typeClosure returns the library named types reachable from roots through fields, element types and (for
// interface-typed fields) the library implementers of the interface.
func typeClosure(c *Ctx, roots []*types.Named) map[*types.Named]bool {
	seen := map[*types.Named]bool{}
	var visit func(t types.Type, d int)
	visit = func(t types.Type, d int) {
		if t == nil || d > 12 {
			return
		}
		switch x := t.(type) {
		case *types.Pointer:
			visit(x.Elem(), d+1)
		case *types.Slice:
			visit(x.Elem(), d+1)
		case *types.Array:
			visit(x.Elem(), d+1)
		case *types.Map:
			visit(x.Key(), d+1)
			visit(x.Elem(), d+1)
		case *types.Chan:
			visit(x.Elem(), d+1)
		case *types.Named:
			if x.Obj().Pkg() == nil || !strings.HasPrefix(x.Obj().Pkg().Path(), ir.RootPath) {
				return
			}
			if seen[x] {
				return
			}
			switch u := x.Underlying().(type) {
			case *types.Struct:
				seen[x] = true
				for i := 0; i < u.NumFields(); i++ {
					visit(u.Field(i).Type(), d+1)
				}
			case *types.Interface:
				if u.NumMethods() == 0 {
					return
				}
				seen[x] = true
				for _, impl := range c.P.Implementers(u) {
					visit(impl, d+1)
				}
			}
		}
	}
	for _, r := range roots {
		visit(r, 0)
	}
	return seen
}

// clientTypes: named types that belong to the client half only — reachable from the Connector implementers and not
// from the server types.
func (c *Ctx) clientTypes() map[*types.Named]bool {
	if c.cliTypes != nil {
		return c.cliTypes
	}
	var roots []*types.Named
	if conn := c.P.RootNamed("Connector"); conn != nil {
		roots = append(roots, c.P.Implementers(conn.Underlying().(*types.Interface))...)
	}
	cli := typeClosure(c, roots)
	srv := typeClosure(c, c.serverTypes())
	out := map[*types.Named]bool{}
	for t := range cli {
		if !srv[t] {
			out[t] = true
		}
	}
	c.cliTypes = out
	return out
}

func clientSideByType(c *Ctx, fn *ssa.Function) bool { return sideByType(fn, c.clientTypes()) }

// serverOnlyTypes mirrors clientTypes for the server half.
func (c *Ctx) serverOnlyTypes() map[*types.Named]bool {
	var roots []*types.Named
	if conn := c.P.RootNamed("Connector"); conn != nil {
		roots = append(roots, c.P.Implementers(conn.Underlying().(*types.Interface))...)
	}
	cli := typeClosure(c, roots)
	out := map[*types.Named]bool{}
	for t := range typeClosure(c, c.serverTypes()) {
		if !cli[t] {
			out[t] = true
		}
	}
	return out
}

func sideByType(fn *ssa.Function, ct map[*types.Named]bool) bool {
	named := func(t types.Type) *types.Named {
		for {
			switch x := t.(type) {
			case *types.Pointer:
				t = x.Elem()
				continue
			case *types.Named:
				return x
			}
			return nil
		}
	}
	for f := fn; f != nil; f = f.Parent() {
		sig := f.Signature
		if sig.Recv() != nil {
			if n := named(sig.Recv().Type()); n != nil && ct[n] {
				return true
			}
		}
		for _, fv := range f.FreeVars {
			if n := named(fv.Type()); n != nil && ct[n] {
				return true
			}
			if p, ok := fv.Type().(*types.Pointer); ok {
				if n := named(p.Elem()); n != nil && ct[n] {
					return true
				}
			}
		}
		for i := 0; i < sig.Params().Len(); i++ {
			if n := named(sig.Params().At(i).Type()); n != nil && ct[n] {
				return true
			}
		}
		for i := 0; i < sig.Results().Len(); i++ {
			t := sig.Results().At(i).Type()
			if n := named(t); n != nil && ct[n] {
				return true
			}
			if s, ok := t.Underlying().(*types.Signature); ok && s.Params().Len() > 0 {
				if n := named(s.Params().At(0).Type()); n != nil && ct[n] {
					return true
				}
			}
		}
	}
	return false
}

// loopVarCaptures finds goroutines started inside a loop whose closure captures that loop's iteration variable
// by reference. With the module's language version below go1.22 one variable is shared by all iterations: every
// goroutine reads whatever the loop has assigned by the time it runs (and races with the assignment). go/ssa applies
// the per-version semantics, so under go >= 1.22 the variable is allocated per iteration and nothing is reported.
type loopCapture struct {
	fn   *ssa.Function
	goAt ssa.Instruction // the go statement, or the closure that outlives its iteration
	v    *ssa.Alloc
	kept bool // a closure handed on / stored (not a goroutine)
}

func loopVarCaptures(c *Ctx, fns []*ssa.Function) (captures []loopCapture, goInLoops int) {
	for _, fn := range fns {
		ir.EachInstr(fn, func(_ *ssa.BasicBlock, _ int, in ssa.Instruction) {
			var mc *ssa.MakeClosure
			kept := false
			var g ssa.Instruction
			switch x := in.(type) {
			case *ssa.Go:
				if !flow.InCycle(x.Block()) {
					return
				}
				goInLoops++
				m, ok := x.Call.Value.(*ssa.MakeClosure)
				if !ok {
					return
				}
				mc, g = m, x
			case *ssa.MakeClosure:
				// a closure made in a loop that outlives its iteration: handed to a call, stored, boxed or returned
				if !flow.InCycle(x.Block()) || x.Referrers() == nil {
					return
				}
				for _, r := range *x.Referrers() {
					switch u := r.(type) {
					case *ssa.Go:
						return // counted above
					case ssa.CallInstruction:
						for _, a := range u.Common().Args {
							if a == ssa.Value(x) {
								kept = true
							}
						}
					case *ssa.Store, *ssa.Return, *ssa.MakeInterface, *ssa.MapUpdate, *ssa.ChangeType:
						kept = true
					}
				}
				if !kept {
					return
				}
				mc, g = x, x
			default:
				return
			}
			for _, b := range mc.Bindings {
				al, ok := b.(*ssa.Alloc)
				if !ok || flow.InCycle(al.Block()) && sameLoop(al.Block(), g.Block()) {
					continue
				}
				// assigned per iteration from the sequence being iterated?
				iter := false
				for _, r := range *al.Referrers() {
					st, ok := r.(*ssa.Store)
					if !ok || st.Addr != ssa.Value(al) || !flow.InCycle(st.Block()) {
						continue
					}
					if iterationValue(st.Val, 0) {
						iter = true
					}
				}
				if iter {
					captures = append(captures, loopCapture{fn, g, al, kept})
				}
			}
		})
	}
	return
}

// sameLoop: a and b lie on a common cycle.
func sameLoop(a, b *ssa.BasicBlock) bool {
	if a == b {
		return true
	}
	reach := func(from, to *ssa.BasicBlock) bool {
		seen := map[*ssa.BasicBlock]bool{}
		stack := []*ssa.BasicBlock{from}
		for len(stack) > 0 {
			x := stack[len(stack)-1]
			stack = stack[:len(stack)-1]
			for _, s := range x.Succs {
				if s == to {
					return true
				}
				if !seen[s] {
					seen[s] = true
					stack = append(stack, s)
				}
			}
		}
		return false
	}
	return reach(a, b) && reach(b, a)
}

// iterationValue: v is the element/key/index the enclosing loop produces for this iteration (an element loaded through
// the loop's index, a value extracted from a range iterator, or the induction variable itself).
func iterationValue(v ssa.Value, d int) bool {
	if d > 4 {
		return false
	}
	switch x := v.(type) {
	case *ssa.Extract:
		_, isNext := x.Tuple.(*ssa.Next)
		return isNext
	case *ssa.UnOp:
		if ia, ok := x.X.(*ssa.IndexAddr); ok {
			_, isPhi := ia.Index.(*ssa.Phi)
			return isPhi || iterationValue(ia.Index, d+1)
		}
	case *ssa.Index:
		_, isPhi := x.Index.(*ssa.Phi)
		return isPhi
	case *ssa.Lookup:
		return iterationValue(x.Index, d+1)
	case *ssa.Phi:
		return flow.InCycle(x.Block())
	case *ssa.BinOp:
		return iterationValue(x.X, d+1)
	case *ssa.ChangeType:
		return iterationValue(x.X, d+1)
	case *ssa.Convert:
		return iterationValue(x.X, d+1)
	}
	return false
}

// ---- nested acquisition through callees -------------------------------------------------------

// mayAcquire is one lock a function may take, itself or through the functions it calls synchronously. param is the
// index of the function's parameter (receiver = 0) whose object holds the mutex, or -1 when it is some other object.
type mayAcquire struct {
	key   string
	write bool
	param int
	at    ssa.Instruction // the acquiring call (in the function itself or, for inherited entries, the call that leads to it)
}

func rootParam(fn *ssa.Function, v ssa.Value) int {
	for d := 0; d < 8 && v != nil; d++ {
		switch x := v.(type) {
		case *ssa.FieldAddr:
			v = x.X
		case *ssa.UnOp:
			v = x.X
		case *ssa.Parameter:
			for i, p := range fn.Params {
				if p == x {
					return i
				}
			}
			return -1
		case *ssa.Alloc:
			// a parameter spilled to a cell because a closure captures it
			var stored ssa.Value
			n := 0
			for _, r := range *x.Referrers() {
				if st, ok := r.(*ssa.Store); ok && st.Addr == ssa.Value(x) {
					stored = st.Val
					n++
				}
			}
			if n != 1 {
				return -1
			}
			v = stored
		default:
			return -1
		}
	}
	return -1
}

// acquireSummaries computes, for every library function, the locks it may acquire (fixpoint over static callees;
// `go` statements start a new goroutine and are not followed).
func acquireSummaries(c *Ctx) map[*ssa.Function][]mayAcquire {
	ls := c.Locks()
	sum := map[*ssa.Function][]mayAcquire{}
	has := func(list []mayAcquire, m mayAcquire) bool {
		for _, x := range list {
			if x.key == m.key && x.write == m.write && x.param == m.param {
				return true
			}
		}
		return false
	}
	for _, fn := range c.P.LibFns {
		ir.EachInstr(fn, func(_ *ssa.BasicBlock, _ int, in ssa.Instruction) {
			op, ok := ls.Classify(in)
			if !ok || !op.Acquire {
				return
			}
			m := mayAcquire{op.Key, op.Write, rootParam(fn, in.(*ssa.Call).Call.Args[0]), in}
			if !has(sum[fn], m) {
				sum[fn] = append(sum[fn], m)
			}
		})
	}
	for iter := 0; iter < 8; iter++ {
		changed := false
		for _, fn := range c.P.LibFns {
			ir.EachInstr(fn, func(_ *ssa.BasicBlock, _ int, in ssa.Instruction) {
				call, ok := in.(*ssa.Call)
				if !ok {
					return
				}
				sc := ir.StaticCallee(call)
				if sc == nil || !c.P.IsLib(sc) || sc == fn {
					return
				}
				for _, m := range sum[sc] {
					p := -1
					if m.param >= 0 && m.param < len(call.Call.Args) {
						p = rootParam(fn, call.Call.Args[m.param])
					}
					nm := mayAcquire{m.key, m.write, p, in}
					if !has(sum[fn], nm) {
						sum[fn] = append(sum[fn], nm)
						changed = true
					}
				}
			})
		}
		if !changed {
			break
		}
	}
	return sum
}

type reentry struct {
	fn     *ssa.Function
	call   *ssa.Call
	callee *ssa.Function
	key    string
}

// nestedThroughCallees returns (a) the lock-order edges that arise because a callee takes a lock while the caller
// holds one, and (b) the self-deadlocks: a callee that takes the very mutex the caller holds — same key, same object
// (the callee locks a field of the parameter that receives the object whose field the caller locked) — unless both
// acquisitions are shared (RLock).
func nestedThroughCallees(c *Ctx, fns []*ssa.Function) ([]lockEdge, []reentry) {
	ls := c.Locks()
	sum := acquireSummaries(c)
	var edges []lockEdge
	var re []reentry
	// Two shared acquisitions of one RWMutex by one goroutine are no exception once anything takes the mutex
	// exclusively: a writer that arrives between them waits for the first and blocks the second (sync.RWMutex
	// prohibits recursive read locking for that reason).
	writeLocked := map[string]bool{}
	for _, list := range sum {
		for _, m := range list {
			if m.write {
				writeLocked[m.key] = true
			}
		}
	}
	for _, fn := range fns {
		ir.EachInstr(fn, func(_ *ssa.BasicBlock, _ int, in ssa.Instruction) {
			call, ok := in.(*ssa.Call)
			if !ok {
				return
			}
			sc := ir.StaticCallee(call)
			if sc == nil || !c.P.IsLib(sc) {
				return
			}
			held := ls.At(in)
			if os.Getenv("LOCK_DEBUG") != "" && strings.Contains(sc.Name(), "cleanupSession") {
				println("DBG call", fname(fn), fname(sc), len(held), len(sum[sc]))
				for h, hs := range held {
					println("   held", h, hs.Write, hs.Site != nil)
				}
				for _, m := range sum[sc] {
					println("   may", m.key, m.write, m.param)
				}
			}
			if len(held) == 0 {
				return
			}
			for _, m := range sum[sc] {
				for h, hs := range held {
					if strings.HasPrefix(h, "path:") {
						continue
					}
					if h != m.key {
						edges = append(edges, lockEdge{h, m.key, in})
						continue
					}
					if !hs.Write && !m.write && !writeLocked[h] {
						continue
					}
					// same key: the same object?
					if hs.Site == nil || m.param < 0 || m.param >= len(call.Call.Args) {
						continue
					}
					hc, ok := hs.Site.(*ssa.Call)
					if !ok || len(hc.Call.Args) == 0 {
						continue
					}
					hp := rootParam(fn, hc.Call.Args[0])
					ap := rootParam(fn, call.Call.Args[m.param])
					if hp >= 0 && hp == ap {
						re = append(re, reentry{fn, call, sc, h})
					}
				}
			}
		})
	}
	return edges, re
}

// ---- pooled buffers -------------------------------------------------------------------------------

// poolAliases: functions that take an object from a sync.Pool, put it back, and still hand a view of it (the object
// itself, buf.Bytes(), a slice of that) to their caller, a channel or a longer-lived structure. The next user of the
// pool overwrites the bytes the first caller is still holding.
type poolAlias struct {
	fn   *ssa.Function
	at   ssa.Instruction
	what string
}

func poolAliases(c *Ctx) (out []poolAlias, pools int) {
	for _, fn := range c.P.LibFns {
		var pooled []ssa.Value
		puts := false
		ir.EachInstr(fn, func(_ *ssa.BasicBlock, _ int, in ssa.Instruction) {
			switch x := in.(type) {
			case *ssa.Call:
				switch ir.CallName(x) {
				case "(*sync.Pool).Get":
					pooled = append(pooled, x)
				case "(*sync.Pool).Put":
					puts = true
				}
			case *ssa.Defer:
				if ir.CallName(x) == "(*sync.Pool).Put" {
					puts = true
				}
			}
		})
		if len(pooled) == 0 {
			continue
		}
		pools++
		if !puts {
			continue
		}
		// views of the pooled object
		view := map[ssa.Value]bool{}
		work := append([]ssa.Value{}, pooled...)
		for _, p := range pooled {
			view[p] = true
		}
		for len(work) > 0 {
			v := work[0]
			work = work[1:]
			if v.Referrers() == nil {
				continue
			}
			for _, r := range *v.Referrers() {
				var nv ssa.Value
				switch y := r.(type) {
				case *ssa.TypeAssert:
					nv = y
				case *ssa.Extract:
					nv = y
				case *ssa.Slice:
					nv = y
				case *ssa.Phi:
					nv = y
				case *ssa.ChangeType:
					nv = y
				case *ssa.MakeInterface:
					nv = y
				case *ssa.Call:
					n := ir.CallName(y)
					if len(y.Call.Args) > 0 && y.Call.Args[0] == v && (n == "(*bytes.Buffer).Bytes" || n == "(*bytes.Buffer).Next" || n == "(*bytes.Buffer).AvailableBuffer") {
						nv = y
					}
				}
				if nv != nil && !view[nv] {
					view[nv] = true
					work = append(work, nv)
				}
			}
		}
		ir.EachInstr(fn, func(blk *ssa.BasicBlock, _ int, in ssa.Instruction) {
			switch x := in.(type) {
			case *ssa.Return:
				if blk == fn.Recover {
					return
				}
				for _, rv := range ir.Results(x) {
					if view[rv] {
						out = append(out, poolAlias{fn, in, "returns"})
					}
				}
			case *ssa.Send:
				if view[x.X] {
					out = append(out, poolAlias{fn, in, "sends on a channel"})
				}
			case *ssa.Select:
				for _, st := range x.States {
					if st.Send != nil && view[st.Send] {
						out = append(out, poolAlias{fn, in, "sends on a channel"})
					}
				}
			case *ssa.Store:
				if view[x.Val] {
					if _, _, ok := ir.FieldOf(x.Addr); ok {
						out = append(out, poolAlias{fn, in, "stores in a structure"})
					}
				}
			}
		})
	}
	return out, pools
}

// poolAliasRule reports poolAliases under the given rule name.
func poolAliasRule(c *Ctx, rule string) {
	al, pools := poolAliases(c)
	for _, a := range al {
		c.R.Violate(rule, "pooled buffer escapes from "+fname(a.fn), c.Pos(a.at.Pos()),
			sprintf("%s takes a buffer from a sync.Pool, puts it back, and still %s a view of it (the buffer or its Bytes()): the next user of the pool overwrites what the first one is still holding — frames come out duplicated, merged or carrying another message's bytes", fname(a.fn), a.what))
	}
	c.R.Hold(rule, "pooled buffers do not outlive their Put", "", sprintf("%d function(s) using a sync.Pool examined", pools))
}

// poolResetRule: an object that goes back into a sync.Pool is handed to the next user as it is. Every Put of a value
// taken from a pool in the same function is therefore preceded, on every path, by a reset of that value made after the
// Get — a Reset()/Truncate call on it or an assignment of a whole new value through the pointer. A path that puts the
// object back uncleared (typically an early error return) lets the next request see this request's data.
func poolResetRule(c *Ctx, rule string) {
	n := 0
	for _, fn := range c.P.LibFns {
		var gets []*ssa.Call
		var puts []ssa.CallInstruction
		ir.EachInstr(fn, func(_ *ssa.BasicBlock, _ int, in ssa.Instruction) {
			if call, ok := in.(ssa.CallInstruction); ok {
				switch ir.CallName(call) {
				case "(*sync.Pool).Get":
					if cc, ok := call.(*ssa.Call); ok {
						gets = append(gets, cc)
					}
				case "(*sync.Pool).Put":
					puts = append(puts, call)
				}
			}
		})
		if len(gets) == 0 || len(puts) == 0 {
			continue
		}
		// the pooled values: the Get results and their type assertions
		pooled := map[ssa.Value]*ssa.Call{}
		for _, g := range gets {
			work := []ssa.Value{g}
			for len(work) > 0 {
				v := work[0]
				work = work[1:]
				if _, seen := pooled[v]; seen {
					continue
				}
				pooled[v] = g
				if v.Referrers() == nil {
					continue
				}
				for _, r := range *v.Referrers() {
					switch y := r.(type) {
					case *ssa.TypeAssert:
						work = append(work, y)
					case *ssa.Extract:
						work = append(work, y)
					case *ssa.Phi:
						work = append(work, y)
					}
				}
			}
		}
		// resets
		var resets []ssa.Instruction
		ir.EachInstr(fn, func(_ *ssa.BasicBlock, _ int, in ssa.Instruction) {
			switch x := in.(type) {
			case *ssa.Store:
				if _, ok := pooled[x.Addr]; ok {
					resets = append(resets, in) // *p = T{}
				}
			case ssa.CallInstruction:
				cc := x.Common()
				nm := ""
				if cc.IsInvoke() {
					nm = cc.Method.Name()
				} else if sc := ir.StaticCallee(x); sc != nil {
					nm = sc.Name()
				}
				if (nm == "Reset" || nm == "Truncate") && len(cc.Args) > 0 {
					recv := cc.Value
					if !cc.IsInvoke() {
						recv = cc.Args[0]
					}
					if _, ok := pooled[recv]; ok {
						if _, isDefer := in.(*ssa.Defer); !isDefer {
							resets = append(resets, in)
						}
					}
				}
			}
		})
		cnt := 0
		for _, p := range puts {
			args := p.Common().Args
			if len(args) < 2 {
				continue
			}
			v := args[1]
			for {
				if mi, ok := v.(*ssa.MakeInterface); ok {
					v = mi.X
					continue
				}
				break
			}
			g, ok := pooled[v]
			if !ok {
				continue // a new object offered to the pool
			}
			n++
			cnt++
			okReset := false
			_, deferred := p.(*ssa.Defer)
			for _, r := range resets {
				if !flow.Dominates(g, r) {
					continue
				}
				if flow.Dominates(r, p.(ssa.Instruction)) {
					okReset = true
				}
				// `defer pool.Put(x); x.Reset()`: the Put runs at exit, the reset right after the defer statement
				if deferred && r.Block() == p.Block() {
					okReset = true
				}
			}
			c.R.Check(okReset, rule, sprintf("pooled object put back by %s #%d is reset", fname(fn), cnt), c.Pos(p.Pos()),
				"reset after the Get on every path to this Put",
				sprintf("%s puts an object it took from a sync.Pool back without resetting it on every path to this Put (an early return): the next call that takes it from the pool — usually on behalf of another client — starts from this call's data", fname(fn)))
		}
	}
	if n == 0 {
		c.R.Hold(rule, "no function recycles objects through a sync.Pool", "", "")
	}
}
