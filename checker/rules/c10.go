package rules

import (
	"go/token"
	"go/types"
	"sort"
	"strings"

	"golang.org/x/tools/go/ssa"

	"verif/checker/flow"
	"verif/checker/ir"
)

// C10 — in-call notifications arrive complete, in order and before the result.
//
//	R-one-id-source    everything that writes SSE events to one POST response uses one sseutil.Writer
//	                   (one id counter): the notification sender does not allocate its own
//	R-id-unique        an event id incorporates the result of an atomic add on the writer's counter
//	R-sender-in-ctx    on the SSE branch the context given to the dispatcher carries a sender built around the
//	                   POST's own ResponseWriter — unconditionally; on the JSON branch the no-op sender
//	R-response-last    the responder is invoked after the dispatcher returned (same goroutine)
//	R-client-drain     the per-call SSE reader returns a result before end of stream only when no handler is
//	                   registered; handlers are invoked synchronously in arrival order
//	R-unbounded-frames the per-call SSE reader has no practical line-length limit (a notification is one line)
//	R-params-keys      NotificationParams' MarshalJSON and UnmarshalJSON single out the same member ("_meta")
//	R-frame-verbatim   no Fprintf to a stream with a computed format string
//	(R-client-drain also requires that the function returning the answer reads the stream itself)
func init() { Registry["C10"] = checkC10 }

const sseutilPkg = ir.RootPath + "/internal/sseutil"

func checkC10(c *Ctx) {
	c.R.Explanation = "Static check of the in-call notification path of Streamable HTTP: allocation-site analysis of the event-id generators writing to one POST response, provenance of the notification sender placed in the handler's context, " +
		"sequencing of dispatcher and responder, the client reader's early-return condition and synchronous handler dispatch, and key agreement of NotificationParams' (un)marshallers."
	c.R.NotDecided = "delivery under every timing; that goroutines started by a user handler finish before it returns"
	c.R.Assumptions = []string{"event ids are 'evt-<ms>-<counter>': two counters on one stream can produce equal ids within one millisecond"}
	writerT := c.P.Named(sseutilPkg, "Writer")
	newWriter := c.P.Func(sseutilPkg, "NewWriter")
	genID := c.P.Method(writerT, "GenerateEventID")
	if writerT == nil || newWriter == nil || genID == nil {
		c.R.Break("anchor not found: sseutil.Writer / NewWriter / GenerateEventID")
		return
	}
	senderI := c.senderIface()
	reqH := c.dispatcherIface()
	if senderI == nil || reqH == nil {
		c.R.Break("anchor not found: the notification-sender / request-dispatcher interfaces (by shape)")
		return
	}
	senderIface := senderI.Underlying().(*types.Interface)

	// ---- R-id-unique
	uniq := false
	ir.EachInstr(genID, func(_ *ssa.BasicBlock, _ int, in ssa.Instruction) {
		call, ok := in.(*ssa.Call)
		if !ok || ir.CallName(call) != "fmt.Sprintf" {
			return
		}
		for _, e := range variadicElems(call.Call.Args[1]) {
			if e == nil {
				continue
			}
			if oc := originCall(e); oc != nil && strings.HasPrefix(ir.CallName(oc), "sync/atomic.Add") {
				uniq = true
			}
			if oc := originCall(e); oc != nil && strings.Contains(ir.CallName(oc), "sync/atomic.Uint64).Add") {
				uniq = true
			}
		}
	})
	c.R.Check(uniq, "R-id-unique", "GenerateEventID", c.Pos(genID.Pos()), "the id embeds the result of an atomic add on the writer's counter", "GenerateEventID does not embed an atomically incremented counter: two events of one writer can share an id")

	// ---- the POST handler: function with an invoke of requestHandler.handleRequest and a ResponseWriter parameter
	// it may hand the dispatch itself to a helper (serveRequest(reqCtx, respCtx, w, …)): a function with a writer
	// parameter whose dispatch call takes one of its own parameters as context
	ctxArgOf := func(call ssa.CallInstruction) ssa.Value {
		for _, a := range call.Common().Args {
			if ir.TypeStr(a.Type()) == "context.Context" {
				return a
			}
		}
		return nil
	}
	helperDispatch := func(fn *ssa.Function) (disp *ssa.Call, ctxIdx int) {
		ctxIdx = -1
		if fn == nil || !c.P.IsLib(fn) || !hasWriterParam(fn) {
			return nil, -1
		}
		ir.EachInstr(fn, func(_ *ssa.BasicBlock, _ int, in ssa.Instruction) {
			call, ok := in.(*ssa.Call)
			if !ok || !c.isDispatchCall(call) {
				return
			}
			if p, ok := ctxArgOf(call).(*ssa.Parameter); ok {
				for i, q := range fn.Params {
					if q == p {
						disp, ctxIdx = call, i
					}
				}
			}
		})
		return
	}
	buildsSender := func(fn *ssa.Function) bool {
		var w *ssa.Parameter
		for _, p := range fn.Params {
			if isResponseWriter(p.Type()) {
				w = p
			}
		}
		found := false
		ir.EachInstr(fn, func(_ *ssa.BasicBlock, _ int, in ssa.Instruction) {
			call, ok := in.(*ssa.Call)
			if !ok {
				return
			}
			sc := ir.StaticCallee(call)
			if sc == nil || !c.P.IsLib(sc) || sc.Signature.Results().Len() != 1 || !types.Implements(sc.Signature.Results().At(0).Type(), senderIface) {
				return
			}
			for _, a := range call.Call.Args {
				if w != nil && ir.Unwrap(a) == ssa.Value(w) {
					found = true
				}
			}
		})
		return found
	}
	var posts, direct []*ssa.Function
	for _, fn := range c.P.LibFns {
		if !hasWriterParam(fn) {
			continue
		}
		found, viaHelper := false, false
		ir.EachCall(fn, func(call ssa.CallInstruction) {
			if c.isDispatchCall(call) {
				found = true
			}
			if d, _ := helperDispatch(ir.StaticCallee(call)); d != nil {
				viaHelper = true
			}
		})
		if found {
			direct = append(direct, fn)
		}
		if (found || viaHelper) && buildsSender(fn) {
			posts = append(posts, fn)
		}
	}
	if len(posts) == 0 && len(direct) == 1 {
		posts = direct // no sender is built anywhere: reported below as the violation it is
	}
	if len(posts) != 1 {
		c.R.Break("expected one HTTP function that builds the notification sender of a POST and dispatches the request (itself or through a helper), found %d", len(posts))
		return
	}
	post := posts[0]
	pn := fname(post)
	var wParam *ssa.Parameter
	for _, p := range post.Params {
		if isResponseWriter(p.Type()) {
			wParam = p
		}
	}
	// sender constructors: library functions returning a pointer type that implements notificationSender and takes the writer
	type senderCall struct {
		call *ssa.Call
		ctor *ssa.Function
	}
	var senders []senderCall
	ir.EachInstr(post, func(_ *ssa.BasicBlock, _ int, in ssa.Instruction) {
		call, ok := in.(*ssa.Call)
		if !ok {
			return
		}
		sc := ir.StaticCallee(call)
		if sc == nil || !c.P.IsLib(sc) || sc.Signature.Results().Len() != 1 {
			return
		}
		if !types.Implements(sc.Signature.Results().At(0).Type(), senderIface) {
			return
		}
		usesW := false
		for _, a := range call.Call.Args {
			if ir.Unwrap(a) == ssa.Value(wParam) {
				usesW = true
			}
		}
		if usesW {
			senders = append(senders, senderCall{call, sc})
		}
	})
	if len(senders) == 0 {
		c.R.Violate("R-sender-in-ctx", pn+": SSE sender", c.Pos(post.Pos()), sprintf("%s never builds a notification sender around its own ResponseWriter: in-call notifications cannot reach the client", pn))
		return
	}
	// ---- R-one-id-source
	for _, s := range senders {
		// where does the constructor's *sseutil.Writer field come from?
		own := false
		var fieldParamIdx = -1
		ir.EachInstr(s.ctor, func(_ *ssa.BasicBlock, _ int, in ssa.Instruction) {
			st, ok := in.(*ssa.Store)
			if !ok {
				return
			}
			f, _, ok := ir.FieldOf(st.Addr)
			if !ok || ir.TypeStr(f.Type) != "*mcp/internal/sseutil.Writer" {
				return
			}
			if oc := originCall(st.Val); oc != nil && ir.StaticCallee(oc) == newWriter {
				own = true
			}
			for i, p := range s.ctor.Params {
				if st.Val == ssa.Value(p) {
					fieldParamIdx = i
				}
			}
		})
		construct := pn + ": event-id source of " + fname(s.ctor)
		if own {
			c.R.Violate("R-one-id-source", construct, c.Pos(s.call.Pos()),
				sprintf("%s allocates its own sseutil.Writer while the responder of the same POST response has another one: two id counters write to one stream, so a notification and the response can carry the same event id (same millisecond, same counter value)", fname(s.ctor)))
			continue
		}
		shared := false
		if fieldParamIdx >= 0 && fieldParamIdx < len(s.call.Call.Args) {
			if f, _, ok := ir.LoadedField(s.call.Call.Args[fieldParamIdx]); ok && ir.TypeStr(f.Type) == "*mcp/internal/sseutil.Writer" {
				shared = true
			}
		}
		c.R.Check(shared, "R-one-id-source", construct, c.Pos(s.call.Pos()), "the sender shares the responder's writer", sprintf("%s is not given the responder's sseutil.Writer", fname(s.ctor)))
	}
	c.R.Min("R-one-id-source", 1)

	// ---- R-sender-in-ctx: each handleRequest invoke's ctx derives from a WithValue of a sender
	injectors := map[*ssa.Function]bool{}
	for _, fn := range c.P.LibFns {
		if len(fn.Params) != 2 || !types.Identical(fn.Params[1].Type(), senderI) {
			continue
		}
		ir.EachCall(fn, func(call ssa.CallInstruction) {
			if ir.CallName(call) == "context.WithValue" {
				injectors[fn] = true
			}
		})
	}
	if len(injectors) == 0 {
		c.R.Break("no function injecting a notificationSender into a context found")
		return
	}
	nDisp := 0
	ir.EachInstr(post, func(_ *ssa.BasicBlock, _ int, in ssa.Instruction) {
		call, ok := in.(*ssa.Call)
		if !ok {
			return
		}
		var v ssa.Value
		if c.isDispatchCall(call) {
			v = ctxArgOf(call) // the context argument, wherever the receiver sits (interface or concrete dispatcher)
		} else if d, idx := helperDispatch(ir.StaticCallee(call)); d != nil && idx < len(call.Call.Args) {
			v = call.Call.Args[idx] // the context the helper dispatches with
		} else {
			return
		}
		nDisp++
		construct := sprintf("%s: dispatch #%d", pn, nDisp)
		// find the injector call on the ctx chain
		var inj *ssa.Call
		for i := 0; i < 8 && v != nil; i++ {
			switch x := v.(type) {
			case *ssa.Call:
				if sc := ir.StaticCallee(x); sc != nil && injectors[sc] {
					inj = x
					v = nil
					continue
				}
				var next ssa.Value
				for _, a := range x.Call.Args {
					if ir.TypeStr(a.Type()) == "context.Context" {
						next = a
					}
				}
				v = next
			case *ssa.Phi:
				// ctx := phi(withSender(ctx), setSession(withSender(ctx))): follow any edge that is a call
				var next ssa.Value
				for _, e := range x.Edges {
					if _, ok := e.(*ssa.Call); ok {
						next = e
					}
				}
				v = next
			default:
				v = nil
			}
		}
		if inj == nil {
			c.R.Violate("R-sender-in-ctx", construct, c.Pos(call.Pos()), sprintf("%s dispatches a request with a context that carries no notification sender", pn))
			return
		}
		sv := ir.Unwrap(inj.Call.Args[1])
		// SSE branch? (controlled by the ok edge of the responder's *sseResponder assertion)
		sse := false
		for _, g := range flow.Guards(post, call.Block()) {
			if ex, ok := g.If.Cond.(*ssa.Extract); ok && ex.Index == 1 && g.Branch {
				if ta, ok := ex.Tuple.(*ssa.TypeAssert); ok && c10StreamingType(c, ta.AssertedType) {
					sse = true
				}
			}
		}
		// a function split off for the streaming answer mode is handed the streaming responder itself
		for i, prm := range post.Params {
			if i == 0 && post.Signature.Recv() != nil {
				continue // the handler itself serves both modes
			}
			if c10StreamingType(c, prm.Type()) {
				sse = true
			}
		}
		isSSESender := func(v ssa.Value) bool {
			for _, s := range senders {
				if v == ssa.Value(s.call) {
					return true
				}
			}
			return false
		}
		if sse {
			c.R.Check(isSSESender(sv), "R-sender-in-ctx", construct+" (SSE)", c.Pos(call.Pos()), "the handler's context carries the sender built around this POST's writer",
				sprintf("on the SSE branch %s places a sender into the handler's context that is not unconditionally the SSE sender of this POST's ResponseWriter (e.g. a no-op sender on some path): notifications the handler emits are silently dropped", pn))
		} else {
			c.R.Check(!isSSESender(sv), "R-sender-in-ctx", construct+" (JSON)", c.Pos(call.Pos()), "JSON responses use the no-op sender", "the JSON branch writes notifications into a JSON response")
			// ... and the sender it does use is silent: with a JSON answer in-call notifications are dropped without
			// affecting the result, so every method of the sender's type returns nil and does nothing that can fail
			loud := ""
			var silent func(v ssa.Value, d int)
			silent = func(v ssa.Value, d int) {
				if d > 4 || loud != "" {
					return
				}
				switch x := v.(type) {
				case *ssa.MakeInterface:
					silent(x.X, d+1)
					return
				case *ssa.ChangeInterface:
					silent(x.X, d+1)
					return
				case *ssa.Phi:
					for _, e := range x.Edges {
						silent(e, d+1)
					}
					return
				case *ssa.UnOp:
					if u := unspill(x); u != ssa.Value(x) {
						silent(u, d+1)
						return
					}
				}
				T := v.Type()
				ms := c.P.SSA.MethodSets.MethodSet(T)
				si := senderIface.Underlying().(*types.Interface)
				for i := 0; i < si.NumMethods(); i++ {
					sel := ms.Lookup(si.Method(i).Pkg(), si.Method(i).Name())
					if sel == nil {
						loud = "a value whose methods cannot be resolved"
						return
					}
					mf := c.P.SSA.MethodValue(sel)
					if mf == nil || mf.Blocks == nil {
						continue
					}
					ir.EachInstr(mf, func(_ *ssa.BasicBlock, _ int, in ssa.Instruction) {
						switch y := in.(type) {
						case ssa.CallInstruction:
							loud = sprintf("%s, whose method %s calls %s", ir.TypeStr(T), mf.Name(), ir.CallName(y))
						case *ssa.Return:
							for _, r := range y.Results {
								if !ir.IsNilConst(r) {
									loud = sprintf("%s, whose method %s can return an error", ir.TypeStr(T), mf.Name())
								}
							}
						}
					})
				}
			}
			silent(sv, 0)
			c.R.Check(loud == "", "R-sender-in-ctx", construct+" (JSON): silent sender", c.Pos(call.Pos()), "every method of the sender used for JSON answers returns nil and does nothing else",
				sprintf("on the JSON branch %s gives the handler a sender of type %s: an in-call notification is then not dropped silently — a handler that treats a failed emission as a failure aborts and the call is answered with an error instead of its result (or the notification overtakes the result on another stream)", pn, loud))
		}
		// ---- R-response-last: every responder call is dominated by this dispatch or lies on a disjoint branch
	})
	c.R.Min("R-sender-in-ctx", 2)
	resp := 0
	// a call that writes the answer: the responder itself, or a helper with a writer parameter that calls it
	var respondish func(call *ssa.Call, d int) bool
	respondish = func(call *ssa.Call, d int) bool {
		if isRespondCall(c, call) {
			return true
		}
		sc := ir.StaticCallee(call)
		if d >= 2 || sc == nil || !c.P.IsLib(sc) || !hasWriterParam(sc) || !passesWriter(call) {
			return false
		}
		if dd, _ := helperDispatch(sc); dd != nil {
			return false // the dispatching helper is judged on its own below
		}
		found := false
		ir.EachInstr(sc, func(_ *ssa.BasicBlock, _ int, in ssa.Instruction) {
			if ic, ok := in.(*ssa.Call); ok && respondish(ic, d+1) {
				found = true
			}
		})
		return found
	}
	scopes := []*ssa.Function{post}
	ir.EachInstr(post, func(_ *ssa.BasicBlock, _ int, in ssa.Instruction) {
		if call, ok := in.(*ssa.Call); ok {
			if d, _ := helperDispatch(ir.StaticCallee(call)); d != nil {
				dup := false
				for _, sfn := range scopes {
					if sfn == ir.StaticCallee(call) {
						dup = true
					}
				}
				if !dup {
					scopes = append(scopes, ir.StaticCallee(call))
				}
			}
		}
	})
	for _, scope := range scopes {
		scope := scope
		ir.EachInstr(scope, func(_ *ssa.BasicBlock, _ int, in ssa.Instruction) {
			call, ok := in.(*ssa.Call)
			if !ok || !respondish(call, 0) {
				return
			}
			resp++
			dominated := false
			ir.EachInstr(scope, func(_ *ssa.BasicBlock, _ int, d ssa.Instruction) {
				dc, ok := d.(*ssa.Call)
				if !ok {
					return
				}
				isDisp := c.isDispatchCall(dc)
				if hd, _ := helperDispatch(ir.StaticCallee(dc)); hd != nil {
					isDisp = true
				}
				if isDisp && flow.Dominates(dc, call) {
					dominated = true
				}
			})
			c.R.Check(dominated, "R-response-last", sprintf("%s: respond #%d", fname(scope), resp), c.Pos(call.Pos()), "the response is written after the dispatcher returned",
				sprintf("%s writes a response that is not preceded by the dispatcher's return on every path", fname(scope)))
		})
	}
	c.R.Min("R-response-last", 4)

	c10Client(c)
	c10Params(c)
	// "complete": the frame reaches the wire byte for byte
	c09FormatStrings(c, "R-frame-verbatim")
	c10HandlerErrorContained(c, "R-handler-error-contained")
	c10MetaKept(c, "R-meta-kept")
	c10FlattenKeepsAll(c)
	c10OneResponder(c, "R-one-responder")
	c10SenderSendsAll(c, "R-sender-sends-all")
	c10NoBuiltinTimeouts(c, "R-no-transport-timeout")
	c10AssertReaches(c)
	c10StreamUnbounded(c, "R-stream-unbounded")
	c10CallerMapUntouched(c, "R-caller-map-untouched")
}

func c10Client(c *Ctx) {
	nhT := c.P.RootNamed("NotificationHandler")
	var per *lineReader
	for _, lr := range sseLineReaders(c) {
		lr := lr
		if lr.perCall {
			per = &lr
		}
	}
	if per == nil && nhT != nil {
		// the function that returns a call's answer from an HTTP response no longer parses the stream itself: is the
		// parsing done by another goroutine? Then events and end-of-stream reach the caller over separate channels
		// and their order is lost.
		var readers []*ssa.Function
		for _, lr := range sseLineReaders(c) {
			readers = append(readers, lr.fn)
		}
		for _, fn := range c.P.LibFns {
			if !clientSide(c, fn) {
				continue
			}
			hasResp, hasRaw := false, false
			for _, p := range fn.Params {
				if ir.TypeStr(p.Type()) == "*net/http.Response" {
					hasResp = true
				}
			}
			res := fn.Signature.Results()
			for i := 0; i < res.Len(); i++ {
				if ir.TypeStr(res.At(i).Type()) == "*encoding/json.RawMessage" {
					hasRaw = true
				}
			}
			if !hasResp || !hasRaw {
				continue
			}
			all, sync := c.Reach(fn), c.ReachSync(fn)
			for _, r := range readers {
				if all[r] && !sync[r] {
					c.R.Violate("R-client-drain", "stream of "+fname(fn)+" read by another goroutine", c.Pos(fn.Pos()),
						sprintf("%s returns the call's answer but leaves reading the SSE stream to a goroutine (%s): events and the end of the stream reach it over separate channels, so end-of-stream can overtake events still buffered — notifications are dropped and the result can be lost", fname(fn), fname(r)))
					return
				}
			}
		}
	}
	if per == nil || nhT == nil {
		c.R.Break("per-call SSE reader / NotificationHandler not found")
		return
	}
	fn := per.fn
	// a notification is one data line: the reader must not impose a line-length limit
	c.R.Check((per.scanner == nil && per.readerOK) || (per.scanner != nil && !per.limited), "R-unbounded-frames", "per-call SSE reader "+fname(fn), c.Pos(fn.Pos()),
		"lines are read without a practical length limit (bufio.Reader, or a Scanner whose limit is at least 1 GiB)",
		sprintf("%s reads the call's SSE stream with a length-limited bufio.Scanner: a notification (or result) longer than the token limit ends the stream with ErrTooLong; it and everything after it are never delivered", fname(fn)))
	pd := flow.NewPostDom(fn)
	// returns of a non-nil result inside the read loop
	n := 0
	ir.EachInstr(fn, func(_ *ssa.BasicBlock, _ int, in ssa.Instruction) {
		r, ok := in.(*ssa.Return)
		if !ok || len(ir.Results(r)) != 2 {
			return
		}
		if !ir.IsNilConst(ir.Results(r)[1]) {
			return // error returns
		}
		if ir.IsNilConst(ir.Results(r)[0]) {
			return
		}
		n++
		okGuard := false
		for _, g := range pd.ControlDepsTransitive(r.Block()) {
			cond := g.If.Cond
			// len(handlers) == 0
			if bin, ok := cond.(*ssa.BinOp); ok && bin.Op == token.EQL && isZero(bin.Y) && g.Branch {
				if lc, ok := bin.X.(*ssa.Call); ok {
					if b, ok := lc.Call.Value.(*ssa.Builtin); ok && b.Name() == "len" {
						if _, isMap := lc.Call.Args[0].Type().Underlying().(*types.Map); isMap {
							okGuard = true
						}
					}
				}
			}
			// end of stream: scanner.Scan() returned false
			if u, ok := cond.(*ssa.UnOp); ok && u.Op == token.NOT {
				cond = u.X
				if sc, ok := cond.(*ssa.Call); ok && ir.CallName(sc) == "(*bufio.Scanner).Scan" && g.Branch {
					okGuard = true
				}
			} else if sc, ok := cond.(*ssa.Call); ok && ir.CallName(sc) == "(*bufio.Scanner).Scan" && !g.Branch {
				okGuard = true
			}
			// end of stream: err == io.EOF
			if bin, ok := cond.(*ssa.BinOp); ok && bin.Op == token.EQL && g.Branch {
				if u, ok := bin.Y.(*ssa.UnOp); ok {
					if gl, ok := u.X.(*ssa.Global); ok && gl.Name() == "EOF" {
						okGuard = true
					}
				}
			}
		}
		c.R.Check(okGuard, "R-client-drain", sprintf("%s: result return #%d", fname(fn), n), ipos(c, r),
			"returns a result only at end of stream or when no notification handler is registered",
			sprintf("%s can return the call's result while the stream may still carry notifications for registered handlers: they are never delivered", fname(fn)))
	})
	// handlers invoked synchronously
	for f := range c.ReachSync(fn) {
		ir.EachInstr(f, func(_ *ssa.BasicBlock, _ int, in ssa.Instruction) {
			g, ok := in.(*ssa.Go)
			if !ok {
				return
			}
			if types.Identical(g.Call.Value.Type(), nhT) {
				c.R.Violate("R-client-drain", "asynchronous handler dispatch in "+fname(f), c.Pos(g.Pos()), "a notification handler is started with `go`: notifications can overtake each other and the call can return before they ran")
			}
			if mc, ok := g.Call.Value.(*ssa.MakeClosure); ok {
				if cf, ok := mc.Fn.(*ssa.Function); ok {
					ir.EachCall(cf, func(call ssa.CallInstruction) {
						if !call.Common().IsInvoke() && types.Identical(call.Common().Value.Type(), nhT) {
							c.R.Violate("R-client-drain", "asynchronous handler dispatch in "+fname(f), c.Pos(g.Pos()), "a notification handler is invoked from a goroutine started per notification: order and completion before the result are lost")
						}
					})
				}
			}
		})
	}
	syncCalls := 0
	for f := range c.ReachSync(fn) {
		ir.EachInstr(f, func(_ *ssa.BasicBlock, _ int, in ssa.Instruction) {
			if call, ok := in.(*ssa.Call); ok && !call.Call.IsInvoke() && types.Identical(call.Call.Value.Type(), nhT) {
				syncCalls++
			}
		})
	}
	c.R.Check(syncCalls > 0, "R-client-drain", "synchronous handler dispatch", c.Pos(fn.Pos()), sprintf("%d synchronous handler invocation site(s)", syncCalls), "the per-call reader never invokes a notification handler")
	c.R.Min("R-client-drain", 2)
}

func c10Params(c *Ctx) {
	T := c.P.RootNamed("NotificationParams")
	if T == nil {
		c.R.Break("anchor not found: NotificationParams")
		return
	}
	keys := func(fn *ssa.Function) []string {
		set := map[string]bool{}
		if fn == nil {
			return nil
		}
		ir.EachInstr(fn, func(_ *ssa.BasicBlock, _ int, in ssa.Instruction) {
			switch x := in.(type) {
			case *ssa.BinOp:
				if (x.Op == token.EQL || x.Op == token.NEQ) && ir.TypeStr(x.X.Type()) == "string" {
					if s, ok := ir.ConstStr(x.Y); ok && s != "null" && s != "{}" {
						set[s] = true
					}
				}
			case *ssa.MapUpdate:
				if s, ok := ir.ConstStr(ir.Unwrap(x.Key)); ok {
					set[s] = true
				}
			case *ssa.Lookup:
				if s, ok := ir.ConstStr(ir.Unwrap(x.Index)); ok {
					set[s] = true
				}
			}
		})
		var out []string
		for k := range set {
			out = append(out, k)
		}
		sort.Strings(out)
		return out
	}
	m := keys(c.P.Method(T, "MarshalJSON"))
	u := keys(c.P.Method(T, "UnmarshalJSON"))
	same := len(m) > 0 && strings.Join(m, ",") == strings.Join(u, ",")
	c.R.Check(same, "R-params-keys", "NotificationParams special members", c.Pos(T.Obj().Pos()), sprintf("both directions single out %v", m),
		sprintf("NotificationParams.MarshalJSON singles out %v but UnmarshalJSON %v: _meta / additional fields do not round-trip", m, u))
	c.R.Min("R-params-keys", 1)
	c10ParamsWhole(c)
}

// c10StreamingType: the methods of T that take an http.ResponseWriter stream their answer (they flush the writer, or
// reach code that does) — the event-stream responder, as opposed to the one that writes a single JSON body.
func c10StreamingType(c *Ctx, T types.Type) bool {
	var roots []*ssa.Function
	for _, fn := range c.P.LibFns {
		if fn.Signature.Recv() != nil && types.Identical(fn.Signature.Recv().Type(), T) && hasWriterParam(fn) {
			roots = append(roots, fn)
		}
	}
	if len(roots) == 0 {
		return false
	}
	streaming := false
	for f := range c.ReachSync(roots...) {
		ir.EachCall(f, func(call ssa.CallInstruction) {
			if ir.CallName(call) == "(net/http.Flusher).Flush" {
				streaming = true
			}
		})
	}
	return streaming
}

// ---------------------------------------------------------------- R-handler-error-contained
// What a client-side notification handler returns must not decide how the call ends: the call's outcome is the
// server's answer. The error of a user NotificationHandler may be logged, but it must not flow (directly, wrapped by
// fmt.Errorf, or through the result of a helper) into the result of a function on the call's answer path (one that
// returns the answer, *json.RawMessage).
func c10HandlerErrorContained(c *Ctx, rule string) {
	nhT := c.P.RootNamed("NotificationHandler")
	if nhT == nil {
		return
	}
	// functions one of whose error results derives from a handler's error
	tainted := map[*ssa.Function]bool{}
	derives := func(fn *ssa.Function, v ssa.Value) bool {
		seen := map[ssa.Value]bool{}
		var visit func(v ssa.Value, d int) bool
		visit = func(v ssa.Value, d int) bool {
			if v == nil || d > 6 || seen[v] {
				return false
			}
			seen[v] = true
			switch x := v.(type) {
			case *ssa.Call:
				if !x.Call.IsInvoke() && types.Identical(x.Call.Value.Type(), nhT) {
					return true
				}
				if sc := ir.StaticCallee(x); sc != nil && tainted[sc] {
					return true
				}
				n := ir.CallName(x)
				if n == "fmt.Errorf" || n == "errors.Join" {
					for _, a := range x.Call.Args {
						for _, e := range variadicElems(a) {
							if e != nil && visit(ir.Unwrap(e), d+1) {
								return true
							}
						}
					}
				}
			case *ssa.Extract:
				return visit(x.Tuple, d+1)
			case *ssa.Phi:
				for _, e := range x.Edges {
					if visit(e, d+1) {
						return true
					}
				}
			case *ssa.MakeInterface:
				return visit(x.X, d+1)
			case *ssa.ChangeInterface:
				return visit(x.X, d+1)
			}
			return false
		}
		return visit(v, 0)
	}
	for iter := 0; iter < 4; iter++ {
		changed := false
		for _, fn := range c.P.LibFns {
			if tainted[fn] || !clientSide(c, fn) {
				continue
			}
			ir.EachInstr(fn, func(blk *ssa.BasicBlock, _ int, in ssa.Instruction) {
				r, ok := in.(*ssa.Return)
				if !ok || blk == fn.Recover {
					return
				}
				for _, rv := range ir.Results(r) {
					if ir.TypeStr(rv.Type()) == "error" && derives(fn, rv) {
						tainted[fn] = true
						changed = true
					}
				}
			})
		}
		if !changed {
			break
		}
	}
	n := 0
	for _, fn := range sortedFuncs(tainted) {
		res := fn.Signature.Results()
		onAnswerPath := false
		for i := 0; i < res.Len(); i++ {
			if ir.TypeStr(res.At(i).Type()) == "*encoding/json.RawMessage" {
				onAnswerPath = true
			}
		}
		if !onAnswerPath {
			continue
		}
		n++
		c.R.Violate(rule, "handler error returned by "+fname(fn), c.Pos(fn.Pos()),
			sprintf("%s lies on the path that returns a call's answer and returns an error that derives from what a user notification handler returned: a failing (or merely picky) handler makes the call end with the handler's error instead of the server's answer", fname(fn)))
	}
	if n == 0 {
		c.R.Hold(rule, "notification handler errors stay off the answer path", "", sprintf("%d function(s) hand a handler error on; none of them returns a call's answer", len(tainted)))
	}
}

// ---------------------------------------------------------------- R-meta-kept
// `_meta` travels in the params map of a notification. A constructor that moves it into the Meta member removes the
// key from the map — but only a value it could take over (a comma-ok assertion to the map type succeeded) may be
// removed; otherwise a `_meta` of another map type (mcp.Meta is one) is deleted and appears nowhere in the message.
func c10MetaKept(c *Ctx, rule string) {
	n := 0
	for _, fn := range c.P.LibFns {
		if clientSide(c, fn) {
			continue
		}
		ir.EachInstr(fn, func(_ *ssa.BasicBlock, _ int, in ssa.Instruction) {
			call, ok := in.(*ssa.Call)
			if !ok {
				return
			}
			b, ok := call.Call.Value.(*ssa.Builtin)
			if !ok || b.Name() != "delete" || len(call.Call.Args) != 2 {
				return
			}
			if k, ok := ir.ConstStr(ir.Unwrap(call.Call.Args[1])); !ok || k != "_meta" {
				return
			}
			// the params of a message being BUILT (a map handed in by the caller); a scratch map a decoder filled from the
			// wire is taken apart as the decoder sees fit
			if u, ok := call.Call.Args[0].(*ssa.UnOp); ok {
				if _, local := u.X.(*ssa.Alloc); local {
					return
				}
			}
			if _, isMake := call.Call.Args[0].(*ssa.MakeMap); isMake {
				return
			}
			n++
			taken := false
			for _, g := range flow.Guards(fn, call.Block()) {
				if ex, ok := g.If.Cond.(*ssa.Extract); ok && ex.Index == 1 && g.Branch {
					if _, isTA := ex.Tuple.(*ssa.TypeAssert); isTA {
						taken = true
					}
				}
			}
			// every dynamic type the value can have is taken over: a type switch / several assertions — accept when the
			// delete is not reachable on an edge where all assertions failed (handled by the guard test above), or when
			// the function stores the looked-up value itself (whatever its type) somewhere
			c.R.Check(taken, rule, "removal of _meta in "+fname(fn), c.Pos(call.Pos()), "removed only after a successful assertion took the value over",
				sprintf("%s deletes \"_meta\" from the params whether or not it could take the value over (the delete is not controlled by the success of the type assertion): a _meta of another map type — mcp.Meta — is removed and never sent", fname(fn)))
		})
	}
	c.R.Min(rule, 2)
}

// c10FlattenKeepsAll (R-meta-kept): a marshaller that flattens a map member into the object it emits (range over the
// member, `out[k] = v`) keeps every entry: an iteration may skip its store only on the "already present in out" edge of a
// lookup in out. A skip decided by the key alone (`if k == "_meta" { continue }`) silently drops what a sender put
// there — the `_meta` of a notification built from a params map with a typed value.
func c10FlattenKeepsAll(c *Ctx) {
	n := 0
	for _, fn := range c.P.LibFns {
		if fn.Name() != "MarshalJSON" || fn.Signature.Recv() == nil {
			continue
		}
		ir.EachInstr(fn, func(_ *ssa.BasicBlock, _ int, in ssa.Instruction) {
			nx, ok := in.(*ssa.Next)
			if !ok || nx.IsString {
				return
			}
			rg, ok := nx.Iter.(*ssa.Range)
			if !ok {
				return
			}
			f, _, ok := ir.LoadedField(rg.X)
			if !ok {
				return
			}
			var okv, key ssa.Value
			for _, r := range *nx.Referrers() {
				if ex, ok := r.(*ssa.Extract); ok {
					switch ex.Index {
					case 0:
						okv = ex
					case 1:
						key = ex
					}
				}
			}
			if okv == nil || key == nil {
				return
			}
			header := nx.Block()
			ifi, ok := header.Instrs[len(header.Instrs)-1].(*ssa.If)
			if !ok || ifi.Cond != okv {
				return
			}
			// the output map: target of a MapUpdate keyed by the range key
			var out ssa.Value
			for _, r := range *key.Referrers() {
				if mu, ok := r.(*ssa.MapUpdate); ok && mu.Key == key {
					out = mu.Map
				}
			}
			if out == nil {
				return // not a flattening loop
			}
			n++
			// search: body entry -> header without a store and without the "already present" edge
			seen := map[*ssa.BasicBlock]bool{}
			stack := []*ssa.BasicBlock{header.Succs[0]}
			var skip *ssa.BasicBlock
			for len(stack) > 0 && skip == nil {
				b := stack[len(stack)-1]
				stack = stack[:len(stack)-1]
				if seen[b] {
					continue
				}
				seen[b] = true
				stored := false
				for _, bi := range b.Instrs {
					if mu, ok := bi.(*ssa.MapUpdate); ok && mu.Map == out && mu.Key == key {
						stored = true
					}
				}
				if stored {
					continue
				}
				present := -1 // successor index that is the "already present in out" edge
				if bif, ok := b.Instrs[len(b.Instrs)-1].(*ssa.If); ok {
					cond, pol := bif.Cond, 0
					for {
						if u, ok := cond.(*ssa.UnOp); ok && u.Op == token.NOT {
							cond, pol = u.X, 1-pol
							continue
						}
						break
					}
					if ex, ok := cond.(*ssa.Extract); ok && ex.Index == 1 {
						if lk, ok := ex.Tuple.(*ssa.Lookup); ok && lk.X == out {
							present = pol
						}
					}
				}
				for i, s := range b.Succs {
					if i == present {
						continue
					}
					if s == header {
						skip = b
						break
					}
					stack = append(stack, s)
				}
			}
			c.R.Check(skip == nil, "R-meta-kept", "entries of "+f.Key()+" flattened by "+fname(fn), c.Pos(fn.Pos()),
				"every entry is emitted unless the output already has the key",
				sprintf("%s skips entries of %s by their key alone: an entry such as \"_meta\" that reached the member (a typed value in a params map) is dropped from the wire although nothing else supplies it", fname(fn), f.Key()))
		})
	}
	if n == 0 {
		c.R.Break("R-meta-kept: no flattening marshaller found (a MarshalJSON that ranges over a map member and copies it into its output)")
	}
}

// c10OneResponder (R-one-responder): once a POST is being answered as an event stream (the branch taken when the
// responder is the streaming one), everything that is written to that response — notifications, the result, an error —
// goes through that streaming responder. An answer written by another responder (a plain JSON body) lands as a bare
// line inside the open event stream, which an SSE reader ignores: the call never gets its answer.
func c10OneResponder(c *Ctx, rule string) {
	n := 0
	for _, fn := range c.P.LibFns {
		if clientSide(c, fn) || !hasWriterParam(fn) {
			continue
		}
		// the streaming branch: blocks on the ok edge of a comma-ok assertion to a streaming responder type
		var tas []*ssa.TypeAssert
		ir.EachInstr(fn, func(_ *ssa.BasicBlock, _ int, in ssa.Instruction) {
			if ta, ok := in.(*ssa.TypeAssert); ok && ta.CommaOk && c10StreamingType(c, ta.AssertedType) {
				tas = append(tas, ta)
			}
		})
		for _, ta := range tas {
			var val, okv ssa.Value
			for _, r := range *ta.Referrers() {
				if ex, ok := r.(*ssa.Extract); ok {
					if ex.Index == 0 {
						val = ex
					} else {
						okv = ex
					}
				}
			}
			if val == nil || okv == nil {
				continue
			}
			derivedFrom := func(v ssa.Value) bool {
				for i := 0; i < 4 && v != nil; i++ {
					if v == val {
						return true
					}
					switch x := v.(type) {
					case *ssa.MakeInterface:
						v = x.X
					case *ssa.ChangeInterface:
						v = x.X
					case *ssa.ChangeType:
						v = x.X
					default:
						return false
					}
				}
				return false
			}
			cnt := 0
			ir.EachInstr(fn, func(_ *ssa.BasicBlock, _ int, in ssa.Instruction) {
				call, ok := in.(*ssa.Call)
				if !ok || !passesWriter(call) {
					return
				}
				inBranch := false
				for _, g := range flow.Guards(fn, call.Block()) {
					if g.If.Cond == okv && g.Branch {
						inBranch = true
					}
				}
				if !inBranch {
					return
				}
				// does it answer? the responder itself, or a helper that reaches one
				answers, direct := false, isRespondCall(c, call)
				if direct {
					answers = true
				} else if sc := ir.StaticCallee(call); sc != nil && c.P.IsLib(sc) && hasWriterParam(sc) {
					for f := range c.ReachSync(sc) {
						ir.EachInstr(f, func(_ *ssa.BasicBlock, _ int, in2 ssa.Instruction) {
							if ic, ok := in2.(*ssa.Call); ok && isRespondCall(c, ic) {
								answers = true
							}
						})
					}
				}
				if !answers {
					return
				}
				n++
				cnt++
				through := false
				if direct && call.Call.IsInvoke() {
					through = derivedFrom(call.Call.Value)
				}
				for _, a := range call.Call.Args {
					if derivedFrom(a) {
						through = true
					}
				}
				c.R.Check(through, rule, sprintf("answer #%d on the streaming branch of %s", cnt, fname(fn)), c.Pos(call.Pos()),
					"written through the streaming responder of this response",
					sprintf("on the branch where %s answers as an event stream, an answer is written without the streaming responder (another responder is used): after the first event has gone out the body is an open event stream, and a plain JSON line in it is ignored by the client — the call gets no answer", fname(fn)))
			})
		}
	}
	if n == 0 {
		c.R.Hold(rule, "no function answers on a streaming branch", "", "")
	}
}

// c10SenderSendsAll (R-sender-sends-all): "all progress, log and custom notifications a tool handler emits … are
// delivered": the methods of the streaming notification sender (the implementation of the sender interface whose
// methods reach a Flush) put every notification on the wire — no path returns success without having written or
// delegated to another method of the sender. A filter inside the sender (dropping progress values that do not
// increase, de-duplicating messages) silently loses notifications the handler emitted.
func c10SenderSendsAll(c *Ctx, rule string) {
	senderI := c.senderIface()
	if senderI == nil {
		return
	}
	iface := senderI.Underlying().(*types.Interface)
	n := 0
	for _, T := range c.P.Implementers(iface) {
		// the streaming one: its methods reach a Flush (the no-op sender used for JSON responses does not)
		streaming := false
		for i := 0; i < iface.NumMethods(); i++ {
			if m := c.P.Method(T, iface.Method(i).Name()); m != nil {
				for f := range c.ReachSync(m) {
					ir.EachCall(f, func(call ssa.CallInstruction) {
						if ir.CallName(call) == "(net/http.Flusher).Flush" {
							streaming = true
						}
					})
				}
			}
		}
		if !streaming {
			continue
		}
		for i := 0; i < iface.NumMethods(); i++ {
			m := c.P.Method(T, iface.Method(i).Name())
			if m == nil || len(m.Blocks) == 0 {
				continue
			}
			res := m.Signature.Results()
			if res.Len() == 0 || ir.TypeStr(res.At(res.Len()-1).Type()) != "error" {
				continue
			}
			sends := func(in ssa.Instruction) bool {
				if r, ok := in.(*ssa.Return); ok {
					// an error return is not a silent drop
					rs := ir.Results(r)
					return len(rs) > 0 && !ir.IsNilConst(rs[len(rs)-1])
				}
				call, ok := in.(*ssa.Call)
				if !ok {
					return false
				}
				if passesWriter(call) {
					return true
				}
				// delegation to another method of the same sender, or to a function that is handed the sender's writer
				if sc := ir.StaticCallee(call); sc != nil && c.P.IsLib(sc) && sc.Signature.Recv() != nil && len(call.Call.Args) > 0 && call.Call.Args[0] == ssa.Value(m.Params[0]) {
					return true
				}
				for _, a := range call.Call.Args {
					if f, base, ok := ir.LoadedField(a); ok && base == ssa.Value(m.Params[0]) && isWriterType(f.Type) {
						return true
					}
				}
				return false
			}
			n++
			esc := flow.ExitsAvoiding(m, nil, sends, false)
			c.R.Check(esc == nil, rule, fname(m)+" sends on every path", c.Pos(m.Pos()), "no successful return without writing the notification",
				sprintf("%s can return success (near %s) without putting the notification on the stream: a notification the tool handler emitted is silently dropped by the sender", fname(m), iposEsc(c, esc)))
		}
	}
	if n < 3 {
		c.R.Break("%s: expected the streaming notification sender's methods (found %d)", rule, n)
	}
}

// c10NoBuiltinTimeouts (R-no-transport-timeout): how long a tool stays quiet before its first notification, and how
// long a call takes, is for the caller's context to limit — the library's own HTTP client must not: the response
// headers of a POST answered as an event stream are committed with the first event only, so a ResponseHeaderTimeout
// (or a Client.Timeout, which also covers reading the stream) fails calls whose handler is slow to speak. No library
// function stores into those members of net/http's Client or Transport.
func c10NoBuiltinTimeouts(c *Ctx, rule string) {
	n := 0
	for _, fn := range c.P.LibFns {
		ir.EachInstr(fn, func(_ *ssa.BasicBlock, _ int, in ssa.Instruction) {
			st, ok := in.(*ssa.Store)
			if !ok {
				return
			}
			f, _, ok := ir.FieldOf(st.Addr)
			if !ok || f.Struct == nil {
				return
			}
			owner := ir.TypeKey(f.Struct)
			bad := (owner == "net/http.Client" && f.Name == "Timeout") ||
				(owner == "net/http.Transport" && (f.Name == "ResponseHeaderTimeout"))
			// ... nor on the server it starts itself: WriteTimeout bounds handler run time plus every write of the
			// answer, and the answer to a POST is a stream that lasts as long as the tool runs
			srv := owner == "net/http.Server" && (f.Name == "WriteTimeout" || f.Name == "ReadTimeout")
			if !bad && !srv {
				return
			}
			if cst, ok := st.Val.(*ssa.Const); ok && cst.Value != nil && cst.Value.String() == "0" {
				return
			}
			n++
			if srv {
				c.R.Violate(rule, sprintf("%s.%s set in %s", owner, f.Name, fname(fn)), c.Pos(st.Pos()),
					sprintf("%s gives the HTTP server the library starts a %s: it bounds the whole exchange, so a call whose handler runs (and streams notifications) longer than that is cut off — the remaining notifications and the result never arrive", fname(fn), f.Name))
				return
			}
			c.R.Violate(rule, sprintf("%s.%s set in %s", owner, f.Name, fname(fn)), c.Pos(st.Pos()),
				sprintf("%s gives the library's own HTTP client a %s: a POST that is answered as an event stream commits its headers with the first event, so a tool that is quiet for longer than that (or a call that simply takes long) fails although the caller's context set no such limit", fname(fn), f.Name))
		})
	}
	if n == 0 {
		c.R.Hold(rule, "the library sets no response-header or whole-request timeout on its HTTP client", "", "")
	}
}

// ---------------------------------------------------------------- R-assert-reaches
// The client finds the transport's notification-handler table by asserting its transport member to the concrete
// transport types (`c.transport.(*streamableHTTPClientTransport)`) and silently does nothing when no assertion
// matches. That only works while the member holds the concrete transports themselves: a decorator stored there (a type
// that wraps another transport in a member of the transport interface) matches none of the assertions, and every
// RegisterNotificationHandler becomes a no-op — the notifications of a call are dropped although a handler was
// registered. For every interface member that library code asserts to concrete types, no type stored into it may
// itself hold a value of that interface.
func c10AssertReaches(c *Ctx) {
	// interface members that are asserted to concrete library types
	type member struct {
		key   string
		iface *types.Interface
	}
	asserted := map[string]*types.Interface{}
	for _, fn := range c.P.LibFns {
		if !clientSide(c, fn) {
			continue
		}
		ir.EachInstr(fn, func(_ *ssa.BasicBlock, _ int, in ssa.Instruction) {
			ta, ok := in.(*ssa.TypeAssert)
			if !ok || types.IsInterface(ta.AssertedType) {
				return
			}
			f, _, ok := ir.LoadedField(ta.X)
			if !ok {
				return
			}
			it, ok := f.Type.Underlying().(*types.Interface)
			if !ok || it.NumMethods() == 0 {
				return
			}
			if nt, ok := f.Type.(*types.Named); !ok || !ir.InLibrary(nt) {
				return
			}
			asserted[f.Key()] = it
		})
	}
	if len(asserted) == 0 {
		c.R.Break("R-assert-reaches: no interface member of a client is asserted to a concrete type")
		return
	}
	// concrete types that reach a value
	var typesOf func(fn *ssa.Function, v ssa.Value, d int, seen map[ssa.Value]bool, out map[string]types.Type)
	typesOf = func(fn *ssa.Function, v ssa.Value, d int, seen map[ssa.Value]bool, out map[string]types.Type) {
		if v == nil || d > 6 || seen[v] {
			return
		}
		seen[v] = true
		switch x := v.(type) {
		case *ssa.MakeInterface:
			out[ir.TypeStr(x.X.Type())] = x.X.Type()
		case *ssa.ChangeInterface:
			typesOf(fn, x.X, d+1, seen, out)
		case *ssa.Phi:
			for _, e := range x.Edges {
				typesOf(fn, e, d+1, seen, out)
			}
		case *ssa.Extract:
			typesOf(fn, x.Tuple, d+1, seen, out)
		case *ssa.Call:
			if sc := ir.StaticCallee(x); sc != nil && c.P.IsLib(sc) && sc.Blocks != nil {
				for _, b := range sc.Blocks {
					if ret, ok := b.Instrs[len(b.Instrs)-1].(*ssa.Return); ok && b != sc.Recover && len(ret.Results) > 0 {
						typesOf(sc, ir.Results(ret)[0], d+1, seen, out)
					}
				}
			}
		case *ssa.Parameter:
			idx := -1
			for i, q := range fn.Params {
				if q == x {
					idx = i
				}
			}
			for _, e := range ir.Callers(c.G, fn) {
				if e.Site == nil || !c.P.IsLib(e.Caller.Func) {
					continue
				}
				cc := e.Site.Common()
				ai := idx
				if cc.IsInvoke() {
					ai--
				}
				if ai >= 0 && ai < len(cc.Args) {
					typesOf(e.Caller.Func, cc.Args[ai], d+1, seen, out)
				}
			}
		case *ssa.UnOp:
			if u := unspill(x); u != ssa.Value(x) {
				typesOf(fn, u, d+1, seen, out)
			}
		}
	}
	keys := make([]string, 0, len(asserted))
	for k := range asserted {
		keys = append(keys, k)
	}
	sort.Strings(keys)
	n := 0
	for _, key := range keys {
		iface := asserted[key]
		stored := map[string]types.Type{}
		for _, fn := range c.P.LibFns {
			ir.EachInstr(fn, func(_ *ssa.BasicBlock, _ int, in ssa.Instruction) {
				st, ok := in.(*ssa.Store)
				if !ok {
					return
				}
				fa, ok := st.Addr.(*ssa.FieldAddr)
				if !ok {
					return
				}
				if f, _, ok := ir.FieldOf(fa); !ok || f.Key() != key {
					return
				}
				typesOf(fn, st.Val, 0, map[ssa.Value]bool{}, stored)
			})
		}
		var names []string
		for k := range stored {
			names = append(names, k)
		}
		sort.Strings(names)
		for _, name := range names {
			T := stored[name]
			n++
			// does T hold a value of the member's interface (a decorator)?
			wraps := ""
			base := T
			if p, ok := base.(*types.Pointer); ok {
				base = p.Elem()
			}
			if st, ok := base.Underlying().(*types.Struct); ok {
				for i := 0; i < st.NumFields(); i++ {
					ft := st.Field(i).Type()
					if fi, ok := ft.Underlying().(*types.Interface); ok && fi.NumMethods() > 0 && types.Implements(T, fi) && (types.Identical(fi, iface) || implementsAll(fi, iface) || implementsAll(iface, fi)) {
						wraps = st.Field(i).Name()
					}
				}
			}
			c.R.Check(wraps == "", "R-assert-reaches", sprintf("%s stored into %s", name, key), "", "a concrete transport, not a wrapper around one",
				sprintf("a value of type %s is stored into %s, a member the client asserts to concrete types to find the notification-handler table; %s wraps another value of that interface (member %s), so none of the assertions matches and registering a notification handler silently does nothing — the notifications of a call never reach the handler", name, key, name, wraps))
		}
	}
	if n == 0 {
		c.R.Break("R-assert-reaches: no concrete type found that is stored into an asserted interface member")
	}
}

// implementsAll: every method of b is a method of a.
func implementsAll(a, b *types.Interface) bool {
	for i := 0; i < b.NumMethods(); i++ {
		m := b.Method(i)
		found := false
		for j := 0; j < a.NumMethods(); j++ {
			if a.Method(j).Name() == m.Name() {
				found = true
			}
		}
		if !found {
			return false
		}
	}
	return true
}

// ---------------------------------------------------------------- R-caller-map-untouched
// A map the application hands to the library (the params of a notification, the arguments of a call) is the
// application's: a handler may reuse one map for several notifications. A function of the public surface — exported,
// or a method of the notification-sender interface handed to tool handlers — must not delete from or store into a map
// parameter; it copies what it needs. (`delete(params, "_meta")` makes the second notification sent with the same map
// lose its _meta.)
func c10CallerMapUntouched(c *Ctx, rule string) {
	senderIface := c.senderIface()
	n := 0
	for _, fn := range c.P.LibFns {
		if fn.Parent() != nil || fn.Synthetic != "" {
			continue
		}
		public := false
		if obj, ok := fn.Object().(*types.Func); ok && obj.Exported() {
			if recv := fn.Signature.Recv(); recv == nil {
				public = true
			} else {
				rt := recv.Type()
				if p, ok := rt.(*types.Pointer); ok {
					rt = p.Elem()
				}
				if nt, ok := rt.(*types.Named); ok {
					if nt.Obj().Exported() {
						public = true
					}
					if senderIface != nil {
						if si, ok := senderIface.Underlying().(*types.Interface); ok && (types.Implements(nt, si) || types.Implements(types.NewPointer(nt), si)) {
							public = true
						}
					}
				}
			}
		}
		if !public {
			continue
		}
		for _, p := range fn.Params {
			if _, isMap := p.Type().Underlying().(*types.Map); !isMap || p.Referrers() == nil {
				continue
			}
			n++
			bad := ""
			for _, r := range *p.Referrers() {
				switch y := r.(type) {
				case *ssa.MapUpdate:
					if y.Map == ssa.Value(p) {
						bad = sprintf("stores into it at %s", c.Pos(y.Pos()))
					}
				case *ssa.Call:
					if b, ok := y.Call.Value.(*ssa.Builtin); ok && b.Name() == "delete" && len(y.Call.Args) > 0 && y.Call.Args[0] == ssa.Value(p) {
						bad = sprintf("deletes from it at %s", c.Pos(y.Pos()))
					}
				}
			}
			c.R.Check(bad == "", rule, sprintf("map parameter %s of %s", p.Name(), fname(fn)), c.Pos(fn.Pos()), "read only",
				sprintf("%s, part of the public surface, %s: the map belongs to the caller, who may use it again — a handler that sends two notifications with one params map finds the member gone (the second notification arrives without it)", fname(fn), bad))
		}
	}
	if n < 5 {
		c.R.Break("%s: only %d map parameters on the public surface", rule, n)
	}
}

// ---------------------------------------------------------------- R-stream-unbounded
// The answer to a call may be an event stream that carries every in-call notification before the result: its length is
// the sum of all of them, not the size of one message. The clients therefore read an answer's body as net/http hands it
// over — no library code replaces the Body of a response with a wrapper, and no stream reader is built on an
// io.LimitReader — or a call with many (or large) notifications fails once the allowance is used up, the remaining
// notifications and the result never arriving.
func c10StreamUnbounded(c *Ctx, rule string) {
	n := 0
	for _, fn := range c.P.LibFns {
		if !clientSide(c, fn) {
			continue
		}
		ir.EachInstr(fn, func(_ *ssa.BasicBlock, _ int, in ssa.Instruction) {
			switch x := in.(type) {
			case *ssa.Store:
				f, _, ok := ir.FieldOf(x.Addr)
				if ok && f.Struct != nil && ir.TypeKey(f.Struct) == "net/http.Response" && f.Name == "Body" {
					n++
					c.R.Violate(rule, "response body replaced in "+fname(fn), c.Pos(x.Pos()),
						sprintf("%s replaces the Body of an HTTP response with another reader: a wrapper that limits (or otherwise alters) what can be read applies to event-stream answers too, whose length is the sum of all in-call notifications — the call fails in the middle of its stream", fname(fn)))
				}
			case *ssa.Call:
				if nm := ir.CallName(x); nm == "bufio.NewReader" || nm == "bufio.NewReaderSize" || nm == "bufio.NewScanner" {
					if oc := originCall(x.Call.Args[0]); oc != nil {
						if on := ir.CallName(oc); on == "io.LimitReader" || on == "net/http.MaxBytesReader" {
							n++
							c.R.Violate(rule, "stream reader on a limited body in "+fname(fn), c.Pos(x.Pos()),
								sprintf("%s reads a stream through %s: an event-stream answer is as long as all its notifications together, so the limit ends calls that are merely talkative", fname(fn), on))
						}
					}
				}
			}
		})
	}
	if n == 0 {
		c.R.Hold(rule, "answers are read from the body net/http hands over", "", "no client-side store into http.Response.Body, no stream reader on a LimitReader")
	}
}
