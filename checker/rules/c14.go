package rules

import (
	"go/token"
	"go/types"
	"sort"
	"strings"

	"golang.org/x/tools/go/ssa"

	"verif/checker/flow"
	"verif/checker/ir"
)

// C14 — all transports answer alike (sibling cross-check).
//
//	R-method-set        each of the 8 methods every transport serves is a key of the shared dispatch
//	                    table and a case of the stdio server's own switch
//	R-same-callee       for each method both routes end (through thin forwarders) in the same function
//	R-route-unconditional  a route that has found the method calls its handler on every path
//	R-decode-alike      every server decodes requests with the same JSON decoder configuration
//	R-ping              all ping routes produce a value whose JSON encoding is {}
//	R-wrapper-shape     every function that wraps a handler result into a JSONRPCResponse first tests the
//	                    result for *JSONRPCError and passes it through; the wrap is on the failed-test edge
//	R-error-passthrough returned error objects are *JSONRPCError (shared with C03)
//	R-client-decoders   Client and StdioClient decode each operation's answer with the same function,
//	                    after the same error-response test
//	R-result-presence   clients decide on the presence of "result", not on its value being non-nil
//	R-cap-guards / R-cap-wired  (shared with C16) capabilities are computed alike for every server
//	R-queue-answered    (shared with C03) a transport that queues its answers cannot skip one
func init() { Registry["C14"] = checkC14 }

var commonMethods = []string{"initialize", "ping", "tools/list", "tools/call", "prompts/list", "prompts/get", "resources/list", "resources/read"}

// forwardTarget follows thin forwarding wrappers: a function whose only call that feeds its return is a
// single static call to a library function.
func forwardTarget(c *Ctx, fn *ssa.Function, depth int) *ssa.Function {
	if depth > 3 || fn == nil {
		return fn
	}
	var calls []*ssa.Call
	ir.EachInstr(fn, func(_ *ssa.BasicBlock, _ int, in ssa.Instruction) {
		if call, ok := in.(*ssa.Call); ok {
			if sc := ir.StaticCallee(call); sc != nil && c.P.IsLib(sc) {
				calls = append(calls, call)
			}
		}
	})
	if len(calls) != 1 || len(fn.Blocks) != 1 {
		return fn
	}
	// the call's result is what is returned
	ret, ok := fn.Blocks[0].Instrs[len(fn.Blocks[0].Instrs)-1].(*ssa.Return)
	if !ok || len(ir.Results(ret)) == 0 {
		return fn
	}
	feeds := false
	for _, r := range ir.Results(ret) {
		if ex, ok := r.(*ssa.Extract); ok && ex.Tuple == ssa.Value(calls[0]) {
			feeds = true
		}
		if r == ssa.Value(calls[0]) {
			feeds = true
		}
	}
	if !feeds {
		return fn
	}
	return forwardTarget(c, ir.StaticCallee(calls[0]), depth+1)
}

func checkC14(c *Ctx) {
	c.R.Explanation = "Sibling cross-check between the shared dispatch table (Streamable HTTP, legacy SSE) and the stdio server's private switch, between the three result-to-message wrappers, and between the clients' decoders: " +
		"same method set, same terminal handler function per method, ping results that encode to {}, identical handling of handler-produced *JSONRPCError, same decoder and error test per client operation."
	c.R.NotDecided = "equality of answers for arbitrary registrations and inputs (needs execution); wording of error messages"
	c.R.Assumptions = []string{"the shared managers are deterministic functions of (registrations, request)"}
	c16Version(c)      // every server falls back to the same protocol version
	c01FreshBuffer(c) // an answer handed to a waiting call is the same bytes on every client transport
	c14NoLockAcrossDispatch(c)

	// ---- the routes: every dispatch of request methods to handlers — a map literal from method names to functions, or
	// a function comparing the request's method with string constants. The one serving most methods is the reference
	// (the shared table of Streamable HTTP and legacy SSE); every other one (stdio's private routing) is compared with it.
	type route struct {
		name    string
		where   *ssa.Function
		targets map[string]*ssa.Function
		pos     map[string]token.Pos
	}
	var routes []route
	for fn, es := range c.MapLiteralDispatch() {
		r := route{name: "the dispatch table built in " + fname(fn), where: fn, targets: map[string]*ssa.Function{}, pos: map[string]token.Pos{}}
		for _, e := range es {
			r.targets[e.Method] = e.Target
			r.pos[e.Method] = e.Pos
		}
		if _, ok := r.targets["tools/call"]; ok && !clientSide(c, fn) {
			routes = append(routes, r)
		}
	}
	firstLibCall := func(b *ssa.BasicBlock) *ssa.Function {
		seen := map[*ssa.BasicBlock]bool{}
		for cur := b; cur != nil && !seen[cur]; {
			seen[cur] = true
			for _, in := range cur.Instrs {
				if call, ok := in.(*ssa.Call); ok {
					if sc := ir.StaticCallee(call); sc != nil && c.P.IsLib(sc) {
						if strings.Contains(strings.ToLower(sc.Name()), "debugf") {
							continue
						}
						return sc
					}
				}
			}
			if len(cur.Succs) == 1 {
				cur = cur.Succs[0]
			} else {
				cur = nil
			}
		}
		return nil
	}
	for _, fn := range c.P.LibFns {
		if clientSide(c, fn) {
			continue
		}
		r := route{name: "the method switch in " + fname(fn), where: fn, targets: map[string]*ssa.Function{}, pos: map[string]token.Pos{}}
		for _, b := range fn.Blocks {
			if len(b.Instrs) == 0 {
				continue
			}
			ifi, ok := b.Instrs[len(b.Instrs)-1].(*ssa.If)
			if !ok {
				continue
			}
			bin, ok := ifi.Cond.(*ssa.BinOp)
			if !ok || bin.Op != token.EQL {
				continue
			}
			var cs string
			var other ssa.Value
			if s, ok := ir.ConstStr(bin.Y); ok {
				cs, other = s, bin.X
			} else if s, ok := ir.ConstStr(bin.X); ok {
				cs, other = s, bin.Y
			}
			if cs == "" || !derivesFromMethod(other) {
				continue
			}
			r.targets[cs] = firstLibCall(b.Succs[0])
			r.pos[cs] = b.Succs[0].Instrs[0].Pos()
		}
		if _, ok := r.targets["tools/call"]; ok && len(r.targets) >= 5 {
			routes = append(routes, r)
		}
	}
	sort.Slice(routes, func(i, j int) bool {
		if len(routes[i].targets) != len(routes[j].targets) {
			return len(routes[i].targets) > len(routes[j].targets)
		}
		return routes[i].name < routes[j].name
	})
	if len(routes) < 2 {
		c.R.Break("dispatch routes not discovered (%d found; expected the shared table and stdio's own routing)", len(routes))
		return
	}
	ref := routes[0]
	mapRoute := ref.targets
	c.R.Extra["routes"] = func() []string {
		var out []string
		for _, r := range routes {
			out = append(out, sprintf("%s (%d methods)", r.name, len(r.targets)))
		}
		return out
	}()
	var swFn *ssa.Function
	for _, r := range routes[1:] {
		swFn = r.where
		for _, m := range commonMethods {
			mt, inRef := ref.targets[m]
			st, inOther := r.targets[m]
			c.R.Check(inRef, "R-method-set", m+" in "+ref.name, "", "served by the reference route", sprintf("method %q is not served by %s", m, ref.name))
			c.R.Check(inOther, "R-method-set", m+" in "+r.name, "", "served by this route too", sprintf("method %q is not served by %s", m, r.name))
			if !inRef || !inOther {
				continue
			}
			a := forwardTarget(c, mt, 0)
			b := forwardTarget(c, st, 0)
			if m == "ping" {
				okA, okB := emptyObjectResult(a), emptyObjectResult(b)
				c.R.Check(okA && okB, "R-ping", "ping results ("+r.name+")", c.Pos(r.pos[m]), "both routes answer ping with a value that encodes to {}",
					sprintf("the ping results differ: %s encodes to {}: %v; %s encodes to {}: %v", fnameOrNil(a), okA, fnameOrNil(b), okB))
				continue
			}
			same := a != nil && a == b
			c.R.Check(same, "R-same-callee", m+" ("+r.name+")", c.Pos(r.pos[m]), "both routes end in "+fnameOrNil(a),
				sprintf("method %q is served by %s through %s but by %s through %s", m, fnameOrNil(a), ref.name, fnameOrNil(b), r.name))
		}
	}
	c.R.Min("R-method-set", 16)
	c.R.Min("R-same-callee", 7)
	c.R.Min("R-ping", 1)

	// ---- R-session-independent: the shared handlers never read request-independent state back from the
	// session object (transports pass different sessions: none, a throw-away one, a persistent one), so the
	// answer cannot depend on the transport's session mode.
	var roots []*ssa.Function
	for _, m := range commonMethods {
		roots = append(roots, mapRoute[m])
	}
	roots = append(roots, swFn)
	nRead := 0
	for _, fn := range sortedFuncs(c.ReachSync(roots...)) {
		ir.EachCall(fn, func(call ssa.CallInstruction) {
			if n := ir.CallName(call); n == "(mcp.Session).GetData" {
				nRead++
				c.R.Violate("R-session-independent", "session data read in "+fname(fn), c.Pos(call.Pos()),
					sprintf("%s reads data back from the session while serving a common method: servers whose transport passes no (or a throw-away) session answer differently", fname(fn)))
			}
		})
	}
	if nRead == 0 {
		c.R.Hold("R-session-independent", "common method handlers never read session data", "", "no (Session).GetData in code reachable from the 8 common handlers")
	}
	c.R.Min("R-session-independent", 1)

	// ---- R-route-unconditional: a route that has found the method always runs its handler. A check placed between
	// "found" and the handler answers requests on this route that the other route hands to the handler.
	nUncond := 0
	postDominates := func(h, from *ssa.BasicBlock) bool {
		if h == from {
			return true
		}
		for b := range flow.BlocksReachableAvoiding(from, map[*ssa.BasicBlock]bool{h: true}) {
			if len(b.Succs) == 0 {
				return false
			}
		}
		return true
	}
	for _, rl := range c.routeLookups() {
		fn, okv, hcall := rl.fn, rl.ok, rl.call
		if clientSide(c, fn) || hcall == nil {
			continue
		}
		for _, b := range fn.Blocks {
			if len(b.Instrs) == 0 {
				continue
			}
			ifi, ok := b.Instrs[len(b.Instrs)-1].(*ssa.If)
			if !ok || ifi.Cond != okv {
				continue
			}
			nUncond++
			c.R.Check(postDominates(hcall.Block(), b.Succs[0]), "R-route-unconditional", "found method runs its handler in "+fname(fn), c.Pos(hcall.Pos()),
				"every path from the successful lookup to a return passes through the handler call",
				sprintf("%s finds the method in its table but can return without calling the method's handler (a check sits between the lookup and the call): requests the other transports' routing hands to the handler are answered differently here", fname(fn)))
		}
	}
	for _, r := range routes {
		if r.where == nil || len(c.MapLiteralDispatch()[r.where]) > 0 {
			continue
		}
		for _, b := range r.where.Blocks {
			if len(b.Instrs) == 0 {
				continue
			}
			ifi, ok := b.Instrs[len(b.Instrs)-1].(*ssa.If)
			if !ok {
				continue
			}
			bin, ok := ifi.Cond.(*ssa.BinOp)
			if !ok || bin.Op != token.EQL {
				continue
			}
			cs, isC := ir.ConstStr(bin.Y)
			if !isC || !derivesFromMethod(bin.X) || r.targets[cs] == nil {
				continue
			}
			// the block of the case's handler call
			var hb *ssa.BasicBlock
			seen := map[*ssa.BasicBlock]bool{}
			for cur := b.Succs[0]; cur != nil && !seen[cur] && hb == nil; {
				seen[cur] = true
				for _, in := range cur.Instrs {
					if call, ok := in.(*ssa.Call); ok && ir.StaticCallee(call) == r.targets[cs] {
						hb = cur
					}
				}
				if len(cur.Succs) == 1 {
					cur = cur.Succs[0]
				} else {
					cur = nil
				}
			}
			nUncond++
			c.R.Check(hb != nil && postDominates(hb, b.Succs[0]), "R-route-unconditional", cs+" runs its handler in "+fname(r.where), c.Pos(r.pos[cs]),
				"the case calls the handler on every path", sprintf("the %q case of %s can return without calling %s", cs, fname(r.where), fnameOrNil(r.targets[cs])))
		}
	}
	c.R.Min("R-route-unconditional", 2*len(routes)) // at least one obligation per discovered route

	c14DecodeAlike(c)
	c14Wrappers(c)
	c03Passthrough(c)
	c14ClientDecoders(c)
	// the handshake answer: capabilities are computed alike for every transport's server
	c16Caps(c)
	c14ResultPresence(c)
	c03QueueAnswered(c) // a transport that queues its answers must not be able to skip one: the others answer every request
	c02ErrorEnvelope(c) // every client transport hands the client the whole error envelope
	c03EncodeFailureAnswered(c) // an unencodable result is answered with -32603 by every way of answering
	scannersBounded(c, c.P.LibFns, "R-scanner-bounded") // a transport reading with a default Scanner stops at a request the others answer
	if x := newC04ctx(c); x != nil {
		x.issuePoint() // what counts as the session-opening initialize is decided like everywhere else: by id and method
	}
}

func fnameOrNil(f *ssa.Function) string {
	if f == nil {
		return "<nothing>"
	}
	return fname(f)
}

// emptyObjectResult: every result value fn returns for the message is an empty map literal, an
// empty struct, or a response constructed around one.
func emptyObjectResult(fn *ssa.Function) bool {
	if fn == nil {
		return false
	}
	ok := true
	any := false
	var isEmpty func(v ssa.Value, d int) bool
	isEmpty = func(v ssa.Value, d int) bool {
		if d > 5 {
			return false
		}
		switch x := v.(type) {
		case *ssa.MakeInterface:
			return isEmpty(x.X, d+1)
		case *ssa.ChangeType:
			return isEmpty(x.X, d+1)
		case *ssa.MakeMap:
			for _, r := range *x.Referrers() {
				if _, upd := r.(*ssa.MapUpdate); upd {
					return false
				}
			}
			return true
		case *ssa.Const:
			if st, isSt := x.Type().Underlying().(*types.Struct); isSt && st.NumFields() == 0 {
				return true
			}
		case *ssa.UnOp:
			if al, isAl := x.X.(*ssa.Alloc); isAl {
				if st, isSt := al.Type().(*types.Pointer).Elem().Underlying().(*types.Struct); isSt && st.NumFields() == 0 {
					return true
				}
			}
		case *ssa.Call:
			// a response constructor: the result argument must be empty
			if sc := ir.StaticCallee(x); sc != nil {
				for _, a := range x.Call.Args {
					if _, isIface := a.Type().Underlying().(*types.Interface); isIface {
						if isEmpty(a, d+1) {
							return true
						}
					}
				}
			}
		}
		return false
	}
	ir.EachInstr(fn, func(_ *ssa.BasicBlock, _ int, in ssa.Instruction) {
		r, isRet := in.(*ssa.Return)
		if !isRet || len(ir.Results(r)) == 0 {
			return
		}
		any = true
		if !isEmpty(ir.Results(r)[0], 0) {
			ok = false
		}
	})
	return ok && any
}

// ---------------------------------------------------------------- wrappers
func c14Wrappers(c *Ctx) {
	respT := c.P.RootNamed("JSONRPCResponse")
	n := 0
	for _, fn := range c.P.LibFns {
		if !serverSide(c, fn) {
			continue
		}
		ir.EachInstr(fn, func(_ *ssa.BasicBlock, _ int, in ssa.Instruction) {
			var wrapped ssa.Value
			var at ssa.Instruction
			switch x := in.(type) {
			case *ssa.Store:
				f, _, ok := ir.FieldOf(x.Addr)
				if !ok || f.Struct != respT || f.Name != "Result" {
					return
				}
				wrapped, at = ir.Unwrap(x.Val), x
			case *ssa.Call:
				// response constructor call: newJSONRPCResponse(id, result)
				sc := ir.StaticCallee(x)
				if sc == nil || sc.Signature.Results().Len() != 1 || ir.TypeStr(sc.Signature.Results().At(0).Type()) != "*mcp.JSONRPCResponse" || len(x.Call.Args) != 2 {
					return
				}
				wrapped, at = ir.Unwrap(x.Call.Args[1]), x
			default:
				return
			}
			// only results of request processing (a tuple result of a call, or a parameter fed with one); a literal
			// result (ping etc.) has nothing to pass through
			var holder *ssa.Function = fn
			var judge func(f *ssa.Function, at ssa.Instruction, v ssa.Value, d int) (applicable, ok bool)
			judge = func(f *ssa.Function, at ssa.Instruction, v ssa.Value, d int) (bool, bool) {
				switch w := v.(type) {
				case *ssa.Extract, *ssa.Phi:
					if wrapGuarded(f, at, v) {
						return true, true
					}
					holder = f
					return true, false
				case *ssa.Parameter:
					if wrapGuarded(f, at, v) {
						return true, true // the helper itself tests what it was handed
					}
					if d > 3 {
						return false, true
					}
					idx := -1
					for i, p := range f.Params {
						if p == w {
							idx = i
						}
					}
					any := false
					for _, e := range ir.Callers(c.G, f) {
						if e.Site == nil || !c.P.IsLib(e.Caller.Func) || idx < 0 || idx >= len(e.Site.Common().Args) {
							continue
						}
						ap, ok := judge(e.Caller.Func, e.Site, ir.Unwrap(e.Site.Common().Args[idx]), d+1)
						if ap && !ok {
							return true, false
						}
						any = any || ap
					}
					return any, true
				}
				return false, true
			}
			applicable, guardOK := judge(fn, at, wrapped, 0)
			if !applicable {
				return
			}
			n++
			c.R.Check(guardOK, "R-wrapper-shape", "result wrapped in "+fname(fn), c.Pos(at.Pos()),
				"the handler result is tested for *JSONRPCError (pass-through) before it is wrapped as a result",
				sprintf("%s wraps a handler result into a success response without first passing a *JSONRPCError through unchanged (checked in %s): an error produced by a handler reaches the peer as a result", fname(fn), fname(holder)))
		})
	}
	c.R.Min("R-wrapper-shape", 4)
	_ = n
}

// wrapGuarded: instruction `at` is reachable only through the failed edge of a comma-ok test of v for *JSONRPCError
// (or the default arm of a type switch covering it).
func wrapGuarded(fn *ssa.Function, at ssa.Instruction, v ssa.Value) bool {
	for _, g := range flow.Guards(fn, at.Block()) {
		ex, ok := g.If.Cond.(*ssa.Extract)
		if !ok || ex.Index != 1 || g.Branch {
			continue
		}
		ta, ok := ex.Tuple.(*ssa.TypeAssert)
		if !ok {
			continue
		}
		if ir.TypeStr(ta.AssertedType) == "*mcp.JSONRPCError" && ir.Unwrap(ta.X) == v {
			return true
		}
	}
	return false
}

// ---------------------------------------------------------------- client decoders
func c14ClientDecoders(c *Ctx) {
	conn := c.P.RootNamed("Connector")
	if conn == nil {
		c.R.Break("anchor not found: Connector")
		return
	}
	iface := conn.Underlying().(*types.Interface)
	impls := c.P.Implementers(iface)
	isDecoder := func(f *ssa.Function) bool {
		sig := f.Signature
		if sig.Params().Len() != 1 || sig.Results().Len() != 2 {
			return false
		}
		return ir.TypeStr(sig.Params().At(0).Type()) == "*encoding/json.RawMessage" && ir.TypeStr(sig.Results().At(1).Type()) == "error" &&
			strings.HasSuffix(ir.TypeStr(sig.Results().At(0).Type()), "Result")
	}
	isErrTest := func(f *ssa.Function) bool {
		sig := f.Signature
		return sig.Params().Len() == 1 && sig.Results().Len() == 1 && ir.TypeStr(sig.Params().At(0).Type()) == "*encoding/json.RawMessage" && ir.TypeStr(sig.Results().At(0).Type()) == "bool"
	}
	for i := 0; i < iface.NumMethods(); i++ {
		mname := iface.Method(i).Name()
		per := map[string]string{}
		var order []string
		var missing []string
		for _, T := range impls {
			m := c.P.Method(T, mname)
			if m == nil {
				continue
			}
			var dec *ssa.Call
			var errTest *ssa.Call
			viaHelper := false
			ir.EachInstr(m, func(_ *ssa.BasicBlock, _ int, in ssa.Instruction) {
				if call, ok := in.(*ssa.Call); ok {
					if sc := ir.StaticCallee(call); sc != nil && c.P.IsLib(sc) {
						if isDecoder(sc) {
							dec = call
						}
						if isErrTest(sc) {
							errTest = call
						}
					}
				}
			})
			if dec == nil {
				// the decoder may be handed, as a function value, to a helper that tests for an error answer and then
				// calls it (decodeAnswer(raw, label, parseX)): judged inside the helper, named after the decoder
				ir.EachInstr(m, func(_ *ssa.BasicBlock, _ int, in ssa.Instruction) {
					call, ok := in.(*ssa.Call)
					if !ok || dec != nil {
						return
					}
					sc := ir.StaticCallee(call)
					if sc == nil || !c.P.IsLib(sc) {
						return
					}
					for ai, a := range call.Call.Args {
						d := funcValue(a)
						if d == nil || ai >= len(sc.Params) {
							continue
						}
						// a thin wrapper around a decoder (parseInitializeAnswer) counts as the decoder it wraps
						inner := d
						ir.EachCall(d, func(ic ssa.CallInstruction) {
							if isc := ir.StaticCallee(ic); isc != nil && c.P.IsLib(isc) && isDecoder(isc) {
								inner = isc
							}
						})
						if !isDecoder(d) && inner == d {
							continue
						}
						// inside the helper: the call of the parameter sits on the not-an-error edge of the error test
						var pcall, ptest *ssa.Call
						ir.EachInstr(sc, func(_ *ssa.BasicBlock, _ int, hin ssa.Instruction) {
							hc, ok := hin.(*ssa.Call)
							if !ok {
								return
							}
							if hc.Call.Value == ssa.Value(sc.Params[ai]) {
								pcall = hc
							}
							if isc := ir.StaticCallee(hc); isc != nil && c.P.IsLib(isc) && isErrTest(isc) {
								ptest = hc
							}
						})
						if pcall == nil {
							continue
						}
						tn := ir.TypeKey(T)
						per[tn] = fname(inner)
						order = append(order, tn)
						guarded := false
						if ptest != nil {
							for _, g := range flow.Guards(sc, pcall.Block()) {
								if g.If.Cond == ssa.Value(ptest) && !g.Branch {
									guarded = true
								}
							}
						}
						c.R.Check(guarded, "R-client-decoders", tn+"."+mname+": error test first", c.Pos(call.Pos()), "the answer is decoded only on the not-an-error edge",
							sprintf("%s.%s decodes the answer (through %s) without first testing it for a JSON-RPC error", tn, mname, fname(sc)))
						dec = call
						viaHelper = true
					}
				})
			}
			if dec == nil {
				missing = append(missing, ir.TypeKey(T))
			}
			if dec == nil || viaHelper {
				continue
			}
			tn := ir.TypeKey(T)
			// a decoder that wraps "test for an error answer, then decode" around another decoder
			// (decodeInitializeResponse): judged inside, and named after the decoder it ends in
			for depth := 0; depth < 2; depth++ {
				wrapper := ir.StaticCallee(dec)
				var innerDec, innerTest *ssa.Call
				ir.EachInstr(wrapper, func(_ *ssa.BasicBlock, _ int, in ssa.Instruction) {
					if call, ok := in.(*ssa.Call); ok {
						if sc := ir.StaticCallee(call); sc != nil && c.P.IsLib(sc) {
							if isDecoder(sc) {
								innerDec = call
							}
							if isErrTest(sc) {
								innerTest = call
							}
						}
					}
				})
				if innerDec == nil {
					break
				}
				m, dec, errTest = wrapper, innerDec, innerTest
			}
			per[tn] = fname(ir.StaticCallee(dec))
			order = append(order, tn)
			// the error test guards the decoder
			guarded := false
			if errTest != nil {
				for _, g := range flow.Guards(m, dec.Block()) {
					if g.If.Cond == ssa.Value(errTest) && !g.Branch {
						guarded = true
					}
				}
			}
			if !guarded {
				// the test may live in a helper that turns an error answer into a Go error: err := helper(raw); if err != nil { return }
				ir.EachInstr(m, func(_ *ssa.BasicBlock, _ int, in ssa.Instruction) {
					call, ok := in.(*ssa.Call)
					if !ok {
						return
					}
					sc := ir.StaticCallee(call)
					if sc == nil || !c.P.IsLib(sc) || sc.Signature.Results().Len() != 1 || ir.TypeStr(sc.Signature.Results().At(0).Type()) != "error" {
						return
					}
					takesRaw := false
					for _, a := range call.Call.Args {
						if ir.TypeStr(a.Type()) == "*encoding/json.RawMessage" {
							takesRaw = true
						}
					}
					tests := false
					ir.EachCall(sc, func(ic ssa.CallInstruction) {
						if isc := ir.StaticCallee(ic); isc != nil && isErrTest(isc) {
							tests = true
						}
					})
					if !takesRaw || !tests {
						return
					}
					for _, g := range flow.Guards(m, dec.Block()) {
						bin, ok := g.If.Cond.(*ssa.BinOp)
						if !ok || (bin.X != ssa.Value(call) && bin.Y != ssa.Value(call)) {
							continue
						}
						if !ir.IsNilConst(bin.X) && !ir.IsNilConst(bin.Y) {
							continue
						}
						if (bin.Op == token.NEQ && !g.Branch) || (bin.Op == token.EQL && g.Branch) {
							guarded = true
						}
					}
				})
			}
			c.R.Check(guarded, "R-client-decoders", tn+"."+mname+": error test first", c.Pos(dec.Pos()), "the answer is decoded only on the not-an-error edge",
				sprintf("%s.%s decodes the answer without first testing it for a JSON-RPC error", tn, mname))
		}
		// an operation one client decodes with the library's decoder and another client decodes some other way (a generic
		// json.Unmarshal behind a helper) does not answer alike
		if len(per) >= 1 && len(missing) > 0 {
			sort.Strings(missing)
			var with []string
			for t, d := range per {
				with = append(with, t+" with "+d)
			}
			sort.Strings(with)
			c.R.Violate("R-client-decoders", mname+": same decoder", "", sprintf("the answer of %s is decoded by %s, but %s does not use that decoder (no library decoder for the operation's result is called by its %s): what the clients return for the same answer differs (raw schemas, tolerant number handling)", mname, strings.Join(with, ", "), strings.Join(missing, ", "), mname))
			continue
		}
		if len(per) < 2 {
			continue
		}
		sort.Strings(order)
		same := true
		for _, t := range order {
			if per[t] != per[order[0]] {
				same = false
			}
		}
		c.R.Check(same, "R-client-decoders", mname+": same decoder", "", "all clients decode with "+per[order[0]],
			sprintf("the clients decode the answer of %s with different functions: %v", mname, per))
	}
	c.R.Min("R-client-decoders", 14)
}

// ---------------------------------------------------------------- R-result-presence
// Every client decides "this message carries the answer" by the PRESENCE of the "result" member (comma-ok lookup). A
// transport that tests the looked-up value against nil instead treats `"result": null` — what a handler returning
// (nil, nil) produces — as "no answer yet", while its siblings return a zero result: the same call ends differently
// depending on the transport.
func c14ResultPresence(c *Ctx) {
	n := 0
	for _, fn := range c.P.LibFns {
		if !clientSide(c, fn) {
			continue
		}
		ir.EachInstr(fn, func(_ *ssa.BasicBlock, _ int, in ssa.Instruction) {
			lk, ok := in.(*ssa.Lookup)
			if !ok {
				return
			}
			if k, ok := ir.ConstStr(ir.Unwrap(lk.Index)); !ok || k != "result" {
				return
			}
			if _, isMap := lk.X.Type().Underlying().(*types.Map); !isMap {
				return
			}
			n++
			bad := false
			if !lk.CommaOk {
				// plain lookup: any nil comparison of the value decides on emptiness, not presence
				for _, r := range *lk.Referrers() {
					if bin, ok := r.(*ssa.BinOp); ok {
						if _, _, ok := nilCompare(bin); ok {
							bad = true
						}
					}
				}
			}
			c.R.Check(!bad, "R-result-presence", "\"result\" looked up in "+fname(fn), c.Pos(lk.Pos()), "decided by presence of the member (comma-ok)",
				sprintf("%s decides whether a message carries the answer by comparing the \"result\" value with nil: a null result (handler returned nil) is taken for a missing one on this transport only", fname(fn)))
		})
	}
	c.R.Min("R-result-presence", 3)
}

// c14DecodeAlike (R-decode-alike): what a handler sees of a request's params depends on how the transport decoded the
// request (UseNumber turns every number into json.Number, DisallowUnknownFields rejects what the others accept). All
// server-side sites that decode into a *JSONRPCRequest must use one configuration.
func c14DecodeAlike(c *Ctx) {
	type site struct {
		fn   *ssa.Function
		pos  token.Pos
		mode string
	}
	var sites []site
	isReqPtr := func(v ssa.Value) bool {
		t := ir.TypeStr(ir.Unwrap(v).Type())
		return t == "*mcp.JSONRPCRequest"
	}
	for _, fn := range c.P.LibFns {
		if clientSide(c, fn) {
			continue
		}
		ir.EachCall(fn, func(call ssa.CallInstruction) {
			cc := call.Common()
			switch ir.CallName(call) {
			case "encoding/json.Unmarshal":
				if len(cc.Args) == 2 && isReqPtr(cc.Args[1]) {
					sites = append(sites, site{fn, call.Pos(), "default"})
				}
			case "(*encoding/json.Decoder).Decode":
				if len(cc.Args) == 2 && isReqPtr(cc.Args[1]) {
					var opts []string
					if refs := cc.Args[0].Referrers(); refs != nil {
						for _, r := range *refs {
							if oc, ok := r.(ssa.CallInstruction); ok {
								switch n := ir.CallName(oc); n {
								case "(*encoding/json.Decoder).UseNumber", "(*encoding/json.Decoder).DisallowUnknownFields":
									opts = append(opts, strings.TrimPrefix(n, "(*encoding/json.Decoder)."))
								}
							}
						}
					}
					sort.Strings(opts)
					mode := "default"
					if len(opts) > 0 {
						mode = strings.Join(opts, "+")
					}
					sites = append(sites, site{fn, call.Pos(), mode})
				}
			}
		})
	}
	cnt := map[string]int{}
	for _, s := range sites {
		cnt[s.mode]++
	}
	major := ""
	for m, n := range cnt {
		if n > cnt[major] || (n == cnt[major] && m < major) {
			major = m
		}
	}
	seen := map[string]int{}
	for _, s := range sites {
		construct := "request decoded in " + fname(s.fn)
		seen[construct]++
		if seen[construct] > 1 {
			construct = sprintf("%s#%d", construct, seen[construct])
		}
		c.R.Check(s.mode == major, "R-decode-alike", construct, c.Pos(s.pos), "decoder configuration: "+s.mode,
			sprintf("%s decodes requests with decoder configuration %q while the other servers use %q: the same request reaches the shared handlers with different argument values (e.g. json.Number instead of float64) depending on the transport", fname(s.fn), s.mode, major))
	}
	c.R.Min("R-decode-alike", 3)
}
