package rules

import (
	"go/token"
	"go/types"
	"sort"
	"strings"

	"golang.org/x/tools/go/ssa"

	"verif/checker/flow"
	"verif/checker/ir"
)

// C20 — no data races in servers or clients (lockset race detection).
//
//	R-guarded-by   a field of a concurrently used struct (one that declares a mutex or an atomic)
//	               that is written after construction must be accessed under one common mutex
//	               (writes exclusively) at every post-construction access
//	R-unguarded    such a field for which no access holds any mutex at all
//	R-process-state     exec.Cmd.ProcessState is read only after Wait is known to have returned
//	R-loop-capture      (shared with C05)
//	R-unguarded also covers long-lived objects without any lock: written only by construction code
//	R-params-copied     (shared with C05)
//	R-writer-joined     goroutines handed a handler's ResponseWriter are joined before the handler returns
//	R-guarded-value     every use of a map loaded from a member that is updated in place under a lock holds that lock,
//	                    also after the value was returned, passed on or captured
//	R-exception         publish-by-close idiom recognised by shape
//	R-fanout-write      goroutines started in a loop write variables captured by reference only under a lock
//	R-package-state     outside initialisation nothing mutates a package-level variable (or an unsafe object held in one) without a lock
func init() { Registry["C20"] = checkC20 }

// The one recognised idiom for an unsynchronised field ("publish by close"): the field is written in exactly one
// function, that function is a closure run by (*sync.Once).Do, and the same closure closes a channel held in a field
// of the same struct after the write. Readers wait for that channel (directly or through a started flag) before they
// read. The conditions on the writer are checked on every run for every field that would otherwise be reported.
const publishByCloseReason = "publish-by-close: written once inside a sync.Once closure that then closes a latch channel of the same struct; read only after the latch"

func concurrentStruct(T *types.Named) bool {
	if T == nil {
		return false
	}
	st, ok := T.Underlying().(*types.Struct)
	if !ok {
		return false
	}
	if structHasSync(st, 0) {
		return true
	}
	// a record published through an atomic.Pointer[T] field of a struct meant for concurrent use: its members are
	// shared between the goroutines that share the publisher
	return publishedRecords(T.Obj().Pkg())[T]
}

var publishedCache = map[*types.Package]map[*types.Named]bool{}

func publishedRecords(pkg *types.Package) map[*types.Named]bool {
	if pkg == nil {
		return nil
	}
	if m, ok := publishedCache[pkg]; ok {
		return m
	}
	out := map[*types.Named]bool{}
	publishedCache[pkg] = out
	var recordOf func(t types.Type, d int) *types.Named
	recordOf = func(t types.Type, d int) *types.Named {
		if d > 4 {
			return nil
		}
		switch x := t.(type) {
		case *types.Named:
			// atomic.Pointer[T]
			if x.Obj().Pkg() != nil && x.Obj().Pkg().Path() == "sync/atomic" && x.TypeArgs() != nil && x.TypeArgs().Len() == 1 {
				if n, ok := x.TypeArgs().At(0).(*types.Named); ok && n.Obj().Pkg() == pkg {
					if _, isSt := n.Underlying().(*types.Struct); isSt {
						return n
					}
				}
			}
		}
		return nil
	}
	var work []*types.Named
	for _, name := range pkg.Scope().Names() {
		tn, ok := pkg.Scope().Lookup(name).(*types.TypeName)
		if !ok {
			continue
		}
		n, ok := tn.Type().(*types.Named)
		if !ok {
			continue
		}
		if st, ok := n.Underlying().(*types.Struct); ok && structHasSync(st, 0) {
			work = append(work, n)
		}
	}
	for len(work) > 0 {
		n := work[0]
		work = work[1:]
		st := n.Underlying().(*types.Struct)
		for i := 0; i < st.NumFields(); i++ {
			if r := recordOf(st.Field(i).Type(), 0); r != nil && !out[r] {
				if rs, ok := r.Underlying().(*types.Struct); ok && !structHasSync(rs, 0) {
					out[r] = true
					work = append(work, r)
				}
			}
		}
	}
	return out
}

func structHasSync(st *types.Struct, depth int) bool {
	for i := 0; i < st.NumFields(); i++ {
		t := st.Field(i).Type()
		if ir.IsSyncType(t) {
			return true
		}
		if _, named := t.(*types.Named); !named && depth < 2 {
			if inner, ok := t.Underlying().(*types.Struct); ok && structHasSync(inner, depth+1) {
				return true
			}
		}
	}
	return false
}

func checkC20(c *Ctx) {
	c.R.Explanation = "Lockset-based race detection over every struct of the library that declares a mutex or an atomic (i.e. is meant for concurrent use): " +
		"for each field written after construction, all post-construction accesses (outside construction-only functions and outside the allocating function) must hold one common mutex, " +
		"writes exclusively. Lock identity is type-level; must-hold locksets are propagated through synchronous call sites over the VTA call graph."
	c.R.NotDecided = "races inside user callbacks; happens-before established through channels/goroutine start beyond the listed checked exceptions; fields of structs without any sync primitive"
	c.R.Assumptions = []string{
		"the analysis over-approximates concurrency: any two post-construction accesses may run concurrently",
		"construction-only code (reachable solely from New*/new* constructors and option closures) runs before publication",
	}
	accs := CollectAccesses(c)
	guards := GuardTable(c, accs)
	nFields := 0
	var unguarded []string
	for _, g := range guards {
		if !concurrentStruct(g.OwnerT) {
			// a record type without its own lock: it is shared if some of its post-construction accesses
			// are made under a lock (e.g. registry records mutated under the registry's mutex) — then all must be.
			// The lock must be one of a struct that HOLDS such records (a member, map or slice of them): an object a
			// caller hands in (a request it built) is not made shared by being touched while some unrelated lock
			// happens to be held.
			if g.Guard == "" || !holdsRecordsOf(lockOwnerNamed(c, g.Guard), g.OwnerT) {
				continue
			}
		}
		nFields++
		if g.Guard == "" && publishByClose(c, g) {
			c.R.Hold("R-exception", g.Field, c.Pos(g.Accesses[0].Pos), publishByCloseReason)
			c20FlagAfterPublish(c, g)
			continue
		}
		if g.Guard == "" {
			unguarded = append(unguarded, g.Field)
			var fns []string
			seen := map[string]bool{}
			for _, a := range g.Accesses {
				k := kindClass(a) + " in " + fname(a.Fn)
				if !seen[k] {
					seen[k] = true
					fns = append(fns, k)
				}
			}
			sort.Strings(fns)
			c.R.Violate("R-unguarded", g.Field, c.Pos(g.Accesses[0].Pos),
				sprintf("field %s of concurrently used struct %s is written after construction (%d writes) and no access holds any mutex: %s",
					g.Field, g.Owner, g.Writes, strings.Join(fns, "; ")))
			continue
		}
		cons := accessConstructs(g)
		for i, a := range g.Accesses {
			if !a.Locks.Has(g.Guard) {
				c.R.Violate("R-guarded-by", cons[i], c.Pos(a.Pos),
					sprintf("%s (%s) of %s in %s without %s, which guards its other accesses; held: [%s]", a.Kind, kindClass(a), g.Field, fname(a.Fn), g.Guard, strings.Join(a.Locks.Keys(), ",")))
				continue
			}
			if a.Write && !a.Locks.HasWrite(g.Guard) {
				c.R.Violate("R-guarded-by", cons[i], c.Pos(a.Pos),
					sprintf("%s of %s in %s holds %s only in shared (RLock) mode", a.Kind, g.Field, fname(a.Fn), g.Guard))
				continue
			}
			c.R.Hold("R-guarded-by", cons[i], c.Pos(a.Pos), sprintf("%s %s holds %s", a.Kind, kindClass(a), g.Guard))
		}
	}
	c.R.Extra["mutable_shared_fields"] = nFields
	c.R.Extra["unguarded_fields"] = unguarded
	c.R.Extra["lock_aliases"] = c.Locks().Aliases()
	c.R.Min("R-guarded-by", 100)
	if nFields < 25 {
		c.R.Break("only %d mutable fields of concurrent structs discovered; expected >= 25", nFields)
	}
	c20ProcessState(c)
	c05LoopCapture(c, "R-loop-capture")
	c20GuardedValue(c, guards)
	c20LongLivedPlain(c, accs)
	c20WriterJoined(c)
	timerCallbacksDoNotWrite(c, "R-timer-writes")
	c09PublishAfterHeader(c, "R-publish-after-header") // the handler and the senders it has just admitted write one ResponseWriter
	c20PackageState(c)
	c20FanoutWrite(c)
	c20ClosureState(c)
	c20SharedPointeeWrite(c)
	// a message that keeps the caller's map is marshalled later by another goroutine while the caller may reuse the map
	c05ParamsCopied(c, "R-params-copied")
}

// publishByClose: see publishByCloseReason.
func publishByClose(c *Ctx, g *FieldGuard) bool {
	var w *ssa.Function
	var writes []Access
	for _, a := range g.Accesses {
		if a.Write {
			if w != nil && w != a.Fn {
				return false
			}
			w = a.Fn
			writes = append(writes, a)
		}
	}
	if w == nil || w.Parent() == nil {
		return false
	}
	// w is the closure handed to a (*sync.Once).Do in its parent
	once := false
	ir.EachInstr(w.Parent(), func(_ *ssa.BasicBlock, _ int, in ssa.Instruction) {
		call, ok := in.(*ssa.Call)
		if !ok || ir.CallName(call) != "(*sync.Once).Do" || len(call.Call.Args) < 2 {
			return
		}
		if mc, ok := call.Call.Args[1].(*ssa.MakeClosure); ok && mc.Fn == ssa.Value(w) {
			once = true
		}
	})
	if !once {
		return false
	}
	// every write is followed, in w, by a close of a channel field of the same struct
	for _, a := range writes {
		ok := false
		ir.EachInstr(w, func(_ *ssa.BasicBlock, _ int, in ssa.Instruction) {
			call, isCall := in.(*ssa.Call)
			if !isCall || ir.CallName(call) != "builtin.close" {
				return
			}
			f, _, isField := ir.LoadedField(call.Call.Args[0])
			if isField && f.Struct != nil && ir.TypeKey(f.Struct) == ir.TypeKey(g.OwnerT) && flow.Dominates(a.Instr, call) {
				ok = true
			}
		})
		if !ok {
			return false
		}
	}
	return true
}

// ---------------------------------------------------------------- R-process-state
// (*exec.Cmd).Wait writes Cmd.ProcessState (and Process's internal state) without synchronisation; the library calls
// Wait in a dedicated watcher goroutine. Any other library code that reads ProcessState races with that write unless
// it first learned that Wait has returned — in the same function it called Wait itself, or received from a channel.
func c20ProcessState(c *Ctx) {
	n := 0
	for _, fn := range c.P.LibFns {
		ir.EachInstr(fn, func(_ *ssa.BasicBlock, _ int, in ssa.Instruction) {
			fa, ok := in.(*ssa.FieldAddr)
			if !ok {
				return
			}
			key, _, _, _ := ir.FullField(fa)
			if key != "os/exec.Cmd.ProcessState" {
				return
			}
			n++
			ordered := false
			ir.EachInstr(fn, func(_ *ssa.BasicBlock, _ int, x ssa.Instruction) {
				switch y := x.(type) {
				case *ssa.Call:
					if ir.CallName(y) == "(*os/exec.Cmd).Wait" && flow.Dominates(y, fa) {
						ordered = true
					}
				case *ssa.UnOp:
					if y.Op == token.ARROW && flow.Dominates(y, fa) {
						ordered = true
					}
				}
			})
			c.R.Check(ordered, "R-process-state", "exec.Cmd.ProcessState read in "+fname(fn), c.Pos(fa.Pos()), "read only after Wait returned in this goroutine / after a receive that orders it",
				sprintf("%s reads exec.Cmd.ProcessState, which (*exec.Cmd).Wait writes in the process-watcher goroutine without synchronisation: polling it while the child exits is a data race", fname(fn)))
		})
	}
	if n == 0 {
		c.R.Hold("R-process-state", "no unsynchronised read of exec.Cmd.ProcessState", "", "the child's state is learned through the watcher's channel")
	}
}

// c20GuardedValue (R-guarded-value): a map that is mutated in place under a lock must also be READ under that lock —
// not only where the member is loaded, but wherever the loaded map value is used: a reference taken under the lock and
// handed out (returned, passed on, captured) is still the shared map. Every lookup, range or len of such a value, in
// this function, its callees or the callers it is returned to, holds the guard. (Members that are only ever replaced
// wholesale are not concerned: the old map is immutable once unpublished.)
func c20GuardedValue(c *Ctx, guards []*FieldGuard) {
	ls := c.Locks()
	n := 0
	for _, g := range guards {
		if g.Guard == "" {
			continue
		}
		_, isMap := g.Accesses[0].Type.Underlying().(*types.Map)
		_, isSlice := g.Accesses[0].Type.Underlying().(*types.Slice)
		if !isMap && !isSlice {
			continue
		}
		kind := "map"
		if isSlice {
			kind = "slice"
		}
		inPlace := false
		for _, a := range g.Accesses {
			if a.Kind == "map-update" || a.Kind == "map-delete" || a.Kind == "elem-store" {
				inPlace = true
			}
			// append(field[:i], …): the elements behind i are shifted inside the shared backing array
			if isSlice && a.Kind == "load" {
				if ld, ok := a.Instr.(*ssa.UnOp); ok && ld.Referrers() != nil {
					for _, r := range *ld.Referrers() {
						sl, ok := r.(*ssa.Slice)
						if !ok || sl.X != ssa.Value(ld) || sl.Referrers() == nil {
							continue
						}
						for _, rr := range *sl.Referrers() {
							if call, ok := rr.(*ssa.Call); ok {
								if b, ok := call.Call.Value.(*ssa.Builtin); ok && b.Name() == "append" && len(call.Call.Args) > 0 && call.Call.Args[0] == ssa.Value(sl) {
									inPlace = true
								}
							}
						}
					}
				}
			}
		}
		if !inPlace {
			continue
		}
		type key struct {
			v  ssa.Value
			fn *ssa.Function
		}
		seen := map[key]bool{}
		reported := map[ssa.Instruction]bool{}
		var uses func(v ssa.Value, fn *ssa.Function, d int, via string)
		check := func(at ssa.Instruction, fn *ssa.Function, what, via string) {
			if reported[at] {
				return
			}
			reported[at] = true
			n++
			ok := ls.At(at).Has(g.Guard)
			pos := at.Pos()
			if !pos.IsValid() {
				pos = fn.Pos()
			}
			c.R.Check(ok, "R-guarded-value", sprintf("%s of the %s %s in %s", what, g.Field, kind, fname(fn)), c.Pos(pos), "holds "+g.Guard,
				sprintf("%s does a %s on the %s of %s without holding %s%s: it is updated in place under that lock by other goroutines, so this is an unsynchronised read of shared memory (for a map the runtime may abort with 'concurrent map read and map write'; for a slice, elements shift under the reader)", fname(fn), what, kind, g.Field, g.Guard, via))
		}
		uses = func(v ssa.Value, fn *ssa.Function, d int, via string) {
			if d > 5 || v == nil || seen[key{v, fn}] || v.Referrers() == nil {
				return
			}
			seen[key{v, fn}] = true
			for _, r := range *v.Referrers() {
				switch x := r.(type) {
				case *ssa.Lookup:
					if x.X == v {
						check(x, fn, "lookup", via)
					}
				case *ssa.Range:
					if x.X == v {
						check(x, fn, "range", via)
					}
				case *ssa.Phi:
					uses(x, fn, d, via)
				case *ssa.Slice:
					if x.X == v {
						uses(x, fn, d, via) // a re-slice shares the backing array
					}
				case *ssa.IndexAddr:
					if x.X == v && x.Referrers() != nil {
						for _, er := range *x.Referrers() {
							if ld, ok := er.(*ssa.UnOp); ok && ld.Op == token.MUL {
								check(ld, fn, "element read", via)
							}
						}
					}
				case *ssa.ChangeType:
					uses(x, fn, d, via)
				case *ssa.MakeInterface:
					// boxed: not followed
				case *ssa.Store:
					if al, ok := x.Addr.(*ssa.Alloc); ok && x.Val == v {
						for _, lr := range *al.Referrers() {
							if ld, ok := lr.(*ssa.UnOp); ok && ld.Op == token.MUL {
								uses(ld, fn, d, via)
							}
						}
					}
				case *ssa.MakeClosure:
					if cl, ok := x.Fn.(*ssa.Function); ok {
						for i, b := range x.Bindings {
							if b == v && i < len(cl.FreeVars) {
								uses(cl.FreeVars[i], cl, d+1, via+", captured by "+fname(cl))
							}
						}
					}
				case *ssa.Return:
					for i, rv := range x.Results {
						if rv != v {
							continue
						}
						for _, e := range ir.Callers(c.G, fn) {
							if e.Site == nil || !c.P.IsLib(e.Caller.Func) {
								continue
							}
							cv, ok := e.Site.(*ssa.Call)
							if !ok {
								continue
							}
							nv := ssa.Value(cv)
							if len(x.Results) > 1 {
								nv = nil
								for _, cr := range *cv.Referrers() {
									if ex, ok := cr.(*ssa.Extract); ok && ex.Index == i {
										nv = ex
									}
								}
							}
							uses(nv, e.Caller.Func, d+1, via+", returned by "+fname(fn))
						}
					}
				case ssa.CallInstruction:
					cc := x.Common()
					if b, ok := cc.Value.(*ssa.Builtin); ok {
						if b.Name() == "len" && isMap {
							check(x, fn, "len", via) // (len of a slice value reads the copied header only)
						}
						// copy(dst, v) reads every element of v
						if b.Name() == "copy" && len(cc.Args) == 2 && cc.Args[1] == v {
							check(x, fn, "copy out", via)
						}
						continue
					}
					for _, callee := range ir.Callees(c.G, x) {
						if !c.P.IsLib(callee) {
							continue
						}
						args := cc.Args
						off := 0
						if cc.IsInvoke() {
							off = 1
						}
						for i, a := range args {
							if a == v && i+off < len(callee.Params) {
								if _, isGo := x.(*ssa.Go); isGo {
									uses(callee.Params[i+off], callee, d+1, via+", handed to the goroutine "+fname(callee))
								} else {
									uses(callee.Params[i+off], callee, d+1, via+", passed to "+fname(callee))
								}
							}
						}
					}
				}
			}
		}
		for _, a := range g.Accesses {
			if a.Kind != "load" || a.Init || a.Local {
				continue
			}
			if ld, ok := a.Instr.(*ssa.UnOp); ok {
				uses(ld, a.Fn, 0, "")
			}
		}
	}
	c.R.Min("R-guarded-value", 5)
}

// c20LongLivedPlain (R-unguarded): a struct without any synchronisation primitive is out of the lockset rule's reach —
// but when all of its instances are created by construction-only code (constructors, options), they live as long as
// the server or client and are shared by every request. Such an object must then be immutable after construction: a
// write to one of its members from any other function (a lazily built table, a cached value) that holds no mutex races
// with the concurrent requests that read it.
func c20LongLivedPlain(c *Ctx, accs []Access) {
	init := c.InitOnly()
	allocIn := map[string]map[bool]int{} // type key -> {init?: count}
	for _, fn := range c.P.LibFns {
		ir.EachInstr(fn, func(_ *ssa.BasicBlock, _ int, in ssa.Instruction) {
			al, ok := in.(*ssa.Alloc)
			if !ok {
				return
			}
			pt, ok := al.Type().(*types.Pointer)
			if !ok {
				return
			}
			nt, ok := pt.Elem().(*types.Named)
			if !ok || !ir.InLibrary(nt) {
				return
			}
			k := ir.TypeKey(nt)
			if allocIn[k] == nil {
				allocIn[k] = map[bool]int{}
			}
			allocIn[k][init[fn]]++
		})
	}
	n, bad := 0, 0
	seen := map[string]bool{}
	readAfter := map[string]bool{} // members read by non-construction code
	for _, a := range accs {
		if !a.Init && !a.Local && !a.Write {
			readAfter[a.Field] = true
		}
	}
	for _, a := range accs {
		if a.Init || a.Local || !a.Write || a.OwnerT == nil || concurrentStruct(a.OwnerT) || !readAfter[a.Field] {
			continue
		}
		// a decoder filling the value it was called on is construction of that value
		if nm := a.Fn.Name(); (nm == "UnmarshalJSON" || nm == "UnmarshalText") && a.Fn.Signature.Recv() != nil {
			continue
		}
		k := ir.TypeKey(a.OwnerT)
		if allocIn[k][true] == 0 || allocIn[k][false] > 0 {
			continue // not (only) built by construction-only code
		}
		if !heldLongTerm(c, a.OwnerT) {
			continue // no member or package variable of the library can hold such an object: it lives in locals of one call
		}
		n++
		if len(a.Locks) > 0 {
			continue // written under some mutex of its holder: judged by the holder's rules
		}
		construct := a.Field + " written in " + fname(a.Fn)
		if seen[construct] {
			continue
		}
		seen[construct] = true
		bad++
		c.R.Violate("R-unguarded", construct, c.Pos(a.Pos),
			sprintf("%s writes %s after construction without holding any mutex; every %s is created by construction-only code and shared by all concurrent requests, which read that member at the same time (a lazily initialised or cached member needs sync.Once, an atomic, or a mutex)", fname(a.Fn), a.Field, k))
	}
	if bad == 0 {
		c.R.Hold("R-unguarded", "long-lived objects without a lock are not written after construction", "", sprintf("%d post-construction writes examined, all under a mutex", n))
	}
}

// c20WriterJoined (R-writer-joined): an http.ResponseWriter belongs to its handler invocation; net/http finishes and
// recycles it as soon as the handler returns. A goroutine that a handler starts and hands its ResponseWriter (or the
// Flusher asserted from it) must therefore have stopped before the handler returns: on every path from the `go`
// statement to the handler's exit there is a (*sync.WaitGroup).Wait. Otherwise the goroutine's last write or flush
// races with net/http's finishRequest (and may panic after the connection was hijacked back).
func c20WriterJoined(c *Ctx) {
	n := 0
	for _, fn := range c.P.LibFns {
		if clientSide(c, fn) {
			continue
		}
		var w *ssa.Parameter
		for _, p := range fn.Params {
			if isResponseWriter(p.Type()) {
				w = p
			}
		}
		if w == nil {
			continue
		}
		derived := map[ssa.Value]bool{w: true}
		for changed := true; changed; {
			changed = false
			ir.EachInstr(fn, func(_ *ssa.BasicBlock, _ int, in ssa.Instruction) {
				switch x := in.(type) {
				case *ssa.TypeAssert:
					if derived[x.X] && !derived[x] {
						derived[x] = true
						changed = true
					}
				case *ssa.Extract:
					if derived[x.Tuple] && x.Index == 0 && !derived[x] {
						derived[x] = true
						changed = true
					}
				case *ssa.MakeInterface:
					if derived[x.X] && !derived[x] {
						derived[x] = true
						changed = true
					}
				case *ssa.ChangeInterface:
					if derived[x.X] && !derived[x] {
						derived[x] = true
						changed = true
					}
				}
			})
		}
		isWait := func(in ssa.Instruction) bool {
			call, ok := in.(ssa.CallInstruction)
			if !ok {
				return false
			}
			if _, isDefer := in.(*ssa.Defer); isDefer {
				return false
			}
			return ir.CallName(call) == "(*sync.WaitGroup).Wait"
		}
		cnt := 0
		ir.EachInstr(fn, func(_ *ssa.BasicBlock, _ int, in ssa.Instruction) {
			g, ok := in.(*ssa.Go)
			if !ok {
				return
			}
			uses := false
			for _, a := range g.Call.Args {
				if derived[a] {
					uses = true
				}
			}
			if mc, ok := g.Call.Value.(*ssa.MakeClosure); ok {
				for _, b := range mc.Bindings {
					if derived[b] {
						uses = true
					}
					// captured by reference: the cell holds w
					if al, ok := b.(*ssa.Alloc); ok {
						for _, r := range *al.Referrers() {
							if st, ok := r.(*ssa.Store); ok && derived[st.Val] {
								uses = true
							}
						}
					}
				}
			}
			if !uses {
				return
			}
			n++
			cnt++
			esc := flow.ExitsAvoiding(fn, g, isWait, false)
			// a starter that is handed the WaitGroup its goroutines belong to (startWriters(…, &writers)) leaves the
			// join to its callers: each of them waits on that group on every path after the call
			if esc != nil {
				for pi, p := range fn.Params {
					if ir.TypeStr(p.Type()) != "*sync.WaitGroup" {
						continue
					}
					allJoin, nCallers := true, 0
					for _, e := range ir.Callers(c.G, fn) {
						site, ok := e.Site.(*ssa.Call)
						if !ok || !c.P.IsLib(e.Caller.Func) {
							continue
						}
						nCallers++
						caller := e.Caller.Func
						joined := flow.ExitsAvoiding(caller, site, isWait, false) == nil
						ir.EachInstr(caller, func(_ *ssa.BasicBlock, _ int, d ssa.Instruction) {
							if df, ok := d.(*ssa.Defer); ok && ir.CallName(df) == "(*sync.WaitGroup).Wait" && flow.Dominates(df, site) {
								joined = true
							}
						})
						_ = pi
						if !joined {
							allJoin = false
						}
					}
					if nCallers > 0 && allJoin {
						esc = nil
					}
				}
			}
			// a `defer wg.Wait()` registered before the goroutine starts runs at every exit
			ir.EachInstr(fn, func(_ *ssa.BasicBlock, _ int, d ssa.Instruction) {
				if df, ok := d.(*ssa.Defer); ok && ir.CallName(df) == "(*sync.WaitGroup).Wait" && flow.Dominates(df, g) {
					esc = nil
				}
			})
			c.R.Check(esc == nil, "R-writer-joined", sprintf("goroutine #%d started by %s with its ResponseWriter", cnt, fname(fn)), c.Pos(g.Pos()),
				"joined (WaitGroup.Wait) on every path before the handler returns",
				sprintf("%s starts a goroutine that writes to the handler's http.ResponseWriter and can return (near %s) without waiting for it: the goroutine's last write or flush then runs concurrently with net/http finishing and recycling the response — a data race on the connection's buffers", fname(fn), iposEsc(c, esc)))
		})
	}
	if n == 0 {
		c.R.Hold("R-writer-joined", "no handler hands its ResponseWriter to a goroutine", "", "")
	}
}

// holdsRecordsOf: struct type T has a member whose type mentions M (M, *M, []*M, map[K]*M, atomic.Pointer[M], …).
func holdsRecordsOf(T, M *types.Named) bool {
	if T == nil || M == nil {
		return false
	}
	st, ok := T.Underlying().(*types.Struct)
	if !ok {
		return false
	}
	var mentions func(t types.Type, d int) bool
	mentions = func(t types.Type, d int) bool {
		if d > 4 {
			return false
		}
		switch x := t.(type) {
		case *types.Named:
			if x == M || types.Identical(x, M) {
				return true
			}
			if ta := x.TypeArgs(); ta != nil {
				for i := 0; i < ta.Len(); i++ {
					if mentions(ta.At(i), d+1) {
						return true
					}
				}
			}
			if _, isStruct := x.Underlying().(*types.Struct); isStruct {
				return false
			}
			return mentions(x.Underlying(), d+1)
		case *types.Pointer:
			return mentions(x.Elem(), d+1)
		case *types.Slice:
			return mentions(x.Elem(), d+1)
		case *types.Array:
			return mentions(x.Elem(), d+1)
		case *types.Map:
			return mentions(x.Elem(), d+1) || mentions(x.Key(), d+1)
		case *types.Chan:
			return mentions(x.Elem(), d+1)
		case *types.Struct:
			for i := 0; i < x.NumFields(); i++ {
				if mentions(x.Field(i).Type(), d+1) {
					return true
				}
			}
		}
		return false
	}
	for i := 0; i < st.NumFields(); i++ {
		if mentions(st.Field(i).Type(), 0) {
			return true
		}
	}
	return false
}

// ---------------------------------------------------------------- R-package-state
// A package-level variable is shared by every goroutine of the process — every client, every server, every call. The
// library may read such variables (tables, defaults, sentinels), but outside package initialisation nothing mutates one
// without holding a lock: no assignment to the variable, no in-place update of the map / slice / struct it holds, and no
// call of a method on a value loaded from it whose type is documented as not safe for concurrent use (a *rand.Rand made
// with rand.New, a bytes.Buffer, a bufio or encoding object, a hash): that is a data race the moment two calls overlap.
var unsafeSharedTypes = map[string]bool{
	"*math/rand.Rand": true, "*bytes.Buffer": true, "*strings.Builder": true, "*bufio.Writer": true, "*bufio.Reader": true,
	"*bufio.Scanner": true, "*encoding/json.Encoder": true, "*encoding/json.Decoder": true, "hash.Hash": true,
	"hash.Hash32": true, "hash.Hash64": true, "*math/rand/v2.Rand": true, "*bytes.Reader": true, "*strings.Reader": true,
	"*text/template.Template": false,
}

func c20PackageState(c *Ctx) {
	nGlobals, nUses := 0, 0
	seenG := map[*ssa.Global]bool{}
	// what runs on behalf of a client or server object: everything reachable from a method of a library type. (A
	// package-level configuration setter that only the application calls, before it starts using the library, is not.)
	var roots []*ssa.Function
	for _, fn := range c.P.LibFns {
		if fn.Signature.Recv() != nil {
			roots = append(roots, fn)
		}
	}
	onBehalf := c.Reach(roots...)
	for _, fn := range c.P.LibFns {
		if !onBehalf[fn] {
			continue
		}
		if fn.Name() == "init" || strings.HasPrefix(fn.Name(), "init#") || (fn.Parent() != nil && fn.Parent().Name() == "init") {
			continue
		}
		ir.EachInstr(fn, func(_ *ssa.BasicBlock, _ int, in ssa.Instruction) {
			var g *ssa.Global
			report := func(what string, at ssa.Instruction) {
				held := c.Locks().At(at)
				nUses++
				c.R.Check(len(held) > 0, "R-package-state", sprintf("%s of package variable %s in %s", what, g.Name(), fname(fn)), c.Pos(at.Pos()),
					"made under a lock",
					sprintf("%s performs a %s of the package-level variable %s without holding any lock: the variable is shared by every goroutine of the process, so two overlapping calls race on it (Go memory model; for a generator or buffer the state is corrupted)", fname(fn), what, g.Name()))
			}
			switch x := in.(type) {
			case *ssa.Store:
				if gg, ok := x.Addr.(*ssa.Global); ok && gg.Pkg != nil && strings.HasPrefix(gg.Pkg.Pkg.Path(), ir.RootPath) {
					g = gg
					report("assignment", in)
					return
				}
				// in-place update through a value loaded from a global
				if gg := globalBase(x.Addr, 0); gg != nil && gg.Pkg != nil && strings.HasPrefix(gg.Pkg.Pkg.Path(), ir.RootPath) {
					if _, direct := x.Addr.(*ssa.Global); !direct {
						g = gg
						report("in-place update", in)
					}
				}
			case *ssa.MapUpdate:
				if gg := globalBase(x.Map, 0); gg != nil && gg.Pkg != nil && strings.HasPrefix(gg.Pkg.Pkg.Path(), ir.RootPath) {
					g = gg
					report("map update", in)
				}
			case *ssa.Call:
				cc := x.Common()
				var recv ssa.Value
				if cc.IsInvoke() {
					recv = cc.Value
				} else if sc := ir.StaticCallee(x); sc != nil && sc.Signature.Recv() != nil && len(cc.Args) > 0 {
					recv = cc.Args[0]
				}
				if recv == nil || !unsafeSharedTypes[ir.TypeStr(recv.Type())] {
					if b, ok := cc.Value.(*ssa.Builtin); ok && b.Name() == "delete" && len(cc.Args) > 0 {
						if gg := globalBase(cc.Args[0], 0); gg != nil && gg.Pkg != nil && strings.HasPrefix(gg.Pkg.Pkg.Path(), ir.RootPath) {
							g = gg
							report("map delete", in)
						}
					}
					return
				}
				if gg := globalBase(recv, 0); gg != nil && gg.Pkg != nil && strings.HasPrefix(gg.Pkg.Pkg.Path(), ir.RootPath) {
					g = gg
					report("call of "+ir.CallName(x)+" on the value", in)
				}
			case *ssa.UnOp:
				if gg, ok := x.X.(*ssa.Global); ok && gg.Pkg != nil && strings.HasPrefix(gg.Pkg.Pkg.Path(), ir.RootPath) && !seenG[gg] {
					seenG[gg] = true
					nGlobals++
				}
			}
		})
	}
	if nGlobals < 5 {
		c.R.Break("R-package-state: only %d package-level variables of the library are read outside initialisation", nGlobals)
	}
	c.R.Hold("R-package-state", "package-level variables of the library", "", sprintf("%d variables read outside package initialisation, %d mutating uses examined", nGlobals, nUses))
}

// ---------------------------------------------------------------- R-fanout-write
// A closure started with `go` inside a loop runs as several goroutines at once. A variable of the enclosing function
// that the closure captures by reference (a result variable, a counter, an error) is then shared by all of them: every
// plain store to it — or update of a map it holds — inside the closure must be made under a lock taken in the closure.
// Joining the goroutines afterwards (WaitGroup) orders them with the parent, not with one another.
func c20FanoutWrite(c *Ctx) {
	nGo, nWrites := 0, 0
	for _, fn := range c.P.LibFns {
		ir.EachInstr(fn, func(_ *ssa.BasicBlock, _ int, in ssa.Instruction) {
			g, ok := in.(*ssa.Go)
			if !ok || !flow.InCycle(g.Block()) {
				return
			}
			mc, ok := g.Call.Value.(*ssa.MakeClosure)
			if !ok {
				return
			}
			body, ok := mc.Fn.(*ssa.Function)
			if !ok {
				return
			}
			nGo++
			for i, b := range mc.Bindings {
				al, ok := b.(*ssa.Alloc)
				if !ok || i >= len(body.FreeVars) {
					continue
				}
				// created per iteration (a loop-local copy) → private to this goroutine
				if flow.InCycle(al.Block()) && sameLoop(al.Block(), g.Block()) {
					continue
				}
				fv := body.FreeVars[i]
				if fv.Referrers() == nil {
					continue
				}
				for _, r := range *fv.Referrers() {
					var what string
					switch y := r.(type) {
					case *ssa.Store:
						if y.Addr == ssa.Value(fv) {
							what = "assignment"
						}
					case *ssa.UnOp:
						// a map / slice held in the variable, updated in place
						if y.Referrers() != nil {
							for _, rr := range *y.Referrers() {
								if mu, ok := rr.(*ssa.MapUpdate); ok && mu.Map == ssa.Value(y) {
									what = "map update"
									r = mu
								}
							}
						}
					}
					if what == "" {
						continue
					}
					nWrites++
					held := c.Locks().At(r)
					c.R.Check(len(held) > 0, "R-fanout-write", sprintf("%s to the captured variable %s in a goroutine started in a loop by %s", what, al.Comment, fname(fn)), c.Pos(r.Pos()),
						"made under a lock taken by the goroutine",
						sprintf("%s starts a goroutine per iteration, and each of them performs a plain %s to %s, a variable of %s captured by reference, without holding a lock: two of these goroutines write it concurrently — a data race (a torn interface value for an error); joining them afterwards does not order them with one another", fname(fn), what, al.Comment, fname(fn)))
				}
			}
		})
	}
	c.R.Hold("R-fanout-write", "goroutines started in loops", "", sprintf("%d go statements in loops with a closure examined, %d writes to variables captured by reference", nGo, nWrites))

}

// heldLongTerm: some struct member or package-level variable of the library has a type that mentions T (directly, by
// pointer, as element of a slice / array / map / channel, or through an interface T implements). An object of a type
// nothing can hold lives in the locals of the call that created it.
func heldLongTerm(c *Ctx, T *types.Named) bool {
	var mentions func(t types.Type, d int) bool
	mentions = func(t types.Type, d int) bool {
		if d > 5 || t == nil {
			return false
		}
		if types.Identical(t, T) {
			return true
		}
		switch u := t.(type) {
		case *types.Pointer:
			return mentions(u.Elem(), d+1)
		case *types.Slice:
			return mentions(u.Elem(), d+1)
		case *types.Array:
			return mentions(u.Elem(), d+1)
		case *types.Chan:
			return mentions(u.Elem(), d+1)
		case *types.Map:
			return mentions(u.Key(), d+1) || mentions(u.Elem(), d+1)
		case *types.Named:
			if iface, ok := u.Underlying().(*types.Interface); ok && iface.NumMethods() > 0 {
				return types.Implements(T, iface) || types.Implements(types.NewPointer(T), iface)
			}
		case *types.Interface:
			if u.NumMethods() > 0 {
				return types.Implements(T, u) || types.Implements(types.NewPointer(T), u)
			}
		}
		return false
	}
	for _, pk := range c.P.Pkgs {
		sc := pk.Types.Scope()
		for _, name := range sc.Names() {
			switch o := sc.Lookup(name).(type) {
			case *types.Var:
				if mentions(o.Type(), 0) {
					return true
				}
			case *types.TypeName:
				nt, ok := o.Type().(*types.Named)
				if !ok || nt == T {
					continue
				}
				if st, ok := nt.Underlying().(*types.Struct); ok {
					for i := 0; i < st.NumFields(); i++ {
						if mentions(st.Field(i).Type(), 0) {
							return true
						}
					}
				}
			}
		}
	}
	return false
}

// ---------------------------------------------------------------- R-closure-state
// A function value that leaves the function that made it (returned, stored in a member, handed to another package)
// may be called from any goroutine, many at a time. State it captured by reference is then shared: a write to it — the
// variable itself, an element of a captured array or slice, a copy into a captured buffer — must be made under a lock
// taken inside the closure. (A scratch buffer hoisted out of a per-call allocation into the closure "to save the
// allocation" is exactly that.)
func c20ClosureState(c *Ctx) {
	nClosures, nWrites := 0, 0
	for _, fn := range c.P.LibFns {
		ir.EachInstr(fn, func(_ *ssa.BasicBlock, _ int, in ssa.Instruction) {
			mc, ok := in.(*ssa.MakeClosure)
			if !ok || mc.Referrers() == nil {
				return
			}
			body, ok := mc.Fn.(*ssa.Function)
			if !ok {
				return
			}
			// does the function value leave its maker?
			escapes := false
			for _, r := range *mc.Referrers() {
				switch y := r.(type) {
				case *ssa.Return:
					escapes = true
				case *ssa.Store:
					if y.Val == ssa.Value(mc) {
						if _, isLocal := y.Addr.(*ssa.Alloc); !isLocal {
							escapes = true
						}
					}
				case *ssa.MakeInterface, *ssa.ChangeType:
					escapes = true
				case *ssa.Call:
					// handed to a function of another package that keeps it (not sync.Once.Do, which runs it at once)
					nm := ir.CallName(y)
					if nm == "(*sync.Once).Do" || nm == "sort.Slice" || nm == "sort.SliceStable" {
						continue
					}
					if sc := ir.StaticCallee(y); sc == nil || !c.P.IsLib(sc) {
						escapes = true
					}
				}
			}
			if !escapes {
				return
			}
			// a functional option (func(*T) applied once by the constructor of the T it configures) is construction code
			if sig := body.Signature; sig.Results().Len() == 0 && sig.Params().Len() == 1 {
				if pt, ok := sig.Params().At(0).Type().(*types.Pointer); ok {
					if nt, ok := pt.Elem().(*types.Named); ok && ir.InLibrary(nt) {
						return
					}
				}
			}
			nClosures++
			for i, b := range mc.Bindings {
				if i >= len(body.FreeVars) {
					continue
				}
				fv := body.FreeVars[i]
				if fv.Referrers() == nil {
					continue
				}
				// the captured thing: a cell (captured by reference) or a slice / pointer value
				_, byRef := b.(*ssa.Alloc)
				report := func(at ssa.Instruction, what string) {
					nWrites++
					held := c.Locks().At(at)
					c.R.Check(len(held) > 0, "R-closure-state", sprintf("%s captured by the function value made in %s", what, fname(fn)), c.Pos(at.Pos()),
						"written under a lock taken in the closure",
						sprintf("the function value made in %s leaves that function and writes %s without holding a lock: it can be called from several goroutines at once (a logger's encoder, a handler, a callback), which then write the same memory concurrently — a data race", fname(fn), what))
				}
				var follow func(v ssa.Value, d int, viaCell bool)
				seen := map[ssa.Value]bool{}
				follow = func(v ssa.Value, d int, viaCell bool) {
					if v.Referrers() == nil || d > 4 || seen[v] {
						return
					}
					seen[v] = true
					for _, r := range *v.Referrers() {
						switch y := r.(type) {
						case *ssa.Store:
							if y.Addr == v && (viaCell || d > 0) {
								report(y, "the variable "+fv.Name())
							}
						case *ssa.UnOp:
							if y.Op == token.MUL {
								follow(y, d+1, false)
							}
						case *ssa.IndexAddr:
							if y.X == v {
								follow(y, d+1, true)
							}
						case *ssa.Slice:
							if y.X == v {
								follow(y, d+1, false)
							}
						case *ssa.Call:
							if bi, ok := y.Call.Value.(*ssa.Builtin); ok && bi.Name() == "copy" && len(y.Call.Args) > 0 && y.Call.Args[0] == v {
								report(y, "the buffer "+fv.Name())
							}
							// time.Time.AppendFormat(buf, …) and similar append-into calls write into the buffer's array
							if strings.Contains(ir.CallName(y), ".Append") {
								for _, a := range y.Call.Args {
									if a == v {
										report(y, "the buffer "+fv.Name())
									}
								}
							}
							// a library helper that fills the buffer it is handed
							if sc := ir.StaticCallee(y); sc != nil && c.P.IsLib(sc) {
								for ai, a := range y.Call.Args {
									if a == v && ai < len(sc.Params) && writesIntoParam(sc, sc.Params[ai], 0) {
										report(y, "the buffer "+fv.Name()+" (filled by "+fname(sc)+")")
									}
								}
							}
						}
					}
				}
				if byRef {
					follow(fv, 0, true)
				} else {
					switch fv.Type().Underlying().(type) {
					case *types.Slice, *types.Pointer:
						follow(fv, 0, false)
					}
				}
			}
		})
	}
	if nClosures < 10 {
		c.R.Break("R-closure-state: only %d escaping function values found", nClosures)
	}
	c.R.Hold("R-closure-state", "function values that leave their maker", "", sprintf("%d escaping closures examined, %d writes to captured state", nClosures, nWrites))
}


// writesIntoParam: fn stores into the elements of its slice / pointer parameter p (directly, through a re-slice, copy,
// or an Append-into call).
func writesIntoParam(fn *ssa.Function, p ssa.Value, d int) bool {
	if d > 3 || p.Referrers() == nil {
		return false
	}
	for _, r := range *p.Referrers() {
		switch y := r.(type) {
		case *ssa.IndexAddr:
			if y.X == p && y.Referrers() != nil {
				for _, rr := range *y.Referrers() {
					if st, ok := rr.(*ssa.Store); ok && st.Addr == ssa.Value(y) {
						return true
					}
				}
			}
		case *ssa.Slice:
			if y.X == p && writesIntoParam(fn, y, d+1) {
				return true
			}
		case *ssa.Phi:
			if writesIntoParam(fn, y, d+1) {
				return true
			}
		case *ssa.Call:
			if bi, ok := y.Call.Value.(*ssa.Builtin); ok && bi.Name() == "copy" && len(y.Call.Args) > 0 && y.Call.Args[0] == p {
				return true
			}
			if strings.Contains(ir.CallName(y), ".Append") {
				for _, a := range y.Call.Args {
					if a == p {
						return true
					}
				}
			}
		}
	}
	return false
}
