package rules

import (
	"go/token"
	"go/types"
	"os"
	"sort"
	"strings"

	"golang.org/x/tools/go/ssa"

	"verif/checker/flow"
	"verif/checker/ir"
)

// C07 — clients survive arbitrary server output.
//
//	R-assert           no unguarded single-value assertion on data decoded from the server
//	R-slice-guard      slicing a received line at a constant offset is dominated by a HasPrefix test of a literal
//	                   at least that long
//	R-sticky-decoder   a loop around (*json.Decoder).Decode leaves the loop (or replaces the decoder) on a decode
//	                   error: decoder errors are sticky, `continue` spins forever
//	R-close-once       a channel held in a struct field / pending table is closed at most once
//	R-bounded-scanner  background stream readers do not use bufio.Scanner with its default 64 KiB token limit
//	R-header-value     members copied into request headers are stored only after a test of the value (or from a header)
//	R-close-succeeds   closing a child's pipe reports an error only when it is not os.ErrClosed
//	R-closed-recv      a receive from a channel that another function closes uses the comma-ok form
//	R-lock-balanced    every mutex acquired on a client path is released on every path
//	R-reconnect-paced  a loop repeating an HTTP exchange waits on a timer or consumes peer input on every trip
//	R-once-complete    every path through a once-guarded publishing closure closes its latch
//	R-send-vs-close    a send on a table channel that others close is made under the table's lock
func init() { Registry["C07"] = checkC07 }

func checkC07(c *Ctx) {
	c.R.Explanation = "Static robustness check of the client half (functions in the client/transport files reachable from the exported client API and the background readers): guarded assertions and slicing on received data, " +
		"exit on sticky decoder errors, close-once of shared channels, unbounded line readers, comma-ok receives from closable channels, and lock pairing on all paths."
	c.R.NotDecided = "CPU use and liveness of later calls under every stream content; behaviour of user notification handlers"
	c.R.Assumptions = []string{"json.Decoder errors are sticky (documented: once Decode fails on a syntax error, later calls return the same error)", "bufio.Scanner stops with ErrTooLong beyond its token limit"}
	var fns []*ssa.Function
	for _, f := range c.P.LibFns {
		if clientSide(c, f) {
			fns = append(fns, f)
		}
	}
	if len(fns) < 60 {
		c.R.Break("only %d client-side functions found", len(fns))
	}
	c.R.Extra["client_functions"] = len(fns)

	// ---- R-assert
	// decoded data travels down the client's parse functions as map[string]any / []any / any parameters
	seenP := map[*ssa.Parameter]bool{}
	peerParam = func(p *ssa.Parameter, depth int) bool {
		fn := p.Parent()
		if fn == nil || seenP[p] || depth > 12 || !clientSide(c, fn) {
			return false
		}
		seenP[p] = true
		defer delete(seenP, p)
		idx := -1
		for i, q := range fn.Params {
			if q == p {
				idx = i
			}
		}
		for _, e := range ir.Callers(c.G, fn) {
			if e.Site == nil || !c.P.IsLib(e.Caller.Func) {
				continue
			}
			args := e.Site.Common().Args
			off := 0
			if e.Site.Common().IsInvoke() {
				off = 1
			}
			if idx-off >= 0 && idx-off < len(args) && peerDerived(args[idx-off], depth+1) {
				return true
			}
		}
		return false
	}
	defer func() { peerParam = nil }()
	all, bad := unguardedAssertions(c, fns)
	for _, ta := range bad {
		c.R.Violate("R-assert", "unguarded assertion "+assertKey(ta)+" in "+fname(ta.Parent()), c.Pos(ta.Pos()),
			sprintf("%s asserts server-controlled data to %s with the single-value form: an answer of another JSON type panics the client", fname(ta.Parent()), ir.TypeStr(ta.AssertedType)))
	}
	nOK := 0
	for _, fn := range fns {
		ir.EachInstr(fn, func(_ *ssa.BasicBlock, _ int, in ssa.Instruction) {
			if ta, ok := in.(*ssa.TypeAssert); ok && ta.CommaOk {
				nOK++
			}
		})
	}
	if len(bad) == 0 {
		c.R.Hold("R-assert", "assertions on received data are guarded", "", sprintf("%d comma-ok assertions / type switches, %d single-value assertions on peer data", nOK, all))
	}
	if nOK < 10 {
		c.R.Break("R-assert saw only %d comma-ok assertions in client code", nOK)
	}

	// ---- R-slice-guard
	nSl := 0
	for _, fn := range fns {
		ir.EachInstr(fn, func(_ *ssa.BasicBlock, _ int, in ssa.Instruction) {
			sl, ok := in.(*ssa.Slice)
			if !ok {
				return
			}
			if b, ok := sl.X.Type().Underlying().(*types.Basic); !ok || b.Kind() != types.String {
				return
			}
			k, ok := ir.ConstInt(sl.Low)
			if sl.Low == nil || !ok || k == 0 {
				return
			}
			nSl++
			guard := int64(-1)
			for _, g := range flow.Guards(fn, sl.Block()) {
				call, ok := g.If.Cond.(*ssa.Call)
				if !ok || ir.CallName(call) != "strings.HasPrefix" || !g.Branch {
					continue
				}
				if call.Call.Args[0] != sl.X {
					continue
				}
				if lit, ok := ir.ConstStr(call.Call.Args[1]); ok && int64(len(lit)) > guard {
					guard = int64(len(lit))
				}
			}
			c.R.Check(guard >= k, "R-slice-guard", sprintf("%s: line[%d:]", fname(fn), k), c.Pos(sl.Pos()),
				sprintf("dominated by HasPrefix of a %d-byte literal", guard),
				sprintf("%s slices a received line at offset %d but the dominating prefix test only guarantees %d bytes: a shorter line (e.g. a bare \"data:\") panics with slice bounds out of range, and a valid line loses its first payload byte", fname(fn), k, guard))
		})
	}
	c.R.Min("R-slice-guard", 2)

	// ---- R-sticky-decoder
	nDec := 0
	for _, fn := range fns {
		ir.EachInstr(fn, func(_ *ssa.BasicBlock, _ int, in ssa.Instruction) {
			call, ok := in.(*ssa.Call)
			if !ok || !flow.InCycle(call.Block()) {
				return
			}
			decArg := 0
			errVals := []ssa.Value{call}
			if ir.CallName(call) != "(*encoding/json.Decoder).Decode" {
				// a frame helper `func(dec *json.Decoder) (T, error)` that decodes once and returns the decoder's error
				i, isProd := frameProducer(c, ir.StaticCallee(call))
				if !isProd || i >= len(call.Call.Args) {
					return
				}
				decArg = i
				errVals = nil
				for _, r := range *call.Referrers() {
					if ex, ok := r.(*ssa.Extract); ok && ex.Index == call.Call.Signature().Results().Len()-1 {
						errVals = append(errVals, ex)
					}
				}
			}
			// decoder held in a field (long-lived), not created per iteration
			if _, _, isField := ir.LoadedField(call.Call.Args[decArg]); !isField {
				return
			}
			nDec++
			// the error edge
			var ifi *ssa.If
			errSucc := 0
			var errRefs []ssa.Instruction
			for _, ev := range errVals {
				if ev.Referrers() != nil {
					errRefs = append(errRefs, *ev.Referrers()...)
				}
			}
			for _, r := range errRefs {
				if bin, ok := r.(*ssa.BinOp); ok {
					if _, op, ok := nilCompare(bin); ok {
						for _, rr := range *bin.Referrers() {
							if i, ok := rr.(*ssa.If); ok {
								ifi = i
								if op == token.EQL {
									errSucc = 1
								}
							}
						}
					}
				}
			}
			construct := "decode loop in " + fname(fn)
			if ifi == nil {
				c.R.Violate("R-sticky-decoder", construct, c.Pos(call.Pos()), "the decode error is ignored inside a loop")
				return
			}
			// from the error edge, can the Decode call be reached again without the decoder being replaced
			// and on a path that does not depend on the error being EOF / the transport being closed?
			spins := errorEdgeSpins(fn, ifi.Block().Succs[errSucc], call)
			c.R.Check(!spins, "R-sticky-decoder", construct, c.Pos(call.Pos()), "every path from a decode error leaves the loop",
				sprintf("%s continues its read loop after a non-EOF decode error: json.Decoder errors are sticky, so after one malformed value the loop spins forever (100%% CPU) and no later frame is ever processed", fname(fn)))
		})
	}
	c.R.Min("R-sticky-decoder", 1)

	// ---- R-close-once
	nCl := 0
	for _, cs := range closeSites(c, fns) {
		if cs.field == "" {
			continue
		}
		nCl++
		c.R.Check(cs.guarded != "", "R-close-once", "close of "+cs.field+" in "+fname(cs.fn), c.Pos(cs.call.Pos()), "closed at most once ("+cs.guarded+")",
			sprintf("%s closes the shared channel %s every time it runs, with no once/CAS/recover guard: a repeated event (e.g. a second `endpoint` event) panics the reader goroutine with 'close of closed channel'", fname(cs.fn), cs.field))
	}
	c.R.Min("R-close-once", 3)

	scannersBounded(c, fns, "R-bounded-scanner")

	c07ReconnectPaced(c, fns)
	c07OnceComplete(c, fns)
	c07SendVsClose(c, fns)
	// a stream the server ends makes the reader close every pending channel: a call that also closes its own panics
	c08SingleCloser(c, fns)
	c07HeaderValuesValidated(c, fns)
	c07ReaderSurvives(c, fns)
	c01FreshBuffer(c) // an error answer handed to the waiting call is not overwritten by whatever the peer sends next
	c07CloseAfterExit(c)
	c07BoundedDrain(c, "R-bounded-drain")
	c05EventConsumed(c, "R-event-consumed") // parser state of a stream reader does not survive the event it belongs to
	c06IndexGuard(c, fns, "R-index-guard")
	c07AnswerNonNil(c, fns)

	// ---- R-closed-recv
	closedFields := map[string]bool{}
	for _, cs := range closeSites(c, fns) {
		if cs.field != "" {
			closedFields[strings.TrimSuffix(cs.field, "[*]")] = true
		}
	}
	nRecv := 0
	for _, fn := range fns {
		ir.EachInstr(fn, func(_ *ssa.BasicBlock, _ int, in ssa.Instruction) {
			sel, ok := in.(*ssa.Select)
			if !ok {
				return
			}
			for i, st := range sel.States {
				if st.Dir != types.RecvOnly {
					continue
				}
				// a channel made in this function (or by a registering helper) and stored into a table whose channels get
				// closed elsewhere
				chv := unspill(st.Chan)
				var elemT types.Type
				if ct, ok := chv.Type().Underlying().(*types.Chan); ok {
					elemT = ct.Elem()
				}
				inTable := ""
				if mk, isMake := chv.(*ssa.MakeChan); isMake {
					chanVals := []ssa.Value{mk}
					for _, r := range *mk.Referrers() {
						if stc, ok := r.(*ssa.Store); ok && stc.Val == ssa.Value(mk) {
							// captured by a closure: the loads of the cell are the channel too
							if al, ok := stc.Addr.(*ssa.Alloc); ok {
								for _, rr := range *al.Referrers() {
									if u, ok := rr.(*ssa.UnOp); ok {
										chanVals = append(chanVals, u)
									}
								}
							}
						}
					}
					for _, cv := range chanVals {
						if cv.Referrers() == nil {
							continue
						}
						for _, r := range *cv.Referrers() {
							if mu, ok := r.(*ssa.MapUpdate); ok && mu.Value == cv {
								if f, _, ok := ir.LoadedField(mu.Map); ok {
									inTable = f.Key()
								}
							}
						}
					}
				} else {
					for _, t := range registeredIn(c, chv, 0) {
						if closedFields[t] {
							inTable = t
						}
					}
				}
				if inTable == "" || !closedFields[inTable] || elemT == nil {
					continue
				}
				if _, isPtr := elemT.Underlying().(*types.Pointer); !isPtr {
					continue
				}
				nRecv++
				// comma-ok: the select's result tuple has the recvOk extracted, or the received value is nil-checked
				okForm := false
				for _, r := range *sel.Referrers() {
					if ex, ok := r.(*ssa.Extract); ok && ex.Index == 1 {
						okForm = true // recvOk
					}
				}
				// nil check of the received value
				recvIdx := 2
				for j := 0; j < i; j++ {
					if sel.States[j].Dir == types.RecvOnly {
						recvIdx++
					}
				}
				for _, r := range *sel.Referrers() {
					if ex, ok := r.(*ssa.Extract); ok && ex.Index == recvIdx {
						for _, rr := range *ex.Referrers() {
							if bin, ok := rr.(*ssa.BinOp); ok {
								if _, _, ok := nilCompare(bin); ok {
									okForm = true
								}
							}
						}
					}
				}
				c.R.Check(okForm, "R-closed-recv", "receive from pending channel of "+inTable+" in "+fname(fn), c.Pos(sel.Pos()),
					"the receive distinguishes a closed channel from an answer",
					sprintf("%s receives from its pending channel (registered in %s, whose channels another function closes) with the bare form: a close delivers (nil) as if it were an answer and the caller dereferences it", fname(fn), inTable))
			}
		})
	}
	c.R.Min("R-closed-recv", 2)

	// ---- R-lock-balanced
	seen := map[string]bool{}
	for _, l := range append(lockLeaks(c, fns), mayLeaks(c, fns)...) {
		k := l.key + " in " + fname(l.fn)
		if seen[k] {
			continue
		}
		seen[k] = true
		c.R.Violate("R-lock-balanced", k, c.Pos(l.at.Pos()), sprintf("%s acquires %s and can return (near %s) without releasing it: later calls, the reader loop and Close block forever", fname(l.fn), l.key, ipos(c, l.ret)))
	}
	if len(seen) == 0 {
		c.R.Hold("R-lock-balanced", "every acquisition is released on all paths", "", "client code")
	}
}

// errorEdgeSpins: from block `from` (the decode-error edge) the Decode call can be reached again along a
// path that passes no branch decided by the error's identity (err == io.EOF) or by a closed flag alone.
// Accepted exits: the only way back to the call is... none — any way back is a spin, because the error repeats.
func errorEdgeSpins(fn *ssa.Function, from *ssa.BasicBlock, call *ssa.Call) bool {
	seen := map[*ssa.BasicBlock]bool{from: true}
	stack := []*ssa.BasicBlock{from}
	for len(stack) > 0 {
		b := stack[len(stack)-1]
		stack = stack[:len(stack)-1]
		if b == call.Block() {
			return true
		}
		for _, s := range b.Succs {
			if !seen[s] {
				seen[s] = true
				stack = append(stack, s)
			}
		}
	}
	return false
}

// ---------------------------------------------------------------- R-reconnect-paced
// A loop that performs an HTTP exchange in every iteration through a callee (re-connecting, re-sending) must pace
// itself in the same function: every trip around the loop that passes such a call also passes a wait on a timer, or
// consumes input from the peer (a blocking read of the stream it is serving). Otherwise a server that ends every
// exchange immediately (empty stream, clean close) makes the client spin at full speed.
func c07ReconnectPaced(c *Ctx, fns []*ssa.Function) {
	// functions from which an HTTP dispatch is reachable synchronously
	dispatches := map[*ssa.Function]bool{}
	isDispatchName := func(n string) bool {
		return n == "(*net/http.Client).Do" || strings.HasPrefix(n, "(mcp.HTTPReqHandler).")
	}
	for _, fn := range fns {
		for f := range c.ReachSync(fn) {
			found := false
			ir.EachCall(f, func(call ssa.CallInstruction) {
				if isDispatchName(ir.CallName(call)) {
					found = true
				}
			})
			if found {
				dispatches[fn] = true
				break
			}
		}
	}
	pacingHelper := map[*ssa.Function]bool{}
	var paces func(in ssa.Instruction) bool
	paces = func(in ssa.Instruction) bool {
		switch x := in.(type) {
		case *ssa.Select:
			for _, st := range x.States {
				if oc := originCall(st.Chan); oc != nil && (ir.CallName(oc) == "time.After" || ir.CallName(oc) == "(*time.Timer).Reset") {
					return true
				}
				if f, _, ok := ir.LoadedField(st.Chan); ok && (ir.TypeStr(f.Struct) == "time.Timer" || ir.TypeStr(f.Struct) == "time.Ticker") {
					return true
				}
			}
		case *ssa.UnOp:
			if x.Op == token.ARROW {
				if oc := originCall(x.X); oc != nil && ir.CallName(oc) == "time.After" {
					return true
				}
			}
		case *ssa.Call:
			switch ir.CallName(x) {
			case "time.Sleep", "(*bufio.Scanner).Scan", "(*bufio.Reader).ReadString", "(*bufio.Reader).ReadBytes", "(*bufio.Reader).ReadLine", "(*encoding/json.Decoder).Decode":
				return true
			}
			// a helper that waits on every one of its paths (wait(ctx, d))
			if sc := ir.StaticCallee(x); sc != nil && c.P.IsLib(sc) && pacingHelper[sc] {
				return true
			}
		}
		return false
	}
	for iter := 0; iter < 2; iter++ {
		for _, fn := range c.P.LibFns {
			if pacingHelper[fn] || len(fn.Blocks) == 0 {
				continue
			}
			has := false
			ir.EachInstr(fn, func(_ *ssa.BasicBlock, _ int, in ssa.Instruction) {
				if paces(in) {
					has = true
				}
			})
			if has && flow.ExitsAvoiding(fn, nil, paces, false) == nil {
				pacingHelper[fn] = true
			}
		}
	}
	n := 0
	for _, fn := range fns {
		ir.EachInstr(fn, func(_ *ssa.BasicBlock, _ int, in ssa.Instruction) {
			call, ok := in.(*ssa.Call)
			if !ok || !flow.InCycle(call.Block()) {
				return
			}
			reaches := isDispatchName(ir.CallName(call))
			for _, cal := range ir.Callees(c.G, call) {
				if dispatches[cal] {
					reaches = true
				}
			}
			// user-supplied operation run by a retry executor
			if call.Call.Value != nil && !call.Call.IsInvoke() {
				if _, isSig := call.Call.Value.Type().Underlying().(*types.Signature); isSig && ir.StaticCallee(call) == nil {
					if _, isParam := call.Call.Value.(*ssa.Parameter); isParam {
						reaches = true
					}
				}
			}
			if !reaches {
				return
			}
			n++
			// a cycle from the call back to itself that avoids every pacing instruction?
			spin := cycleAvoiding(call, paces)
			c.R.Check(!spin, "R-reconnect-paced", "exchange repeated in a loop of "+fname(fn), c.Pos(call.Pos()), "every trip around the loop waits on a timer or consumes peer input",
				sprintf("%s repeats an HTTP exchange in a loop and some trip around the loop neither waits on a timer nor reads from the peer in this function: a server that ends each exchange at once makes the client spin", fname(fn)))
		})
	}
	c.R.Min("R-reconnect-paced", 1)
	_ = n
}

// cycleAvoiding: is there a CFG path from just after `at` back to `at` that passes no instruction satisfying stop?
func cycleAvoiding(at ssa.Instruction, stop func(ssa.Instruction) bool) bool {
	b0 := at.Block()
	idx := 0
	for i, in := range b0.Instrs {
		if in == at {
			idx = i
		}
	}
	// rest of the start block
	for _, in := range b0.Instrs[idx+1:] {
		if stop(in) {
			return false
		}
	}
	seen := map[*ssa.BasicBlock]bool{}
	stack := append([]*ssa.BasicBlock{}, b0.Succs...)
	for len(stack) > 0 {
		b := stack[len(stack)-1]
		stack = stack[:len(stack)-1]
		if seen[b] {
			continue
		}
		seen[b] = true
		blocked := false
		for i, in := range b.Instrs {
			if b == b0 && i >= idx {
				// back at the call without having passed a pacing instruction
				return true
			}
			if stop(in) {
				blocked = true
				break
			}
		}
		if blocked {
			continue
		}
		stack = append(stack, b.Succs...)
	}
	return false
}

// ---------------------------------------------------------------- R-once-complete
// A sync.Once guards the single publication of something the rest of the client waits for (it closes a latch channel).
// Once the closure has started, the Once is spent: if the closure can return without closing the latch (for instance
// because the peer's first event was malformed), no later event can ever publish it and every call waits forever.
// Every path through such a closure must therefore reach the close.
func c07OnceComplete(c *Ctx, fns []*ssa.Function) {
	n := 0
	for _, fn := range fns {
		ir.EachInstr(fn, func(_ *ssa.BasicBlock, _ int, in ssa.Instruction) {
			call, ok := in.(*ssa.Call)
			if !ok || ir.CallName(call) != "(*sync.Once).Do" || len(call.Call.Args) < 2 {
				return
			}
			mc, ok := call.Call.Args[1].(*ssa.MakeClosure)
			if !ok {
				return
			}
			body, ok := mc.Fn.(*ssa.Function)
			if !ok {
				return
			}
			isLatchClose := func(x ssa.Instruction) bool {
				cl, ok := x.(*ssa.Call)
				if !ok || ir.CallName(cl) != "builtin.close" {
					return false
				}
				_, _, isField := ir.LoadedField(cl.Call.Args[0])
				return isField
			}
			has := false
			ir.EachInstr(body, func(_ *ssa.BasicBlock, _ int, x ssa.Instruction) {
				if isLatchClose(x) {
					has = true
				}
			})
			if !has {
				return
			}
			n++
			esc := flow.ExitsAvoiding(body, nil, isLatchClose, false)
			c.R.Check(esc == nil, "R-once-complete", "once-guarded publication in "+fname(fn), c.Pos(call.Pos()), "every path through the once-guarded closure closes the latch",
				sprintf("the closure %s runs under sync.Once can return (near %s) without closing the latch channel it exists to close: one malformed event spends the Once, no later event can publish, and every caller waiting for the latch hangs", fname(fn), iposEsc(c, esc)))
		})
	}
	c.R.Min("R-once-complete", 1)
	_ = n
}

// ---------------------------------------------------------------- R-send-vs-close
// A channel kept in a table is closed by whoever removes it (the waiting call when it gives up, close() for all that
// are left) — under the table's lock. A reader goroutine that looks the channel up, RELEASES the lock and then sends
// can send on a channel that was closed in between: `send on closed channel` panics the reader and every later answer
// is lost. The send must happen while the table's lock is still held (it is non-blocking, so that is cheap).
func c07SendVsClose(c *Ctx, fns []*ssa.Function) {
	ls := c.Locks()
	// tables whose element channels are closed somewhere, and the lock held at those closes
	type tinfo struct{ lock string }
	tables := map[string]*tinfo{}
	for _, cs := range closeSites(c, fns) {
		tbl := ""
		if strings.HasSuffix(cs.field, "[*]") {
			tbl = strings.TrimSuffix(cs.field, "[*]")
		} else {
			// close(ch) where ch was made in this function and registered in a table
			if mk, ok := unspill(cs.call.Common().Args[0]).(*ssa.MakeChan); ok {
				for _, t := range registeredIn(c, mk, 0) {
					tbl = t
				}
			} else {
				for _, t := range registeredIn(c, unspill(cs.call.Common().Args[0]), 0) {
					tbl = t
				}
			}
		}
		if tbl == "" {
			continue
		}
		held := ls.At(cs.call.(ssa.Instruction))
		for k, h := range held {
			if h.Write && !strings.HasPrefix(k, "path:") {
				if tables[tbl] == nil {
					tables[tbl] = &tinfo{lock: k}
				}
			}
		}
	}
	n := 0
	for _, fn := range fns {
		ir.EachInstr(fn, func(_ *ssa.BasicBlock, _ int, in ssa.Instruction) {
			var chans []ssa.Value
			switch x := in.(type) {
			case *ssa.Select:
				for _, st := range x.States {
					if st.Dir == types.SendOnly {
						chans = append(chans, st.Chan)
					}
				}
			case *ssa.Send:
				chans = append(chans, x.Chan)
			}
			for _, ch := range chans {
				for tbl, ti := range tables {
					if !fromTableLookup(ir.Unwrap(ch), tbl) {
						continue
					}
					n++
					held := ls.At(in)
					_, ok := held[ti.lock]
					c.R.Check(ok, "R-send-vs-close", "send on an entry of "+tbl+" in "+fname(fn), c.Pos(in.Pos()), "the table's lock "+ti.lock+" is held across lookup and send",
						sprintf("%s looks a channel up in %s, releases %s and then sends on it, while the entry's owner (or close()) closes that channel under the lock: a send that loses the race panics with 'send on closed channel', the reader goroutine dies and every later answer is lost", fname(fn), tbl, ti.lock))
				}
			}
		})
	}
	if n == 0 {
		c.R.Hold("R-send-vs-close", "no send on a channel taken from a table whose channels are closed", "", "")
	}
}

// ---------------------------------------------------------------- R-answer-nonnil
// The Connector operations dereference the answer their transport returns whenever the error is nil. A transport method
// that can return (nil answer, nil error) — for instance because a frame that merely carries the call's id, without
// result or error, is taken for the answer — makes the client panic on server-controlled input. For every function on
// the answer path (returning *json.RawMessage and error) each `return v, nil` must have v provably non-nil: the address
// of a local, a value guarded by `v != nil`, a value paired with a flag that is only set where v is assigned a non-nil
// value, or the result of a callee with the same guarantee. Functions that legitimately return (nil, nil) to mean "not
// the answer yet" may do so; what they return is then treated as possibly nil by their callers.
func c07AnswerNonNil(c *Ctx, fns []*ssa.Function) {
	isAnswerFn := func(fn *ssa.Function) bool {
		r := fn.Signature.Results()
		return r.Len() == 2 && ir.TypeStr(r.At(0).Type()) == "*encoding/json.RawMessage" && ir.TypeStr(r.At(1).Type()) == "error"
	}
	mayNilNil := map[*ssa.Function]bool{}
	var nonNil func(fn *ssa.Function, v ssa.Value, use *ssa.BasicBlock, d int) bool
	nonNil = func(fn *ssa.Function, v ssa.Value, use *ssa.BasicBlock, d int) bool {
		if v == nil || d > 6 {
			return false
		}
		// guarded at the use
		for _, g := range flow.Guards(fn, use) {
			if gv, op, ok := nilCompare(g.If.Cond); ok && gv == v {
				if (op == token.NEQ) == g.Branch {
					return true
				}
			}
		}
		switch x := v.(type) {
		case *ssa.Alloc:
			return true
		case *ssa.Const:
			return false
		case *ssa.Extract:
			if call, ok := x.Tuple.(*ssa.Call); ok && x.Index == 0 {
				callees := ir.Callees(c.G, call)
				if len(callees) == 0 {
					return false
				}
				for _, cal := range callees {
					if !c.P.IsLib(cal) || !isAnswerFn(cal) || mayNilNil[cal] {
						return false
					}
				}
				// non-nil provided the error was nil on this path: the use is on the err == nil edge
				for _, g := range flow.Guards(fn, use) {
					if gv, op, ok := nilCompare(g.If.Cond); ok && ir.TypeStr(gv.Type()) == "error" {
						if ex, ok := gv.(*ssa.Extract); ok && ex.Tuple == x.Tuple {
							if (op == token.EQL) == g.Branch {
								return true
							}
						}
					}
				}
				return false
			}
			// comma-ok receive / lookup: unknown
			return false
		case *ssa.Phi:
			// (a) every edge non-nil
			all := true
			for i, e := range x.Edges {
				if e == ssa.Value(x) {
					continue
				}
				if !nonNil(fn, e, x.Block().Preds[i], d+1) {
					all = false
				}
			}
			if all {
				return true
			}
			// (b) paired with a flag: the use is controlled by the true edge of a bool phi F of the same block whose
			// edges are true only where this phi's edge is non-nil
			for _, g := range flow.Guards(fn, use) {
				fphi, ok := g.If.Cond.(*ssa.Phi)
				if !ok || !g.Branch || fphi.Block() != x.Block() || len(fphi.Edges) != len(x.Edges) {
					continue
				}
				paired := true
				for i, fe := range fphi.Edges {
					ve := x.Edges[i]
					switch {
					case fe == ssa.Value(fphi):
						if ve != ssa.Value(x) && !nonNil(fn, ve, x.Block().Preds[i], d+1) {
							paired = false
						}
					default:
						if cst, ok := fe.(*ssa.Const); ok && cst.Value != nil && cst.Value.String() == "false" {
							continue
						}
						if ve == ssa.Value(x) || !nonNil(fn, ve, x.Block().Preds[i], d+1) {
							paired = false
						}
					}
				}
				if paired {
					return true
				}
			}
			return false
		case *ssa.UnOp:
			if x.Op == token.MUL {
				if al, ok := x.X.(*ssa.Alloc); ok {
					// a captured / spilled local: all stored values non-nil
					okAll, n := true, 0
					for _, r := range *al.Referrers() {
						if st, ok := r.(*ssa.Store); ok && st.Addr == ssa.Value(al) {
							if ir.IsNilConst(st.Val) {
								continue // `var result *T` zero initialisation; what counts is what is assigned later
							}
							n++
							if !nonNil(fn, st.Val, st.Block(), d+1) {
								okAll = false
							}
						}
						// assigned inside a closure that returns the error of the same call: `result, err = f(); return err`
						// — whoever sees the closure (the retry executor) report nil sees a non-nil result
						if mc, ok := r.(*ssa.MakeClosure); ok {
							cf, _ := mc.Fn.(*ssa.Function)
							if cf == nil {
								continue
							}
							for bi, b := range mc.Bindings {
								if b != ssa.Value(al) || bi >= len(cf.FreeVars) {
									continue
								}
								fv := cf.FreeVars[bi]
								// the cell is handed to an attempt helper `func(…, out **T) error { *out, err = f(); return err }`
								// whose error the closure returns
								for _, fr := range *fv.Referrers() {
									hc, ok := fr.(*ssa.Call)
									if !ok {
										continue
									}
									h := ir.StaticCallee(hc)
									if h == nil || !c.P.IsLib(h) || h.Blocks == nil {
										continue
									}
									for ai, a := range hc.Call.Args {
										if a != ssa.Value(fv) || ai >= len(h.Params) {
											continue
										}
										n++
										good := false
										p := h.Params[ai]
										for _, pr := range *p.Referrers() {
											st, ok := pr.(*ssa.Store)
											if !ok || st.Addr != ssa.Value(p) {
												continue
											}
											ex, ok := st.Val.(*ssa.Extract)
											if !ok || ex.Index != 0 {
												continue
											}
											call, ok := ex.Tuple.(*ssa.Call)
											if !ok {
												continue
											}
											okCallee := true
											for _, cal := range ir.Callees(c.G, call) {
												if !isAnswerFn(cal) || mayNilNil[cal] {
													okCallee = false
												}
											}
											retErr := false
											ir.EachInstr(h, func(_ *ssa.BasicBlock, _ int, in ssa.Instruction) {
												if rr, ok := in.(*ssa.Return); ok && len(ir.Results(rr)) == 1 {
													if e2, ok := unspill(ir.Results(rr)[0]).(*ssa.Extract); ok && e2.Tuple == ex.Tuple && e2.Index == 1 {
														retErr = true
													}
												}
											})
											passesOn := false
											ir.EachInstr(cf, func(_ *ssa.BasicBlock, _ int, in ssa.Instruction) {
												if rr, ok := in.(*ssa.Return); ok && len(ir.Results(rr)) == 1 && unspill(ir.Results(rr)[0]) == ssa.Value(hc) {
													passesOn = true
												}
											})
											good = okCallee && retErr && passesOn
										}
										if !good {
											okAll = false
										}
									}
								}
								for _, fr := range *fv.Referrers() {
									st, ok := fr.(*ssa.Store)
									if !ok || st.Addr != ssa.Value(fv) {
										continue
									}
									n++
									good := false
									if ex, ok := st.Val.(*ssa.Extract); ok && ex.Index == 0 {
										if call, ok := ex.Tuple.(*ssa.Call); ok {
											okCallee := true
											for _, cal := range ir.Callees(c.G, call) {
												if !isAnswerFn(cal) || mayNilNil[cal] {
													okCallee = false
													if os.Getenv("NILNIL_DEBUG") != "" {
														println("      callee", fname(cal), isAnswerFn(cal), mayNilNil[cal])
													}
												}
											}
											// the closure returns that call's error
											retErr := false
											ir.EachInstr(cf, func(_ *ssa.BasicBlock, _ int, in ssa.Instruction) {
												if rr, ok := in.(*ssa.Return); ok && len(ir.Results(rr)) == 1 {
													if e2, ok := unspill(ir.Results(rr)[0]).(*ssa.Extract); ok && e2.Tuple == ex.Tuple && e2.Index == 1 {
														retErr = true
													}
												}
											})
											good = okCallee && retErr
										}
									}
									if !good {
										okAll = false
										if os.Getenv("NILNIL_DEBUG") != "" {
											println("    closure store not good in", fname(cf), st.Val.String())
										}
									}
								}
							}
						}
					}
					return okAll && n > 0
				}
			}
			return false
		case *ssa.Parameter:
			return false
		}
		return false
	}
	var cands []*ssa.Function
	for _, fn := range fns {
		if isAnswerFn(fn) {
			cands = append(cands, fn)
		}
	}
	compute := func(fn *ssa.Function) bool {
		may := false
		ir.EachInstr(fn, func(blk *ssa.BasicBlock, _ int, in ssa.Instruction) {
			r, ok := in.(*ssa.Return)
			if !ok || blk == fn.Recover {
				return
			}
			rs := ir.Results(r)
			if !ir.IsNilConst(rs[1]) {
				// an error value: fine unless it may be nil itself (tail call handled below)
				tc, ok := rs[1].(*ssa.Extract)
				t0, ok0 := rs[0].(*ssa.Extract)
				if ok && ok0 && tc.Tuple == t0.Tuple { // `return f(...)`: whatever f may return
					if call, ok := tc.Tuple.(*ssa.Call); ok {
						for _, cal := range ir.Callees(c.G, call) {
							if mayNilNil[cal] {
								may = true
							}
						}
					}
				}
				return
			}
			if !nonNil(fn, rs[0], blk, 0) {
				may = true
				if os.Getenv("NILNIL_DEBUG") != "" {
					println("  MAY", fname(fn), c.Pos(r.Pos()), rs[0].String())
				}
			}
		})
		return may
	}
	// greatest fixpoint from "nobody may": iterate until stable
	for iter := 0; iter < 6; iter++ {
		changed := false
		for _, fn := range cands {
			if m := compute(fn); m != mayNilNil[fn] {
				mayNilNil[fn] = m
				changed = true
			}
		}
		if !changed {
			break
		}
	}
	if os.Getenv("NILNIL_DEBUG") != "" {
		for _, fn := range cands {
			println("NILNIL", fname(fn), mayNilNil[fn])
		}
	}
	// the methods the Connector operations call: the transport's request method
	tr := c.transportIface()
	if tr == nil {
		c.R.Break("anchor not found: the clients' transport interface (by shape)")
		return
	}
	it := tr.Underlying().(*types.Interface)
	n := 0
	for i := 0; i < it.NumMethods(); i++ {
		sig := it.Method(i).Type().(*types.Signature)
		if sig.Results().Len() != 2 || ir.TypeStr(sig.Results().At(0).Type()) != "*encoding/json.RawMessage" {
			continue
		}
		for _, T := range c.P.Implementers(it) {
			m := c.P.Method(T, it.Method(i).Name())
			if m == nil {
				continue
			}
			n++
			c.R.Check(!mayNilNil[m], "R-answer-nonnil", ir.TypeKey(T)+"."+m.Name()+" never returns (nil, nil)", c.Pos(m.Pos()), "every `return v, nil` on the answer path has v non-nil",
				sprintf("%s can return a nil answer together with a nil error (through %s): the client operations dereference the answer whenever the error is nil, so a frame the server controls crashes the client", fname(m), nilNilChain(c, m, mayNilNil)))
		}
	}
	c.R.Min("R-answer-nonnil", 3)
}

func nilNilChain(c *Ctx, fn *ssa.Function, may map[*ssa.Function]bool) string {
	var names []string
	for f := range c.ReachSync(fn) {
		if may[f] && f != fn {
			names = append(names, fname(f))
		}
	}
	sort.Strings(names)
	if len(names) > 4 {
		names = names[:4]
	}
	return strings.Join(names, ", ")
}

// scannersBounded: stream readers do not use bufio.Scanner with its default 64 KiB token limit (a longer line — an
// answer of ordinary size is enough — ends the reader with ErrTooLong and the frame, and all later ones, are lost).
func scannersBounded(c *Ctx, fns []*ssa.Function, rule string) {
	nSc := 0
	for _, fn := range fns {
		ir.EachInstr(fn, func(_ *ssa.BasicBlock, _ int, in ssa.Instruction) {
			call, ok := in.(*ssa.Call)
			if !ok || ir.CallName(call) != "bufio.NewScanner" {
				return
			}
			nSc++
			buffered := false
			for _, r := range *call.Referrers() {
				if rc, ok := r.(*ssa.Call); ok && ir.CallName(rc) == "(*bufio.Scanner).Buffer" {
					// the configured maximum must be generous (>= 16 MiB)
					if max, ok := ir.ConstInt(rc.Call.Args[2]); ok && max >= 1<<24 {
						buffered = true
					}
				}
			}
			c.R.Check(buffered, rule, "scanner in "+fname(fn), c.Pos(call.Pos()), "an explicit buffer limit is configured",
				sprintf("%s reads the peer's stream with a bufio.Scanner at its default 64 KiB token limit: one longer line ends the reader with ErrTooLong and every later frame is silently lost", fname(fn)))
		})
	}
	if nSc == 0 {
		c.R.Hold(rule, "no bufio.Scanner on peer streams", "", "all stream readers use bufio.Reader")
	}
	c.R.Min(rule, 1)
}

// c07HeaderValuesValidated (R-header-value): what a client copies from one of its members into a header of its requests
// must be a valid header value, or net/http refuses to send the request — every later call fails. A member that is fed
// from the server's stream (an SSE `id:` line) is therefore stored only after a test of the value: every store of such
// a member takes a constant, a value read from a response header (valid by construction), or is control dependent on a
// predicate over the value — in the storing function or at each of its call sites.
func c07HeaderValuesValidated(c *Ctx, fns []*ssa.Function) {
	fed := map[string]string{} // member -> header name
	for _, fn := range fns {
		ir.EachCall(fn, func(call ssa.CallInstruction) {
			n := ir.CallName(call)
			if n != "(net/http.Header).Set" && n != "(net/http.Header).Add" {
				return
			}
			args := call.Common().Args
			if len(args) != 3 {
				return
			}
			k, ok := ir.ConstStr(args[1])
			if !ok {
				return
			}
			if f, _, ok := ir.LoadedField(args[2]); ok && ir.TypeStr(f.Type) == "string" {
				fed[f.Key()] = k
			}
		})
	}
	var safe func(fn *ssa.Function, v ssa.Value, d int) bool
	weakPred := ""
	predicateOver := func(fn *ssa.Function, at ssa.Instruction, v ssa.Value) bool {
		pd := flow.NewPostDom(fn)
		for _, g := range pd.ControlDepsTransitive(at.Block()) {
			cond := g.If.Cond
			for {
				if u, ok := cond.(*ssa.UnOp); ok && u.Op == token.NOT {
					cond = u.X
					continue
				}
				break
			}
			if call, ok := cond.(*ssa.Call); ok {
				for _, a := range call.Call.Args {
					if a == v {
						// the library's own validator has to reject what net/http rejects in a header value: the C0
						// control bytes other than tab, and DEL
						if sc := ir.StaticCallee(call); sc != nil && c.P.IsLib(sc) && !rejectsControlBytes(c, sc) {
							weakPred = fname(sc)
							continue
						}
						return true
					}
				}
			}
		}
		return false
	}
	safe = func(fn *ssa.Function, v ssa.Value, d int) bool {
		if d > 12 {
			return false // a loop-carried value: not one of the safe origins
		}
		switch x := v.(type) {
		case *ssa.Const:
			return true
		case *ssa.Call:
			if n := ir.CallName(x); n == "(net/http.Header).Get" {
				return true
			}
			// a trimmed header value is still a header value
			if n := ir.CallName(x); strings.HasPrefix(n, "strings.Trim") && len(x.Call.Args) > 0 {
				return safe(fn, x.Call.Args[0], d+1)
			}
			// a library helper all of whose results are safe (sessionIDFrom(resp) returning the header value)
			if sc := ir.StaticCallee(x); sc != nil && c.P.IsLib(sc) && sc.Blocks != nil && sc.Signature.Results().Len() == 1 {
				for _, b := range sc.Blocks {
					if ret, ok := b.Instrs[len(b.Instrs)-1].(*ssa.Return); ok {
						for _, res := range ir.Results(ret) {
							if !safe(sc, unspill(res), d+1) {
								return false
							}
						}
					}
				}
				return true
			}
		case *ssa.Phi:
			for _, e := range x.Edges {
				if !safe(fn, e, d+1) {
					return false
				}
			}
			return true
		}
		return false
	}
	n := 0
	for _, fn := range c.P.LibFns {
		if c.InitOnly()[fn] || !clientSide(c, fn) {
			continue
		}
		ir.EachInstr(fn, func(_ *ssa.BasicBlock, _ int, in ssa.Instruction) {
			st, ok := in.(*ssa.Store)
			if !ok {
				return
			}
			fa, ok := st.Addr.(*ssa.FieldAddr)
			if !ok {
				return
			}
			key, _, _, base := ir.FullField(fa)
			hdr, isFed := fed[key]
			if !isFed || ir.BaseAlloc(base) {
				return
			}
			n++
			var storeOK func(fn *ssa.Function, v ssa.Value, at ssa.Instruction, d int) bool
			storeOK = func(fn *ssa.Function, v ssa.Value, at ssa.Instruction, d int) bool {
				if safe(fn, v, 0) || predicateOver(fn, at, v) {
					return true
				}
				p, isParam := v.(*ssa.Parameter)
				if !isParam || d > 3 {
					return false
				}
				idx := -1
				for i, q := range fn.Params {
					if q == p {
						idx = i
					}
				}
				callers := 0
				for _, e := range ir.Callers(c.G, fn) {
					if e.Site == nil || !c.P.IsLib(e.Caller.Func) {
						continue
					}
					args := e.Site.Common().Args
					if idx < 0 || idx >= len(args) {
						return false
					}
					callers++
					if !storeOK(e.Caller.Func, args[idx], e.Site, d+1) {
						return false
					}
				}
				return callers > 0
			}
			weakPred = ""
			okStore := storeOK(fn, st.Val, st, 0)
			how := "without testing it"
			if weakPred != "" {
				how = "after a test (" + weakPred + ") that contains no comparison against the control-byte bounds 0x20 and 0x7f (nor unicode.IsControl), so it lets control bytes through"
			}
			c.R.Check(okStore, "R-header-value", "store of "+key+" in "+fname(fn), c.Pos(st.Pos()), "the value is a constant, comes from a response header, or passed a test that rejects control bytes",
				sprintf("%s stores into %s — which the client copies into the %s header of its requests — a value taken from the server's stream %s: an id with a control character makes net/http reject every later request of this client", fname(fn), key, hdr, how))
		})
	}
	var ks []string
	for k, h := range fed {
		ks = append(ks, k+" -> "+h)
	}
	sort.Strings(ks)
	c.R.Extra["members_copied_into_request_headers"] = ks
	c.R.Min("R-header-value", 2)
}

// c07CloseAfterExit (R-close-succeeds): "Close still succeeds" also after the server side has gone away by itself. The
// pipes of a child process are closed by cmd.Wait as soon as the process exits (garbage on stdout makes the transport
// kill it), so in the transports' close path the error of closing a pipe — a closer kept next to an *exec.Cmd — may be
// reported only after errors.Is(err, os.ErrClosed) has been ruled out.
func c07CloseAfterExit(c *Ctx) {
	tr := c.transportIface()
	if tr == nil {
		return
	}
	n := 0
	for _, T := range c.P.Implementers(tr.Underlying().(*types.Interface)) {
		cl := c.P.Method(T, c.transportCloseMethod(tr))
		if cl == nil {
			continue
		}
		for _, fn := range sortedFuncs(c.ReachSync(cl)) {
			if !c.P.IsLib(fn) {
				continue
			}
			var pd *flow.PostDom
			ir.EachInstr(fn, func(_ *ssa.BasicBlock, _ int, in ssa.Instruction) {
				call, ok := in.(*ssa.Call)
				if !ok || !call.Call.IsInvoke() || call.Call.Method.Name() != "Close" || call.Referrers() == nil {
					return
				}
				f, _, ok := ir.LoadedField(call.Call.Value)
				if !ok || f.Struct == nil {
					return
				}
				// a pipe: its record also holds the *exec.Cmd
				st, ok := f.Struct.Underlying().(*types.Struct)
				if !ok {
					return
				}
				hasCmd := false
				for i := 0; i < st.NumFields(); i++ {
					if ir.TypeStr(st.Field(i).Type()) == "*os/exec.Cmd" {
						hasCmd = true
					}
				}
				if !hasCmd {
					return
				}
				// uses of the error beyond nil tests and errors.Is
				var isCalls []*ssa.Call
				var uses []ssa.Instruction
				for _, r := range *call.Referrers() {
					switch x := r.(type) {
					case *ssa.BinOp:
						continue
					case *ssa.Call:
						if ir.CallName(x) == "errors.Is" {
							isCalls = append(isCalls, x)
							continue
						}
						uses = append(uses, x)
					case *ssa.MakeInterface:
						if x.Referrers() != nil {
							for _, rr := range *x.Referrers() {
								uses = append(uses, rr)
							}
						}
					default:
						uses = append(uses, r)
					}
				}
				if len(uses) == 0 {
					return // the error is dropped
				}
				n++
				if pd == nil {
					pd = flow.NewPostDom(fn)
				}
				okAll := true
				for _, u := range uses {
					filtered := false
					for _, g := range pd.ControlDepsTransitive(u.Block()) {
						cond := g.If.Cond
						for {
							if un, ok := cond.(*ssa.UnOp); ok && un.Op == token.NOT {
								cond = un.X
								continue
							}
							break
						}
						for _, ic := range isCalls {
							if cond == ssa.Value(ic) {
								if gl, ok := ic.Call.Args[1].(*ssa.UnOp); ok {
									if g2, ok := gl.X.(*ssa.Global); ok && g2.Name() == "ErrClosed" {
										filtered = true
									}
								}
							}
						}
					}
					if !filtered {
						okAll = false
					}
				}
				c.R.Check(okAll, "R-close-succeeds", "error of closing "+f.Key()+" in "+fname(fn), c.Pos(call.Pos()), "reported only when it is not 'already closed'",
					sprintf("%s reports the error of closing %s without ruling out os.ErrClosed: after the child process has exited on its own (cmd.Wait closes the pipes) Close fails with 'file already closed' instead of succeeding", fname(fn), f.Key()))
			})
		}
	}
	// the same for ending the child: once it has exited by itself (garbage on stdout makes the reader cancel the
	// transport, which kills and reaps it) Signal and Kill fail with os.ErrProcessDone. Their error may be reported by
	// close only where that is ruled out (errors.Is), or in the arm of a select taken instead of the receive that
	// says the child has exited.
	for _, T := range c.P.Implementers(tr.Underlying().(*types.Interface)) {
		cl := c.P.Method(T, c.transportCloseMethod(tr))
		if cl == nil {
			continue
		}
		for _, fn := range sortedFuncs(c.ReachSync(cl)) {
			if !c.P.IsLib(fn) {
				continue
			}
			var pd *flow.PostDom
			ir.EachInstr(fn, func(_ *ssa.BasicBlock, _ int, in ssa.Instruction) {
				call, ok := in.(*ssa.Call)
				if !ok || call.Referrers() == nil {
					return
				}
				nm := ir.CallName(call)
				if nm != "(*os.Process).Kill" && nm != "(*os.Process).Signal" {
					return
				}
				var isCalls []*ssa.Call
				var uses []ssa.Instruction
				for _, r := range *call.Referrers() {
					switch x := r.(type) {
					case *ssa.BinOp:
						continue
					case *ssa.Call:
						if ir.CallName(x) == "errors.Is" {
							isCalls = append(isCalls, x)
							continue
						}
						uses = append(uses, x)
					case *ssa.MakeInterface:
						if x.Referrers() != nil {
							for _, rr := range *x.Referrers() {
								uses = append(uses, rr)
							}
						}
					case *ssa.ChangeInterface:
						if x.Referrers() != nil {
							for _, rr := range *x.Referrers() {
								uses = append(uses, rr)
							}
						}
					default:
						uses = append(uses, r)
					}
				}
				// uses that only log do not make Close fail; a value boxed into a variadic argument list is used by the
				// call that receives the list
				isLog := func(uc *ssa.Call) bool {
					return uc.Call.IsInvoke() && strings.HasSuffix(ir.TypeStr(uc.Call.Value.Type()), "Logger")
				}
				var reporting []ssa.Instruction
				for _, u := range uses {
					if uc, ok := u.(*ssa.Call); ok && isLog(uc) {
						continue
					}
					if st, isStore := u.(*ssa.Store); isStore {
						if ia, ok := st.Addr.(*ssa.IndexAddr); ok {
							if al, ok := ia.X.(*ssa.Alloc); ok && al.Referrers() != nil {
								resolved := false
								for _, ar := range *al.Referrers() {
									sl, ok := ar.(*ssa.Slice)
									if !ok || sl.Referrers() == nil {
										continue
									}
									for _, sr := range *sl.Referrers() {
										if uc, ok := sr.(*ssa.Call); ok {
											resolved = true
											if !isLog(uc) {
												reporting = append(reporting, uc)
											}
										}
									}
								}
								if resolved {
									continue
								}
							}
						}
					}
					reporting = append(reporting, u)
				}
				if len(reporting) == 0 {
					return
				}
				n++
				if pd == nil {
					pd = flow.NewPostDom(fn)
				}
				okAll := true
				for _, u := range reporting {
					filtered := false
					for _, g := range pd.ControlDepsTransitive(u.Block()) {
						cond := g.If.Cond
						for {
							if un, ok := cond.(*ssa.UnOp); ok && un.Op == token.NOT {
								cond = un.X
								continue
							}
							break
						}
						for _, ic := range isCalls {
							if cond == ssa.Value(ic) {
								if gl, ok := ic.Call.Args[1].(*ssa.UnOp); ok {
									if g2, ok := gl.X.(*ssa.Global); ok && g2.Name() == "ErrProcessDone" {
										filtered = true
									}
								}
							}
						}
						// ... or the verdict of a helper that waits in such a select (p.exitedWithin(d))
						if hc, ok := cond.(*ssa.Call); ok {
							if sc := ir.StaticCallee(hc); sc != nil && c.P.IsLib(sc) {
								ir.EachInstr(sc, func(_ *ssa.BasicBlock, _ int, hin ssa.Instruction) {
									if sel, ok := hin.(*ssa.Select); ok && sel.Blocking {
										filtered = true
									}
								})
							}
						}
						// an arm of a select: index test of the select's result
						if bin, ok := cond.(*ssa.BinOp); ok {
							for _, side := range []ssa.Value{bin.X, bin.Y} {
								if ex, ok := side.(*ssa.Extract); ok {
									if sel, ok := ex.Tuple.(*ssa.Select); ok && sel.Blocking {
										filtered = true
									}
								}
							}
						}
					}
					if !filtered {
						okAll = false
					}
				}
				c.R.Check(okAll, "R-close-succeeds", "error of "+nm+" in "+fname(fn), c.Pos(call.Pos()), "reported only when the child cannot have exited already",
					sprintf("%s reports the error of %s without ruling out os.ErrProcessDone: after the child has exited on its own (a server that wrote garbage is killed and reaped by the transport) Close fails with 'process already finished' instead of succeeding", fname(fn), nm))
			})
		}
	}
	if n == 0 {
		c.R.Hold("R-close-succeeds", "no pipe-close error is reported by a transport's close", "", "")
	}
}

// ---------------------------------------------------------------- R-bounded-drain
// Reading a response body only to throw the bytes away ("drain it so that the connection can be reused") is paced and
// bounded by the server, not by the client: a body that never ends keeps the call — whose real answer may long have
// arrived on the event stream — from returning. On the client side a read-to-EOF whose bytes are discarded
// (io.Copy to io.Discard, io.ReadAll with an unused result) must therefore go through io.LimitReader / LimitedReader.
func c07BoundedDrain(c *Ctx, rule string) {
	isBody := func(v ssa.Value) (bool, bool) { // (derives from a Response.Body, bounded)
		bounded := false
		for i := 0; i < 8 && v != nil; i++ {
			switch x := v.(type) {
			case *ssa.MakeInterface:
				v = x.X
			case *ssa.ChangeInterface:
				v = x.X
			case *ssa.Call:
				switch ir.CallName(x) {
				case "io.LimitReader", "net/http.MaxBytesReader":
					bounded = true
					v = x.Call.Args[len(x.Call.Args)-2]
					if ir.CallName(x) == "io.LimitReader" {
						v = x.Call.Args[0]
					}
				default:
					return false, bounded
				}
			case *ssa.UnOp:
				if f, _, ok := ir.LoadedField(x); ok && f.Name == "Body" && f.Struct != nil && ir.TypeKey(f.Struct) == "net/http.Response" {
					return true, bounded
				}
				return false, bounded
			case *ssa.Parameter:
				// a helper handed the body: io.ReadCloser / io.Reader parameter of a client-side function
				s := ir.TypeStr(x.Type())
				return s == "io.ReadCloser" || s == "io.Reader", bounded
			default:
				return false, bounded
			}
		}
		return false, bounded
	}
	n := 0
	for _, fn := range c.P.LibFns {
		if !clientSide(c, fn) {
			continue
		}
		ir.EachInstr(fn, func(_ *ssa.BasicBlock, _ int, in ssa.Instruction) {
			call, ok := in.(*ssa.Call)
			if !ok {
				return
			}
			var src ssa.Value
			discards := false
			switch ir.CallName(call) {
			case "io.Copy":
				src = call.Call.Args[1]
				if mi, ok := call.Call.Args[0].(*ssa.MakeInterface); ok {
					if u, ok := mi.X.(*ssa.UnOp); ok {
						if g, ok := u.X.(*ssa.Global); ok && g.Name() == "Discard" {
							discards = true
						}
					}
				}
				if u, ok := call.Call.Args[0].(*ssa.UnOp); ok {
					if g, ok := u.X.(*ssa.Global); ok && g.Name() == "Discard" {
						discards = true
					}
				}
			case "io.ReadAll", "io/ioutil.ReadAll":
				src = call.Call.Args[0]
				used := false
				if call.Referrers() != nil {
					for _, r := range *call.Referrers() {
						if ex, ok := r.(*ssa.Extract); ok && ex.Index == 0 && ex.Referrers() != nil && len(*ex.Referrers()) > 0 {
							used = true
						}
					}
				}
				discards = !used
			default:
				return
			}
			if !discards {
				return
			}
			body, bounded := isBody(src)
			if !body {
				return
			}
			n++
			c.R.Check(bounded, rule, sprintf("response body drained in %s", fname(fn)), c.Pos(call.Pos()), "the discarded read is bounded by io.LimitReader",
				sprintf("%s reads a response body to its end only to discard the bytes, without a bound: a server whose body never ends (or is very large) keeps the call from returning although its answer has already arrived", fname(fn)))
		})
	}
	if n == 0 {
		c.R.Hold(rule, "no response body is read to EOF only to be discarded", "", "client-side io.Copy(io.Discard, …) / unused io.ReadAll of a response body: none")
	}
}

// rejectsControlBytes: the predicate (or a library function it calls) compares bytes against both bounds of the range
// net/http refuses in header values — an ordered comparison with 0x20 (or 0x1f) and a comparison with 0x7f (or an
// ordered one with 0x7e) — or delegates to unicode.IsControl / a ValidHeaderFieldValue.
func rejectsControlBytes(c *Ctx, pred *ssa.Function) bool {
	lo, hi := false, false
	for _, f := range sortedFuncs(c.Reach(pred)) {
		if f != pred && !c.P.IsLib(f) {
			continue
		}
		ir.EachInstr(f, func(_ *ssa.BasicBlock, _ int, in ssa.Instruction) {
			switch x := in.(type) {
			case *ssa.BinOp:
				k, ok := ir.ConstInt(x.Y)
				if !ok {
					k, ok = ir.ConstInt(x.X)
				}
				if !ok {
					return
				}
				ordered := x.Op == token.LSS || x.Op == token.LEQ || x.Op == token.GTR || x.Op == token.GEQ
				if (k == 0x20 || k == 0x1f) && ordered {
					lo = true
				}
				if (k == 0x7f && (ordered || x.Op == token.EQL || x.Op == token.NEQ)) || (k == 0x7e && ordered) {
					hi = true
				}
			case ssa.CallInstruction:
				n := ir.CallName(x)
				if n == "unicode.IsControl" || strings.HasSuffix(n, "ValidHeaderFieldValue") {
					lo, hi = true, true
				}
			}
		})
	}
	return lo && hi
}

// frameProducer: fn decodes exactly one value from a *json.Decoder parameter (outside any loop) and its last result is
// that Decode's error: `func nextFrame(dec *json.Decoder) (json.RawMessage, error)`. Returns the decoder's parameter index.
func frameProducer(c *Ctx, fn *ssa.Function) (int, bool) {
	if fn == nil || !c.P.IsLib(fn) || fn.Blocks == nil {
		return 0, false
	}
	res := fn.Signature.Results()
	if res.Len() < 1 || ir.TypeStr(res.At(res.Len()-1).Type()) != "error" {
		return 0, false
	}
	var dec *ssa.Call
	n := 0
	ir.EachInstr(fn, func(_ *ssa.BasicBlock, _ int, in ssa.Instruction) {
		if call, ok := in.(*ssa.Call); ok && ir.CallName(call) == "(*encoding/json.Decoder).Decode" {
			dec = call
			n++
		}
	})
	if n != 1 || flow.InCycle(dec.Block()) {
		return 0, false
	}
	p, ok := dec.Call.Args[0].(*ssa.Parameter)
	if !ok {
		return 0, false
	}
	returnsErr := false
	ir.EachInstr(fn, func(_ *ssa.BasicBlock, _ int, in ssa.Instruction) {
		if ret, ok := in.(*ssa.Return); ok {
			rs := ir.Results(ret)
			if len(rs) > 0 && unspill(rs[len(rs)-1]) == ssa.Value(dec) {
				returnsErr = true
			}
		}
	})
	if !returnsErr {
		return 0, false
	}
	for i, q := range fn.Params {
		if q == p {
			return i, true
		}
	}
	return 0, false
}
