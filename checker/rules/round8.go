package rules

import (
	"go/token"
	"go/types"
	"sort"
	"strings"

	"golang.org/x/tools/go/ssa"

	"verif/checker/flow"
	"verif/checker/ir"
)

// Rules added after the eighth round of independently seeded changes. Each decides a structural necessary condition
// of the property it is listed under (see DESIGN.md §9.5, round 8).

// ---------------------------------------------------------------- R-request-cancellable (C08)
// "Close releases everything": an HTTP request the client transport issues must be abortable by whoever owns the
// transport. The context handed to http.NewRequestWithContext therefore descends — through context.With* calls — from
// a parameter, a member of the transport, or a detached context (WithoutCancel / Background) that was made cancellable
// again by a With* call whose cancel function is kept in a struct member (so that close() can call it). A request made
// under `WithTimeout(WithoutCancel(ctx))` with a merely deferred cancel outlives Close until its own timeout.
func c08RequestCancellable(c *Ctx) {
	isWith := func(n string) bool {
		switch n {
		case "context.WithCancel", "context.WithTimeout", "context.WithDeadline", "context.WithCancelCause", "context.WithTimeoutCause", "context.WithDeadlineCause":
			return true
		}
		return false
	}
	cancelOwned := func(call *ssa.Call) bool {
		owned := false
		for _, r := range *call.Referrers() {
			ex, ok := r.(*ssa.Extract)
			if !ok || ex.Index != 1 {
				continue
			}
			for _, u := range *ex.Referrers() {
				if st, ok := u.(*ssa.Store); ok && st.Val == ssa.Value(ex) {
					if _, isField := st.Addr.(*ssa.FieldAddr); isField {
						owned = true
					}
					// spilled into a cell that is then copied into a member
					if al, ok := st.Addr.(*ssa.Alloc); ok {
						for _, ar := range *al.Referrers() {
							if ld, ok := ar.(*ssa.UnOp); ok && ld.Op == token.MUL {
								for _, lr := range *ld.Referrers() {
									if st2, ok := lr.(*ssa.Store); ok {
										if _, isField := st2.Addr.(*ssa.FieldAddr); isField {
											owned = true
										}
									}
								}
							}
						}
					}
				}
			}
		}
		return owned
	}
	type key struct {
		fn *ssa.Function
		v  ssa.Value
	}
	var walk func(fn *ssa.Function, v ssa.Value, d int, seen map[key]bool) string
	walk = func(fn *ssa.Function, v ssa.Value, d int, seen map[key]bool) string {
		if d > 16 || seen[key{fn, v}] {
			return ""
		}
		seen[key{fn, v}] = true
		switch x := v.(type) {
		case *ssa.Extract:
			return walk(fn, x.Tuple, d+1, seen)
		case *ssa.Call:
			n := ir.CallName(x)
			switch {
			case isWith(n):
				if cancelOwned(x) {
					return ""
				}
				return walk(fn, x.Call.Args[0], d+1, seen)
			case n == "context.WithValue":
				return walk(fn, x.Call.Args[0], d+1, seen)
			case n == "context.Background" || n == "context.TODO":
				return n + "() in " + fname(fn)
			case strings.HasSuffix(n, ".WithoutCancel"):
				return "WithoutCancel in " + fname(fn)
			}
			for _, a := range x.Call.Args {
				if ir.TypeStr(a.Type()) == "context.Context" {
					if r := walk(fn, a, d+1, seen); r != "" {
						return r
					}
				}
			}
			return ""
		case *ssa.Phi:
			for _, e := range x.Edges {
				if r := walk(fn, e, d+1, seen); r != "" {
					return r
				}
			}
			return ""
		case *ssa.ChangeInterface:
			return walk(fn, x.X, d+1, seen)
		case *ssa.MakeInterface:
			return walk(fn, x.X, d+1, seen)
		case *ssa.UnOp:
			if x.Op != token.MUL {
				return ""
			}
			if al, ok := x.X.(*ssa.Alloc); ok {
				for _, r := range *al.Referrers() {
					if st, ok := r.(*ssa.Store); ok && st.Addr == ssa.Value(al) {
						if why := walk(fn, st.Val, d+1, seen); why != "" {
							return why
						}
					}
				}
			}
			if fv, ok := x.X.(*ssa.FreeVar); ok {
				return walk(fn, fv, d+1, seen)
			}
			return "" // a member: owned by the record it is kept in
		case *ssa.FreeVar:
			parent := fn.Parent()
			if parent == nil {
				return ""
			}
			idx := -1
			for i, f := range fn.FreeVars {
				if f == x {
					idx = i
				}
			}
			why := ""
			ir.EachInstr(parent, func(_ *ssa.BasicBlock, _ int, in ssa.Instruction) {
				mc, ok := in.(*ssa.MakeClosure)
				if !ok || mc.Fn != ssa.Value(fn) || idx < 0 || idx >= len(mc.Bindings) || why != "" {
					return
				}
				b := mc.Bindings[idx]
				if al, ok := b.(*ssa.Alloc); ok {
					for _, r := range *al.Referrers() {
						if st, ok := r.(*ssa.Store); ok && st.Addr == ssa.Value(al) && why == "" {
							why = walk(parent, st.Val, d+1, seen)
						}
					}
					return
				}
				why = walk(parent, b, d+1, seen)
			})
			return why
		case *ssa.Parameter:
			if d > 10 {
				return ""
			}
			idx := -1
			for i, p := range fn.Params {
				if p == x {
					idx = i
				}
			}
			for _, e := range ir.Callers(c.G, fn) {
				if e.Site == nil || !c.P.IsLib(e.Caller.Func) {
					continue
				}
				args := e.Site.Common().Args
				off := 0
				if e.Site.Common().IsInvoke() {
					off = 1
				}
				if idx-off < 0 || idx-off >= len(args) {
					continue
				}
				if _, isGo := e.Site.(*ssa.Go); isGo {
					// a goroutine's context: followed the same way
				}
				if why := walk(e.Caller.Func, args[idx-off], d+1, seen); why != "" {
					return why
				}
			}
			return ""
		}
		return ""
	}
	n := 0
	for _, fn := range c.P.LibFns {
		if !clientSide(c, fn) {
			continue
		}
		cnt := 0
		ir.EachCall(fn, func(call ssa.CallInstruction) {
			if ir.CallName(call) != "net/http.NewRequestWithContext" || len(call.Common().Args) < 1 {
				return
			}
			n++
			cnt++
			why := walk(fn, call.Common().Args[0], 0, map[key]bool{})
			c.R.Check(why == "", "R-request-cancellable", sprintf("context of HTTP request #%d built in %s", cnt, fname(ir.Outer(fn))), c.Pos(call.Pos()),
				"descends from the caller's context, a member of the transport, or a detached context whose cancel function the transport keeps",
				sprintf("%s issues an HTTP request under a context cut off from every cancellation the transport or its caller controls (%s, wrapped only by a With* call whose cancel function is not kept in a member): Close cannot abort the request, so its goroutine and connection outlive Close until the request's own timeout", fname(fn), why))
		})
	}
	c.R.Min("R-request-cancellable", 6)
}

// ---------------------------------------------------------------- R-timer-writes (C09, C20)
// A function run by time.AfterFunc runs on a goroutine of its own and (*time.Timer).Stop does not wait for a callback
// that has already started: such a callback cannot be joined. It therefore must not write to (or flush) an
// http.ResponseWriter — the handler that owns the writer may have returned, and net/http recycles the writer's buffers.
func timerCallbacksDoNotWrite(c *Ctx, rule string) {
	n := 0
	writesStream := func(fn *ssa.Function) ssa.Instruction {
		var at ssa.Instruction
		ir.EachCall(fn, func(call ssa.CallInstruction) {
			if at != nil {
				return
			}
			cc := call.Common()
			if cc.IsInvoke() {
				t := ir.TypeStr(cc.Value.Type())
				if (t == "net/http.ResponseWriter" && (cc.Method.Name() == "Write" || cc.Method.Name() == "WriteHeader")) || (t == "net/http.Flusher" && cc.Method.Name() == "Flush") {
					at = call
				}
				return
			}
			for _, a := range cc.Args {
				v := a
				if mi, ok := v.(*ssa.MakeInterface); ok {
					v = mi.X
				}
				if ci, ok := v.(*ssa.ChangeInterface); ok {
					v = ci.X
				}
				if isResponseWriter(v.Type()) && !c.P.IsLib(ir.StaticCallee(call)) {
					at = call
				}
			}
		})
		return at
	}
	for _, fn := range c.P.LibFns {
		ir.EachCall(fn, func(call ssa.CallInstruction) {
			if ir.CallName(call) != "time.AfterFunc" || len(call.Common().Args) != 2 {
				return
			}
			n++
			cb := funcValue(call.Common().Args[1])
			if cb == nil {
				if mc, ok := call.Common().Args[1].(*ssa.MakeClosure); ok {
					// bound method closure: k.fire
					if f, ok := mc.Fn.(*ssa.Function); ok {
						cb = f
					}
				}
			}
			if cb == nil {
				c.R.Hold(rule, sprintf("timer callback set in %s", fname(fn)), c.Pos(call.Pos()), "callback not resolved to a library function (a user-supplied function)")
				return
			}
			var bad ssa.Instruction
			var inFn *ssa.Function
			for _, f := range sortedFuncs(c.Reach(cb)) {
				if !c.P.IsLib(f) {
					continue
				}
				if at := writesStream(f); at != nil {
					bad, inFn = at, f
					break
				}
			}
			detail := ""
			if bad != nil {
				detail = sprintf("%s arms a timer whose callback %s writes the response stream in %s (%s): Stop does not wait for a callback that is already running, so the write can happen after the handler that owns the http.ResponseWriter has returned and net/http has recycled it — the frame lands in whatever the buffer is used for next", fname(fn), fname(cb), fname(inFn), c.Pos(bad.Pos()))
			}
			c.R.Check(bad == nil, rule, sprintf("timer callback set in %s", fname(fn)), c.Pos(call.Pos()), "the callback does not write an http.ResponseWriter", detail)
		})
	}
	if n == 0 {
		c.R.Hold(rule, "no time.AfterFunc callback in the library", "", "")
	}
}

// ---------------------------------------------------------------- R-classify-by-presence (C01)
// A JSON-RPC answer whose result is null is still an answer. Where the library classifies a decoded message held in a
// map[string]interface{} by its "id" / "result" / "error" / "method" members, the test is the comma-ok form (presence);
// comparing the looked-up value with nil takes `"result": null` for "no result" and the answer for a request.
func c01ClassifyByPresence(c *Ctx) {
	members := map[string]bool{"id": true, "result": true, "error": true}
	n := 0
	for _, fn := range c.P.LibFns {
		cnt := 0
		ir.EachInstr(fn, func(_ *ssa.BasicBlock, _ int, in ssa.Instruction) {
			lk, ok := in.(*ssa.Lookup)
			if !ok {
				return
			}
			mt, ok := lk.X.Type().Underlying().(*types.Map)
			if !ok {
				return
			}
			if _, isIface := mt.Elem().Underlying().(*types.Interface); !isIface {
				return
			}
			k, ok := ir.ConstStr(lk.Index)
			if !ok || !members[k] {
				return
			}
			// classification only: functions that return a message kind / a bool, or branch on the test
			byValue := false
			var vals []ssa.Value
			if lk.CommaOk {
				for _, r := range *lk.Referrers() {
					if ex, ok := r.(*ssa.Extract); ok && ex.Index == 0 {
						vals = append(vals, ex)
					}
				}
			} else {
				vals = append(vals, lk)
			}
			for _, v := range vals {
				for _, r := range *v.Referrers() {
					if b, ok := r.(*ssa.BinOp); ok && (b.Op == token.EQL || b.Op == token.NEQ) && (ir.IsNilConst(b.X) || ir.IsNilConst(b.Y)) {
						byValue = true
					}
				}
			}
			if !lk.CommaOk && !byValue {
				return // the value is used, not tested
			}
			if lk.CommaOk && byValue {
				// `v, ok := m[k]; ok && v != nil`: the flag decides presence, the nil test only guards the use of the value
				for _, r := range *lk.Referrers() {
					if ex, ok := r.(*ssa.Extract); ok && ex.Index == 1 && ex.Referrers() != nil && len(*ex.Referrers()) > 0 {
						byValue = false
					}
				}
			}
			n++
			cnt++
			c.R.Check(!byValue, "R-classify-by-presence", sprintf("test #%d of member %q in %s", cnt, k, fname(fn)), c.Pos(lk.Pos()),
				"presence is decided by the comma-ok form",
				sprintf("%s decides whether the decoded message has a %q member by comparing the looked-up value with nil: a member that is present with the value null (an answer `\"result\": null`, which a handler returning nil produces) counts as absent, the answer is classified as something else and the call waiting for it gets nothing", fname(fn), k))
		})
	}
	c.R.Min("R-classify-by-presence", 2)
}

// ---------------------------------------------------------------- R-no-substring-on-json (C02)
// Whether a raw JSON message is an error answer, a response or anything else is a question about its top-level
// members. A substring search over the raw bytes (bytes.Contains(raw, `"error"`)) also matches the text inside results
// — a tool result containing the word, a member of structured content — and turns a success into an error.
func c02NoSubstringOnJSON(c *Ctx) {
	search := map[string]bool{"bytes.Contains": true, "bytes.Index": true, "bytes.HasPrefix": false, "strings.Contains": true, "strings.Index": true, "bytes.ContainsAny": true, "bytes.Count": true, "strings.Count": true}
	isRaw := func(v ssa.Value) bool {
		for d := 0; d < 6; d++ {
			if strings.HasSuffix(ir.TypeStr(v.Type()), "encoding/json.RawMessage") {
				return true
			}
			switch x := v.(type) {
			case *ssa.ChangeType:
				v = x.X
			case *ssa.Convert:
				v = x.X
			case *ssa.UnOp:
				if x.Op == token.MUL {
					if strings.HasSuffix(ir.TypeStr(x.X.Type()), "encoding/json.RawMessage") {
						return true
					}
				}
				return false
			default:
				return false
			}
		}
		return false
	}
	n, bad := 0, 0
	for _, fn := range c.P.LibFns {
		ir.EachCall(fn, func(call ssa.CallInstruction) {
			name := ir.CallName(call)
			if !search[name] || len(call.Common().Args) < 2 {
				return
			}
			if !isRaw(call.Common().Args[0]) {
				return
			}
			k, isConst := ir.ConstStr(call.Common().Args[1])
			what := "a byte pattern"
			if isConst {
				what = sprintf("%q", k)
			} else if g := globalBytes(call.Common().Args[1]); g != "" {
				what = g
			}
			n++
			bad++
			c.R.Violate("R-no-substring-on-json", sprintf("substring search over a raw JSON message in %s", fname(fn)), c.Pos(call.Pos()),
				sprintf("%s searches the raw bytes of a JSON message for %s: the pattern also occurs inside results (a text item, a member of structured content, an enum value of a schema), so a success answer that merely contains it is classified by its content instead of its top-level members", fname(fn), what))
		})
	}
	// the classification sites that do it right: a decode followed by a member test
	for _, fn := range c.P.LibFns {
		ir.EachCall(fn, func(call ssa.CallInstruction) {
			if ir.CallName(call) != "encoding/json.Unmarshal" || len(call.Common().Args) < 1 {
				return
			}
			if isRaw(call.Common().Args[0]) {
				n++
			}
		})
	}
	c.R.Extra["raw_message_decodes"] = n - bad
	if bad == 0 {
		c.R.Hold("R-no-substring-on-json", "raw JSON messages are decoded, never searched as text", "", sprintf("%d json.Unmarshal calls on json.RawMessage values, no bytes/strings search over one", n))
	}
	if n < 3 {
		c.R.Break("R-no-substring-on-json saw only %d decodes of raw messages", n)
	}
}

func globalBytes(v ssa.Value) string {
	if u, ok := v.(*ssa.UnOp); ok && u.Op == token.MUL {
		if g, ok := u.X.(*ssa.Global); ok {
			return "the bytes of " + g.Name()
		}
	}
	return ""
}

// ---------------------------------------------------------------- R-marshal-receiver (C03)
// encoding/json uses a MarshalJSON declared on the pointer receiver only for addressable values. A wire type whose
// custom encoder (the one that turns a nil slice into `[]`) is declared on *T is encoded by the default rules wherever
// the library boxes a T value into an interface for encoding — the schema-mandated array then goes out as null.
func c03MarshalReceiver(c *Ctx) {
	n := 0
	ptrOnly := map[*types.Named]bool{}
	for _, pkg := range c.P.Pkgs {
		if pkg.Types == nil {
			continue
		}
		sc := pkg.Types.Scope()
		for _, name := range sc.Names() {
			tn, ok := sc.Lookup(name).(*types.TypeName)
			if !ok {
				continue
			}
			named, ok := tn.Type().(*types.Named)
			if !ok {
				continue
			}
			if _, isStruct := named.Underlying().(*types.Struct); !isStruct {
				continue
			}
			has := func(t types.Type) bool {
				ms := types.NewMethodSet(t)
				return ms.Lookup(nil, "MarshalJSON") != nil
			}
			onPtr, onVal := has(types.NewPointer(named)), has(named)
			if !onPtr {
				continue
			}
			n++
			if onVal {
				c.R.Hold("R-marshal-receiver", "custom encoder of "+named.Obj().Name(), c.P.Pos(named.Obj().Pos()), "declared on the value receiver: used for values and pointers alike")
				continue
			}
			ptrOnly[named] = true
		}
	}
	var names []*types.Named
	for t := range ptrOnly {
		names = append(names, t)
	}
	sort.Slice(names, func(i, j int) bool { return names[i].Obj().Name() < names[j].Obj().Name() })
	for _, named := range names {
		var at ssa.Instruction
		var inFn *ssa.Function
		for _, fn := range c.P.LibFns {
			if at != nil {
				break
			}
			ir.EachInstr(fn, func(_ *ssa.BasicBlock, _ int, in ssa.Instruction) {
				if mi, ok := in.(*ssa.MakeInterface); ok && at == nil && types.Identical(mi.X.Type(), named) {
					at, inFn = in, fn
				}
			})
		}
		// a member or element of that type inside another wire type is encoded through the parent's addressability:
		// not decided here
		detail := ""
		if at != nil {
			detail = sprintf("%s declares MarshalJSON on the pointer receiver only, and %s boxes a %s value (not a pointer) into an interface (%s): encoding/json does not call a pointer-receiver encoder for a non-addressable value, so the value is encoded by the default rules and the empty-array/default handling of the custom encoder is lost on the wire", named.Obj().Name(), fname(inFn), named.Obj().Name(), c.Pos(at.Pos()))
		}
		c.R.Check(at == nil, "R-marshal-receiver", "custom encoder of "+named.Obj().Name(), c.P.Pos(named.Obj().Pos()), "declared on the pointer receiver and the library never boxes a value of the type", detail)
	}
	c.R.Min("R-marshal-receiver", 3)
}

// ---------------------------------------------------------------- R-flush-checked (C05)
// A frame assembled in a buffered writer has reached the stream only when Flush succeeded. A sender that drops the
// error of Flush reports success — and the broadcast counters count the session — for a frame the connection refused.
func c05FlushChecked(c *Ctx) {
	n := 0
	for _, fn := range c.P.LibFns {
		cnt := 0
		ir.EachInstr(fn, func(_ *ssa.BasicBlock, _ int, in ssa.Instruction) {
			call, ok := in.(ssa.CallInstruction)
			if !ok {
				return
			}
			cc := call.Common()
			name := ""
			if cc.IsInvoke() {
				name = cc.Method.Name()
			} else if sc := ir.StaticCallee(call); sc != nil {
				name = sc.Name()
			}
			if name != "Flush" {
				return
			}
			sig := cc.Signature()
			if sig == nil || sig.Results().Len() != 1 || ir.TypeStr(sig.Results().At(0).Type()) != "error" {
				return
			}
			n++
			cnt++
			used := false
			if v, ok := in.(*ssa.Call); ok && v.Referrers() != nil && len(*v.Referrers()) > 0 {
				used = true
			}
			c.R.Check(used, "R-flush-checked", sprintf("Flush #%d of a buffered writer in %s", cnt, fname(fn)), c.Pos(in.Pos()), "its error is consulted",
				sprintf("%s drops the error of Flush on a buffered writer: the bytes written before it only went into the buffer, so a frame the connection refused is reported as sent (the send returns nil, the broadcast counts the session)", fname(fn)))
		})
	}
	c.R.Min("R-flush-checked", 2)
}

var _ = flow.Dominates

// serverPathFns: library functions reachable from the server entry points that are not client-side.
func serverPathFns(c *Ctx) []*ssa.Function {
	var fns []*ssa.Function
	for _, f := range sortedFuncs(c.Reach(serverEntries(c)...)) {
		if !clientSide(c, f) {
			fns = append(fns, f)
		}
	}
	return fns
}
