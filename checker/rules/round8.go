package rules

import (
	"go/token"
	"go/types"
	"sort"
	"strings"

	"golang.org/x/tools/go/ssa"

	"verif/checker/flow"
	"verif/checker/ir"
)

// Rules added after the eighth round of independently seeded changes. Each decides a structural necessary condition
// of the property it is listed under (see DESIGN.md §9.5, round 8).

// ---------------------------------------------------------------- R-request-cancellable (C08)
// "Close releases everything": an HTTP request the client transport issues must be abortable by whoever owns the
// transport. The context handed to http.NewRequestWithContext therefore descends — through context.With* calls — from
// a parameter, a member of the transport, or a detached context (WithoutCancel / Background) that was made cancellable
// again by a With* call whose cancel function is kept in a struct member (so that close() can call it). A request made
// under `WithTimeout(WithoutCancel(ctx))` with a merely deferred cancel outlives Close until its own timeout.
func c08RequestCancellable(c *Ctx) {
	walk := detachedWalker(c)
	n := 0
	for _, fn := range c.P.LibFns {
		if !clientSide(c, fn) {
			continue
		}
		cnt := 0
		ir.EachCall(fn, func(call ssa.CallInstruction) {
			if ir.CallName(call) != "net/http.NewRequestWithContext" || len(call.Common().Args) < 1 {
				return
			}
			n++
			cnt++
			why := walk(fn, call.Common().Args[0])
			c.R.Check(why == "", "R-request-cancellable", sprintf("context of HTTP request #%d built in %s", cnt, fname(ir.Outer(fn))), c.Pos(call.Pos()),
				"descends from the caller's context, a member of the transport, or a detached context whose cancel function the transport keeps",
				sprintf("%s issues an HTTP request under a context cut off from every cancellation the transport or its caller controls (%s, wrapped only by a With* call whose cancel function is not kept in a member): Close cannot abort the request, so its goroutine and connection outlive Close until the request's own timeout", fname(fn), why))
		})
	}
	c.R.Min("R-request-cancellable", 6)
}

// detachedWalker returns a function that follows a context value backwards and names the point where it was cut off
// from cancellation (WithoutCancel / Background / TODO) without being made cancellable again by a With* call whose
// cancel function is kept in a member; "" when there is no such point.
func detachedWalker(c *Ctx) func(fn *ssa.Function, v ssa.Value) string {
	isWith := func(n string) bool {
		switch n {
		case "context.WithCancel", "context.WithTimeout", "context.WithDeadline", "context.WithCancelCause", "context.WithTimeoutCause", "context.WithDeadlineCause":
			return true
		}
		return false
	}
	cancelOwned := func(call *ssa.Call) bool {
		owned := false
		for _, r := range *call.Referrers() {
			ex, ok := r.(*ssa.Extract)
			if !ok || ex.Index != 1 {
				continue
			}
			for _, u := range *ex.Referrers() {
				// handed to a library setter that keeps it in a member
				if cl, ok := u.(ssa.CallInstruction); ok {
					if sc := ir.StaticCallee(cl); sc != nil && c.P.IsLib(sc) {
						for i, a := range cl.Common().Args {
							if a != ssa.Value(ex) || i >= len(sc.Params) {
								continue
							}
							p := sc.Params[i]
							for _, pr := range *p.Referrers() {
								if st, ok := pr.(*ssa.Store); ok && st.Val == ssa.Value(p) {
									if _, isField := st.Addr.(*ssa.FieldAddr); isField {
										owned = true
									}
								}
							}
						}
					}
				}
				if st, ok := u.(*ssa.Store); ok && st.Val == ssa.Value(ex) {
					if _, isField := st.Addr.(*ssa.FieldAddr); isField {
						owned = true
					}
					// spilled into a cell that is then copied into a member
					if al, ok := st.Addr.(*ssa.Alloc); ok {
						for _, ar := range *al.Referrers() {
							if ld, ok := ar.(*ssa.UnOp); ok && ld.Op == token.MUL {
								for _, lr := range *ld.Referrers() {
									if st2, ok := lr.(*ssa.Store); ok {
										if _, isField := st2.Addr.(*ssa.FieldAddr); isField {
											owned = true
										}
									}
								}
							}
						}
					}
				}
			}
		}
		return owned
	}
	type key struct {
		fn *ssa.Function
		v  ssa.Value
	}
	var walk func(fn *ssa.Function, v ssa.Value, d int, seen map[key]bool) string
	walk = func(fn *ssa.Function, v ssa.Value, d int, seen map[key]bool) string {
		if d > 16 || seen[key{fn, v}] {
			return ""
		}
		seen[key{fn, v}] = true
		switch x := v.(type) {
		case *ssa.Extract:
			return walk(fn, x.Tuple, d+1, seen)
		case *ssa.Call:
			n := ir.CallName(x)
			switch {
			case isWith(n):
				if cancelOwned(x) {
					return ""
				}
				return walk(fn, x.Call.Args[0], d+1, seen)
			case n == "context.WithValue":
				return walk(fn, x.Call.Args[0], d+1, seen)
			case n == "context.Background" || n == "context.TODO":
				return n + "() in " + fname(fn)
			case strings.HasSuffix(n, ".WithoutCancel"):
				return "WithoutCancel in " + fname(fn)
			}
			for _, a := range x.Call.Args {
				if ir.TypeStr(a.Type()) == "context.Context" {
					if r := walk(fn, a, d+1, seen); r != "" {
						return r
					}
				}
			}
			return ""
		case *ssa.Phi:
			for _, e := range x.Edges {
				if r := walk(fn, e, d+1, seen); r != "" {
					return r
				}
			}
			return ""
		case *ssa.ChangeInterface:
			return walk(fn, x.X, d+1, seen)
		case *ssa.MakeInterface:
			return walk(fn, x.X, d+1, seen)
		case *ssa.UnOp:
			if x.Op != token.MUL {
				return ""
			}
			if al, ok := x.X.(*ssa.Alloc); ok {
				for _, r := range *al.Referrers() {
					if st, ok := r.(*ssa.Store); ok && st.Addr == ssa.Value(al) {
						if why := walk(fn, st.Val, d+1, seen); why != "" {
							return why
						}
					}
				}
			}
			if fv, ok := x.X.(*ssa.FreeVar); ok {
				return walk(fn, fv, d+1, seen)
			}
			return "" // a member: owned by the record it is kept in
		case *ssa.FreeVar:
			parent := fn.Parent()
			if parent == nil {
				return ""
			}
			idx := -1
			for i, f := range fn.FreeVars {
				if f == x {
					idx = i
				}
			}
			why := ""
			ir.EachInstr(parent, func(_ *ssa.BasicBlock, _ int, in ssa.Instruction) {
				mc, ok := in.(*ssa.MakeClosure)
				if !ok || mc.Fn != ssa.Value(fn) || idx < 0 || idx >= len(mc.Bindings) || why != "" {
					return
				}
				b := mc.Bindings[idx]
				if al, ok := b.(*ssa.Alloc); ok {
					for _, r := range *al.Referrers() {
						if st, ok := r.(*ssa.Store); ok && st.Addr == ssa.Value(al) && why == "" {
							why = walk(parent, st.Val, d+1, seen)
						}
					}
					return
				}
				why = walk(parent, b, d+1, seen)
			})
			return why
		case *ssa.Parameter:
			if d > 10 {
				return ""
			}
			idx := -1
			for i, p := range fn.Params {
				if p == x {
					idx = i
				}
			}
			for _, e := range ir.Callers(c.G, fn) {
				if e.Site == nil || !c.P.IsLib(e.Caller.Func) {
					continue
				}
				args := e.Site.Common().Args
				off := 0
				if e.Site.Common().IsInvoke() {
					off = 1
				}
				if idx-off < 0 || idx-off >= len(args) {
					continue
				}
				if _, isGo := e.Site.(*ssa.Go); isGo {
					// a goroutine's context: followed the same way
				}
				if why := walk(e.Caller.Func, args[idx-off], d+1, seen); why != "" {
					return why
				}
			}
			return ""
		}
		return ""
	}
	return func(fn *ssa.Function, v ssa.Value) string { return walk(fn, v, 0, map[key]bool{}) }
}

// ---------------------------------------------------------------- R-timer-writes (C09, C20)
// A function run by time.AfterFunc runs on a goroutine of its own and (*time.Timer).Stop does not wait for a callback
// that has already started: such a callback cannot be joined. It therefore must not write to (or flush) an
// http.ResponseWriter — the handler that owns the writer may have returned, and net/http recycles the writer's buffers.
func timerCallbacksDoNotWrite(c *Ctx, rule string) {
	n := 0
	writesStream := func(fn *ssa.Function) ssa.Instruction {
		var at ssa.Instruction
		ir.EachCall(fn, func(call ssa.CallInstruction) {
			if at != nil {
				return
			}
			cc := call.Common()
			if cc.IsInvoke() {
				t := ir.TypeStr(cc.Value.Type())
				if (t == "net/http.ResponseWriter" && (cc.Method.Name() == "Write" || cc.Method.Name() == "WriteHeader")) || (t == "net/http.Flusher" && cc.Method.Name() == "Flush") {
					at = call
				}
				return
			}
			for _, a := range cc.Args {
				v := a
				if mi, ok := v.(*ssa.MakeInterface); ok {
					v = mi.X
				}
				if ci, ok := v.(*ssa.ChangeInterface); ok {
					v = ci.X
				}
				if isResponseWriter(v.Type()) && !c.P.IsLib(ir.StaticCallee(call)) {
					at = call
				}
			}
		})
		return at
	}
	for _, fn := range c.P.LibFns {
		ir.EachCall(fn, func(call ssa.CallInstruction) {
			if ir.CallName(call) != "time.AfterFunc" || len(call.Common().Args) != 2 {
				return
			}
			n++
			cb := funcValue(call.Common().Args[1])
			if cb == nil {
				if mc, ok := call.Common().Args[1].(*ssa.MakeClosure); ok {
					// bound method closure: k.fire
					if f, ok := mc.Fn.(*ssa.Function); ok {
						cb = f
					}
				}
			}
			if cb == nil {
				c.R.Hold(rule, sprintf("timer callback set in %s", fname(fn)), c.Pos(call.Pos()), "callback not resolved to a library function (a user-supplied function)")
				return
			}
			var bad ssa.Instruction
			var inFn *ssa.Function
			for _, f := range sortedFuncs(c.Reach(cb)) {
				if !c.P.IsLib(f) {
					continue
				}
				if at := writesStream(f); at != nil {
					bad, inFn = at, f
					break
				}
			}
			detail := ""
			if bad != nil {
				detail = sprintf("%s arms a timer whose callback %s writes the response stream in %s (%s): Stop does not wait for a callback that is already running, so the write can happen after the handler that owns the http.ResponseWriter has returned and net/http has recycled it — the frame lands in whatever the buffer is used for next", fname(fn), fname(cb), fname(inFn), c.Pos(bad.Pos()))
			}
			c.R.Check(bad == nil, rule, sprintf("timer callback set in %s", fname(fn)), c.Pos(call.Pos()), "the callback does not write an http.ResponseWriter", detail)
		})
	}
	if n == 0 {
		c.R.Hold(rule, "no time.AfterFunc callback in the library", "", "")
	}
}

// ---------------------------------------------------------------- R-classify-by-presence (C01)
// A JSON-RPC answer whose result is null is still an answer. Where the library classifies a decoded message held in a
// map[string]interface{} by its "id" / "result" / "error" / "method" members, the test is the comma-ok form (presence);
// comparing the looked-up value with nil takes `"result": null` for "no result" and the answer for a request.
func c01ClassifyByPresence(c *Ctx) {
	members := map[string]bool{"id": true, "result": true, "error": true}
	n := 0
	for _, fn := range c.P.LibFns {
		cnt := 0
		ir.EachInstr(fn, func(_ *ssa.BasicBlock, _ int, in ssa.Instruction) {
			lk, ok := in.(*ssa.Lookup)
			if !ok {
				return
			}
			mt, ok := lk.X.Type().Underlying().(*types.Map)
			if !ok {
				return
			}
			if _, isIface := mt.Elem().Underlying().(*types.Interface); !isIface {
				return
			}
			k, ok := ir.ConstStr(lk.Index)
			if !ok || !members[k] {
				return
			}
			// classification only: functions that return a message kind / a bool, or branch on the test
			byValue := false
			var vals []ssa.Value
			if lk.CommaOk {
				for _, r := range *lk.Referrers() {
					if ex, ok := r.(*ssa.Extract); ok && ex.Index == 0 {
						vals = append(vals, ex)
					}
				}
			} else {
				vals = append(vals, lk)
			}
			for _, v := range vals {
				for _, r := range *v.Referrers() {
					if b, ok := r.(*ssa.BinOp); ok && (b.Op == token.EQL || b.Op == token.NEQ) && (ir.IsNilConst(b.X) || ir.IsNilConst(b.Y)) {
						byValue = true
					}
				}
			}
			if !lk.CommaOk && !byValue {
				return // the value is used, not tested
			}
			if lk.CommaOk && byValue {
				// `v, ok := m[k]; ok && v != nil`: the flag decides presence, the nil test only guards the use of the value
				for _, r := range *lk.Referrers() {
					if ex, ok := r.(*ssa.Extract); ok && ex.Index == 1 && ex.Referrers() != nil && len(*ex.Referrers()) > 0 {
						byValue = false
					}
				}
			}
			n++
			cnt++
			c.R.Check(!byValue, "R-classify-by-presence", sprintf("test #%d of member %q in %s", cnt, k, fname(fn)), c.Pos(lk.Pos()),
				"presence is decided by the comma-ok form",
				sprintf("%s decides whether the decoded message has a %q member by comparing the looked-up value with nil: a member that is present with the value null (an answer `\"result\": null`, which a handler returning nil produces) counts as absent, the answer is classified as something else and the call waiting for it gets nothing", fname(fn), k))
		})
	}
	c.R.Min("R-classify-by-presence", 2)
}

// ---------------------------------------------------------------- R-no-substring-on-json (C02)
// Whether a raw JSON message is an error answer, a response or anything else is a question about its top-level
// members. A substring search over the raw bytes (bytes.Contains(raw, `"error"`)) also matches the text inside results
// — a tool result containing the word, a member of structured content — and turns a success into an error.
func c02NoSubstringOnJSON(c *Ctx) {
	search := map[string]bool{"bytes.Contains": true, "bytes.Index": true, "bytes.HasPrefix": false, "strings.Contains": true, "strings.Index": true, "bytes.ContainsAny": true, "bytes.Count": true, "strings.Count": true}
	isRaw := func(v ssa.Value) bool {
		for d := 0; d < 6; d++ {
			if strings.HasSuffix(ir.TypeStr(v.Type()), "encoding/json.RawMessage") {
				return true
			}
			switch x := v.(type) {
			case *ssa.ChangeType:
				v = x.X
			case *ssa.Convert:
				v = x.X
			case *ssa.UnOp:
				if x.Op == token.MUL {
					if strings.HasSuffix(ir.TypeStr(x.X.Type()), "encoding/json.RawMessage") {
						return true
					}
				}
				return false
			default:
				return false
			}
		}
		return false
	}
	n, bad := 0, 0
	for _, fn := range c.P.LibFns {
		ir.EachCall(fn, func(call ssa.CallInstruction) {
			name := ir.CallName(call)
			if !search[name] || len(call.Common().Args) < 2 {
				return
			}
			if !isRaw(call.Common().Args[0]) {
				return
			}
			k, isConst := ir.ConstStr(call.Common().Args[1])
			if !isConst {
				if oc, ok := call.Common().Args[1].(*ssa.Convert); ok {
					k, isConst = ir.ConstStr(oc.X)
				}
			}
			what := "a byte pattern"
			if isConst {
				// a search for a separator (a line break, a brace) is framing, not classification
				word := false
				for _, r := range k {
					if r >= 'a' && r <= 'z' || r >= 'A' && r <= 'Z' {
						word = true
					}
				}
				if !word {
					return
				}
				what = sprintf("%q", k)
			} else if g := globalBytes(call.Common().Args[1]); g != "" {
				what = g
			}
			n++
			bad++
			c.R.Violate("R-no-substring-on-json", sprintf("substring search over a raw JSON message in %s", fname(fn)), c.Pos(call.Pos()),
				sprintf("%s searches the raw bytes of a JSON message for %s: the pattern also occurs inside results (a text item, a member of structured content, an enum value of a schema), so a success answer that merely contains it is classified by its content instead of its top-level members", fname(fn), what))
		})
	}
	// the classification sites that do it right: a decode followed by a member test
	for _, fn := range c.P.LibFns {
		ir.EachCall(fn, func(call ssa.CallInstruction) {
			if ir.CallName(call) != "encoding/json.Unmarshal" || len(call.Common().Args) < 1 {
				return
			}
			if isRaw(call.Common().Args[0]) {
				n++
			}
		})
	}
	c.R.Extra["raw_message_decodes"] = n - bad
	if bad == 0 {
		c.R.Hold("R-no-substring-on-json", "raw JSON messages are decoded, never searched as text", "", sprintf("%d json.Unmarshal calls on json.RawMessage values, no bytes/strings search over one", n))
	}
	if n < 3 {
		c.R.Break("R-no-substring-on-json saw only %d decodes of raw messages", n)
	}
}

func globalBytes(v ssa.Value) string {
	if u, ok := v.(*ssa.UnOp); ok && u.Op == token.MUL {
		if g, ok := u.X.(*ssa.Global); ok {
			return "the bytes of " + g.Name()
		}
	}
	return ""
}

// ---------------------------------------------------------------- R-marshal-receiver (C03)
// encoding/json uses a MarshalJSON declared on the pointer receiver only for addressable values. A wire type whose
// custom encoder (the one that turns a nil slice into `[]`) is declared on *T is encoded by the default rules wherever
// the library boxes a T value into an interface for encoding — the schema-mandated array then goes out as null.
func c03MarshalReceiver(c *Ctx) {
	n := 0
	ptrOnly := map[*types.Named]bool{}
	for _, pkg := range c.P.Pkgs {
		if pkg.Types == nil {
			continue
		}
		sc := pkg.Types.Scope()
		for _, name := range sc.Names() {
			tn, ok := sc.Lookup(name).(*types.TypeName)
			if !ok {
				continue
			}
			named, ok := tn.Type().(*types.Named)
			if !ok {
				continue
			}
			if _, isStruct := named.Underlying().(*types.Struct); !isStruct {
				continue
			}
			has := func(t types.Type) bool {
				ms := types.NewMethodSet(t)
				return ms.Lookup(nil, "MarshalJSON") != nil
			}
			onPtr, onVal := has(types.NewPointer(named)), has(named)
			if !onPtr {
				continue
			}
			n++
			if onVal {
				c.R.Hold("R-marshal-receiver", "custom encoder of "+named.Obj().Name(), c.P.Pos(named.Obj().Pos()), "declared on the value receiver: used for values and pointers alike")
				continue
			}
			ptrOnly[named] = true
		}
	}
	var names []*types.Named
	for t := range ptrOnly {
		names = append(names, t)
	}
	sort.Slice(names, func(i, j int) bool { return names[i].Obj().Name() < names[j].Obj().Name() })
	for _, named := range names {
		var at ssa.Instruction
		var inFn *ssa.Function
		for _, fn := range c.P.LibFns {
			if at != nil {
				break
			}
			ir.EachInstr(fn, func(_ *ssa.BasicBlock, _ int, in ssa.Instruction) {
				if mi, ok := in.(*ssa.MakeInterface); ok && at == nil && types.Identical(mi.X.Type(), named) {
					at, inFn = in, fn
				}
			})
		}
		// a member or element of that type inside another wire type is encoded through the parent's addressability:
		// not decided here
		detail := ""
		if at != nil {
			detail = sprintf("%s declares MarshalJSON on the pointer receiver only, and %s boxes a %s value (not a pointer) into an interface (%s): encoding/json does not call a pointer-receiver encoder for a non-addressable value, so the value is encoded by the default rules and the empty-array/default handling of the custom encoder is lost on the wire", named.Obj().Name(), fname(inFn), named.Obj().Name(), c.Pos(at.Pos()))
		}
		c.R.Check(at == nil, "R-marshal-receiver", "custom encoder of "+named.Obj().Name(), c.P.Pos(named.Obj().Pos()), "declared on the pointer receiver and the library never boxes a value of the type", detail)
	}
	c.R.Min("R-marshal-receiver", 3)
}

// ---------------------------------------------------------------- R-flush-checked (C05)
// A frame assembled in a buffered writer has reached the stream only when Flush succeeded. A sender that drops the
// error of Flush reports success — and the broadcast counters count the session — for a frame the connection refused.
func c05FlushChecked(c *Ctx) {
	n := 0
	for _, fn := range c.P.LibFns {
		cnt := 0
		ir.EachInstr(fn, func(_ *ssa.BasicBlock, _ int, in ssa.Instruction) {
			call, ok := in.(ssa.CallInstruction)
			if !ok {
				return
			}
			cc := call.Common()
			name := ""
			if cc.IsInvoke() {
				name = cc.Method.Name()
			} else if sc := ir.StaticCallee(call); sc != nil {
				name = sc.Name()
			}
			if name != "Flush" {
				return
			}
			sig := cc.Signature()
			if sig == nil || sig.Results().Len() != 1 || ir.TypeStr(sig.Results().At(0).Type()) != "error" {
				return
			}
			n++
			cnt++
			used := false
			if v, ok := in.(*ssa.Call); ok && v.Referrers() != nil && len(*v.Referrers()) > 0 {
				used = true
			}
			c.R.Check(used, "R-flush-checked", sprintf("Flush #%d of a buffered writer in %s", cnt, fname(fn)), c.Pos(in.Pos()), "its error is consulted",
				sprintf("%s drops the error of Flush on a buffered writer: the bytes written before it only went into the buffer, so a frame the connection refused is reported as sent (the send returns nil, the broadcast counts the session)", fname(fn)))
		})
	}
	c.R.Min("R-flush-checked", 2)
}

var _ = flow.Dominates

// serverPathFns: library functions reachable from the server entry points that are not client-side.
func serverPathFns(c *Ctx) []*ssa.Function {
	var fns []*ssa.Function
	for _, f := range sortedFuncs(c.Reach(serverEntries(c)...)) {
		if !clientSide(c, f) {
			fns = append(fns, f)
		}
	}
	return fns
}

// ---------------------------------------------------------------- R-params-whole (C10)
// A notification's parameters are the `_meta` member plus the additional members; the type's own encoder writes both.
// A function that takes a notification apart and forwards only Params.AdditionalFields (rebuilding the message from the
// method and that map) silently drops `_meta` — progress tokens and whatever the caller put there. Every library function
// that reads the AdditionalFields member of a NotificationParams it did not build itself also reads Meta of the same
// record (or passes the record on whole).
func c10ParamsWhole(c *Ctx) {
	n := 0
	for _, fn := range c.P.LibFns {
		if fn.Signature.Recv() != nil && strings.HasSuffix(strings.TrimPrefix(ir.TypeStr(fn.Signature.Recv().Type()), "*"), "NotificationParams") {
			continue
		}
		reads := map[string]ssa.Instruction{} // base path -> first read of AdditionalFields
		meta := map[string]bool{}
		note := func(in ssa.Instruction, owner, name string, base ssa.Value, loaded bool) {
			if !strings.HasSuffix(owner, "NotificationParams") || !loaded {
				return
			}
			if ir.BaseAlloc(base) {
				return // a record the function is building
			}
			p := ir.Path(base)
			switch name {
			case "AdditionalFields":
				if reads[p] == nil {
					reads[p] = in
				}
			case "Meta":
				meta[p] = true
			}
		}
		ir.EachInstr(fn, func(_ *ssa.BasicBlock, _ int, in ssa.Instruction) {
			switch x := in.(type) {
			case *ssa.FieldAddr:
				st, ok := x.X.Type().Underlying().(*types.Pointer).Elem().Underlying().(*types.Struct)
				if !ok {
					return
				}
				loaded := false
				for _, r := range *x.Referrers() {
					if u, ok := r.(*ssa.UnOp); ok && u.Op == token.MUL {
						loaded = true
					}
				}
				note(in, ir.TypeStr(x.X.Type().Underlying().(*types.Pointer).Elem()), st.Field(x.Field).Name(), x.X, loaded)
			case *ssa.Field:
				st, ok := x.X.Type().Underlying().(*types.Struct)
				if !ok {
					return
				}
				note(in, ir.TypeStr(x.X.Type()), st.Field(x.Field).Name(), x.X, true)
			}
		})
		var ps []string
		for p := range reads {
			ps = append(ps, p)
		}
		sort.Strings(ps)
		for _, p := range ps {
			n++
			c.R.Check(meta[p], "R-params-whole", sprintf("members of the notification parameters %s read in %s", p, fname(fn)), c.Pos(reads[p].Pos()),
				"Meta is read alongside AdditionalFields",
				sprintf("%s takes the additional members out of a notification's parameters (%s.AdditionalFields) without reading %s.Meta: the message it builds from them has lost the notification's `_meta` member, so what the client receives is not what the handler sent", fname(fn), p, p))
		}
	}
	if n == 0 {
		c.R.Hold("R-params-whole", "no library function outside the parameters' own encoder reads AdditionalFields of a notification it was handed", "", "notifications are forwarded whole")
	}
}

// ---------------------------------------------------------------- R-publish-after-header (C09)
// Once a handler has put a record holding its http.ResponseWriter into a shared table, other goroutines write frames to
// that writer under the record's write lock. From that point on the handler's own direct use of the writer (setting
// headers, WriteHeader, Flush, writing a frame) is a second, unsynchronised writer on the same connection: frames and
// the response head interleave. After the publication the handler therefore touches the writer only while holding a
// lock that is a member of the published record (or not at all).
func c09PublishAfterHeader(c *Ctx, rule string) {
	n := 0
	for _, fn := range c.P.LibFns {
		if clientSide(c, fn) {
			continue
		}
		var w *ssa.Parameter
		for _, p := range fn.Params {
			if isResponseWriter(p.Type()) {
				w = p
			}
		}
		if w == nil {
			continue
		}
		derived := map[ssa.Value]bool{w: true}
		for changed := true; changed; {
			changed = false
			ir.EachInstr(fn, func(_ *ssa.BasicBlock, _ int, in ssa.Instruction) {
				v, ok := in.(ssa.Value)
				if !ok || derived[v] {
					return
				}
				switch x := in.(type) {
				case *ssa.TypeAssert:
					if derived[x.X] {
						derived[v], changed = true, true
					}
				case *ssa.Extract:
					if derived[x.Tuple] && x.Index == 0 {
						derived[v], changed = true, true
					}
				case *ssa.MakeInterface:
					if derived[x.X] {
						derived[v], changed = true, true
					}
				case *ssa.ChangeInterface:
					if derived[x.X] {
						derived[v], changed = true, true
					}
				}
			})
		}
		records := map[ssa.Value]string{}
		ir.EachInstr(fn, func(_ *ssa.BasicBlock, _ int, in ssa.Instruction) {
			st, ok := in.(*ssa.Store)
			if !ok || !derived[st.Val] {
				return
			}
			if fa, ok := st.Addr.(*ssa.FieldAddr); ok {
				if al, ok := fa.X.(*ssa.Alloc); ok && al.Heap {
					if pt, ok := al.Type().Underlying().(*types.Pointer); ok {
						if nm, ok := pt.Elem().(*types.Named); ok {
							records[al] = nm.Obj().Name()
						}
					}
				}
			}
		})
		// … or built by a library constructor that is handed the writer
		ir.EachInstr(fn, func(_ *ssa.BasicBlock, _ int, in ssa.Instruction) {
			call, ok := in.(*ssa.Call)
			if !ok {
				return
			}
			sc := ir.StaticCallee(call)
			if sc == nil || !c.P.IsLib(sc) {
				return
			}
			uses := false
			for _, a := range call.Call.Args {
				if derived[a] {
					uses = true
				}
			}
			if !uses {
				return
			}
			if pt, ok := call.Type().Underlying().(*types.Pointer); ok {
				if nm, ok := pt.Elem().(*types.Named); ok {
					if _, isStruct := nm.Underlying().(*types.Struct); isStruct && ir.InLibrary(nm) {
						records[call] = nm.Obj().Name()
					}
				}
			}
		})
		if len(records) == 0 {
			continue
		}
		ir.EachInstr(fn, func(_ *ssa.BasicBlock, _ int, pub ssa.Instruction) {
			var val ssa.Value
			switch x := pub.(type) {
			case *ssa.MapUpdate:
				val = x.Value
			case *ssa.Call:
				if ir.CallName(x) == "(*sync.Map).Store" && len(x.Call.Args) == 3 {
					val = x.Call.Args[2]
				}
				// a method of a table type that stores its parameter into the table's map
				if sc := ir.StaticCallee(x); val == nil && sc != nil && c.P.IsLib(sc) {
					for i, a := range x.Call.Args {
						if _, isRec := records[a]; !isRec || i >= len(sc.Params) {
							continue
						}
						p := sc.Params[i]
						ir.EachInstr(sc, func(_ *ssa.BasicBlock, _ int, in2 ssa.Instruction) {
							if mu, ok := in2.(*ssa.MapUpdate); ok && mu.Value == ssa.Value(p) {
								val = a
							}
						})
					}
				}
			}
			if val == nil {
				return
			}
			if mi, ok := val.(*ssa.MakeInterface); ok {
				val = mi.X
			}
			tname, isRec := records[val]
			if !isRec {
				return
			}
			n++
			var bad ssa.Instruction
			ir.EachInstr(fn, func(_ *ssa.BasicBlock, _ int, u ssa.Instruction) {
				if bad != nil || u == pub {
					return
				}
				call, ok := u.(ssa.CallInstruction)
				if !ok {
					return
				}
				uses := false
				cc := call.Common()
				if cc.IsInvoke() && derived[cc.Value] {
					uses = true
				}
				for _, a := range cc.Args {
					if derived[a] {
						uses = true
					}
				}
				if !uses || !flow.Reaches(pub, u) {
					return
				}
				if cv, ok := u.(ssa.Value); ok {
					if _, isRec := records[cv]; isRec {
						return // the constructor call itself (in a loop-free handler it precedes the publication anyway)
					}
				}
				for k := range c.Locks().At(u) {
					if strings.HasPrefix(k, tname+".") {
						return
					}
				}
				bad = u
			})
			detail := ""
			if bad != nil {
				detail = sprintf("%s registers a %s holding its http.ResponseWriter in a shared table and then still uses the writer itself (%s) without the record's write lock: from the registration on other goroutines write frames to that writer under the lock, so the handler's header/status/flush and their frames interleave on one connection (a corrupted chunked stream, a frame before the response head)", fname(fn), tname, ipos(c, bad))
			}
			c.R.Check(bad == nil, rule, sprintf("use of the ResponseWriter after %s publishes its %s", fname(fn), tname), c.Pos(pub.Pos()),
				"after the publication the handler uses the writer only through the record, under its lock", detail)
		})
	}
	if n < 1 {
		c.R.Break("%s: no handler publishes a record holding its ResponseWriter", rule)
	}
}

// ---------------------------------------------------------------- R-dispatch-ungated (C01, C15)
// "The handler runs exactly once per request" and "every request passes the chain": request ids are chosen by each client
// on its own, so two sessions legitimately use the same id at the same time. Between decoding a request and handing it
// to the dispatcher a server must therefore not take a decision from state shared between sessions that is keyed by the
// request id alone (a server-wide "in flight" set, a duplicate filter): the second session's request would be dropped
// as a copy of the first one's. A guard of a dispatch site that is computed from a table member of the server looked up
// by a key derived from the request's id — and from nothing that identifies the session — violates this.
func dispatchUngated(c *Ctx, rule string) {
	var dependsOn func(v ssa.Value, d int, seen map[ssa.Value]bool) (id, sess bool)
	dependsOn = func(v ssa.Value, d int, seen map[ssa.Value]bool) (id, sess bool) {
		if v == nil || d > 8 || seen[v] {
			return
		}
		seen[v] = true
		if f, _, ok := ir.LoadedField(v); ok {
			if f.Name == "ID" {
				if _, isIface := f.Type.Underlying().(*types.Interface); isIface {
					return true, false
				}
			}
			if strings.Contains(strings.ToLower(f.Name), "session") {
				return false, true
			}
		}
		if strings.Contains(ir.TypeStr(v.Type()), "ession") {
			return false, true
		}
		var ops []*ssa.Value
		if in, ok := v.(ssa.Instruction); ok {
			ops = in.Operands(ops)
		}
		// a local captured by a closure lives in a cell: what was stored into the cell
		if u, ok := v.(*ssa.UnOp); ok && u.Op == token.MUL {
			if al, ok := u.X.(*ssa.Alloc); ok {
				for _, r := range *al.Referrers() {
					if st, ok := r.(*ssa.Store); ok && st.Addr == ssa.Value(al) {
						i2, s2 := dependsOn(st.Val, d+1, seen)
						id, sess = id || i2, sess || s2
					}
				}
			}
		}
		for _, o := range ops {
			if *o == nil {
				continue
			}
			if _, isFn := (*o).(*ssa.Function); isFn {
				continue
			}
			i2, s2 := dependsOn(*o, d+1, seen)
			id, sess = id || i2, sess || s2
		}
		return
	}
	// does fn consult (lookup / LoadOrStore / update) a table member of its receiver with a key that is its parameter?
	sharedTableByParam := func(fn *ssa.Function) string {
		if fn == nil || fn.Blocks == nil || fn.Signature.Recv() == nil {
			return ""
		}
		out := ""
		isParam := func(v ssa.Value) bool {
			for d := 0; d < 4; d++ {
				switch x := v.(type) {
				case *ssa.Parameter:
					return x != fn.Params[0]
				case *ssa.MakeInterface:
					v = x.X
				case *ssa.Convert:
					v = x.X
				case *ssa.ChangeType:
					v = x.X
				default:
					return false
				}
			}
			return false
		}
		ir.EachInstr(fn, func(_ *ssa.BasicBlock, _ int, in ssa.Instruction) {
			switch x := in.(type) {
			case *ssa.Lookup:
				if f, base, ok := ir.LoadedField(x.X); ok && base == ssa.Value(fn.Params[0]) && isParam(x.Index) {
					out = f.Key()
				}
			case *ssa.Call:
				n := ir.CallName(x)
				if (n == "(*sync.Map).LoadOrStore" || n == "(*sync.Map).Load") && len(x.Call.Args) >= 2 && isParam(x.Call.Args[1]) {
					if fa, ok := x.Call.Args[0].(*ssa.FieldAddr); ok && fa.X == ssa.Value(fn.Params[0]) {
						key, _, _, _ := ir.FullField(fa)
						out = key
					}
				}
			}
		})
		return out
	}
	condFrom := func(fn *ssa.Function, cond ssa.Value) string {
		for d := 0; d < 4; d++ {
			if u, ok := cond.(*ssa.UnOp); ok && u.Op == token.NOT {
				cond = u.X
				continue
			}
			break
		}
		var call *ssa.Call
		switch x := cond.(type) {
		case *ssa.Call:
			call = x
		case *ssa.Extract:
			if cl, ok := x.Tuple.(*ssa.Call); ok {
				call = cl
			}
			if lk, ok := x.Tuple.(*ssa.Lookup); ok {
				if f, base, ok := ir.LoadedField(lk.X); ok && !ir.BaseAlloc(unspill(base)) {
					if id, sess := dependsOn(lk.Index, 0, map[ssa.Value]bool{}); id && !sess {
						return f.Key()
					}
				}
			}
		}
		if call == nil {
			return ""
		}
		n := ir.CallName(call)
		if (n == "(*sync.Map).LoadOrStore" || n == "(*sync.Map).Load") && len(call.Call.Args) >= 2 {
			if fa, ok := call.Call.Args[0].(*ssa.FieldAddr); ok && !ir.BaseAlloc(unspill(fa.X)) {
				if id, sess := dependsOn(call.Call.Args[1], 0, map[ssa.Value]bool{}); id && !sess {
					key, _, _, _ := ir.FullField(fa)
					return key
				}
			}
			return ""
		}
		sc := ir.StaticCallee(call)
		if sc == nil || !c.P.IsLib(sc) {
			return ""
		}
		tbl := sharedTableByParam(sc)
		if tbl == "" {
			return ""
		}
		anyID, anySess := false, false
		for i, a := range call.Call.Args {
			if i == 0 {
				continue // the receiver
			}
			id, sess := dependsOn(a, 0, map[ssa.Value]bool{})
			anyID, anySess = anyID || id, anySess || sess
		}
		if anyID && !anySess {
			return tbl
		}
		return ""
	}
	n := 0
	for _, fn := range c.P.LibFns {
		if clientSide(c, fn) {
			continue
		}
		var sites []ssa.Instruction
		ir.EachInstr(fn, func(_ *ssa.BasicBlock, _ int, in ssa.Instruction) {
			switch x := in.(type) {
			case ssa.CallInstruction:
				if c.isDispatchCall(x) {
					sites = append(sites, in)
					return
				}
				// a goroutine / deferred closure that dispatches
				if mc, ok := x.Common().Value.(*ssa.MakeClosure); ok {
					if f, ok := mc.Fn.(*ssa.Function); ok {
						found := false
						ir.EachCall(f, func(cc ssa.CallInstruction) {
							if c.isDispatchCall(cc) {
								found = true
							}
						})
						if found {
							sites = append(sites, in)
						}
					}
				}
			}
		})
		if len(sites) == 0 {
			continue
		}
		pd := flow.NewPostDom(fn)
		for i, site := range sites {
			n++
			bad, tbl := ssa.Instruction(nil), ""
			for _, g := range pd.ControlDepsTransitive(site.Block()) {
				if t := condFrom(fn, g.If.Cond); t != "" {
					bad, tbl = g.If, t
					break
				}
			}
			// an early return between the function's entry and the site that is not a control dependence of the site's
			// block in the post-dominator sense (`if dup { return }` before the site) shows up as a guard of the site
			if bad == nil {
				for _, g := range flow.Guards(fn, site.Block()) {
					if t := condFrom(fn, g.If.Cond); t != "" {
						bad, tbl = g.If, t
						break
					}
				}
			}
			detail := ""
			if bad != nil {
				detail = sprintf("%s decides whether the request is dispatched from %s, a table of the server shared by all sessions, looked up by a key computed from the request's id alone (%s): two sessions use the same id independently, so while one session's request is in the table the other's is dropped — its handler and the middleware chain never run and its call gets no answer", fname(fn), tbl, ipos(c, bad))
			}
			c.R.Check(bad == nil, rule, sprintf("guards of dispatch site #%d in %s", i+1, fname(fn)), c.Pos(site.Pos()),
				"no guard is computed from session-shared state keyed by the request id alone", detail)
		}
	}
	c.R.Min(rule, 3)
}

// ---------------------------------------------------------------- R-response-needs-id (C03)
// A posted JSON-RPC object is a request (method and id), a notification (method, no id) or the client's answer to a
// server request (id, no method). An object with neither is not a JSON-RPC message and is refused. Where a server
// function routes an incoming message either to the dispatcher or to the code that matches answers with pending server
// requests, the branch into the answer path is therefore decided — among other things — by the presence of the id: by a
// nil test of the id member on the path, by a library predicate that makes that test, or by the message kind computed
// by the classifier. A branch taken on "no method" alone accepts `{"jsonrpc":"2.0"}` with an empty 202.
func c03ResponseNeedsID(c *Ctx) {
	pend := pendingInserts(c, true)
	matcher := map[*ssa.Function]bool{}
	for _, fn := range c.P.LibFns {
		if clientSide(c, fn) {
			continue
		}
		ir.EachInstr(fn, func(_ *ssa.BasicBlock, _ int, in ssa.Instruction) {
			if l, ok := in.(*ssa.Lookup); ok {
				for tbl := range pend {
					if fromTableLookup(l, tbl) {
						matcher[fn] = true
					}
				}
			}
		})
	}
	if len(matcher) == 0 {
		c.R.Break("R-response-needs-id: no function matches answers with a pending table")
		return
	}
	reachesMatcher := func(f *ssa.Function) bool {
		if matcher[f] {
			return true
		}
		for g := range c.ReachSync(f) {
			if matcher[g] {
				return true
			}
		}
		return false
	}
	isIDLoad := func(v ssa.Value) bool {
		f, _, ok := ir.LoadedField(v)
		if !ok || f.Name != "ID" {
			return false
		}
		_, isIface := f.Type.Underlying().(*types.Interface)
		return isIface
	}
	var idTested func(fn *ssa.Function, cond ssa.Value, branch bool, d int) bool
	idTested = func(fn *ssa.Function, cond ssa.Value, branch bool, d int) bool {
		for {
			if u, ok := cond.(*ssa.UnOp); ok && u.Op == token.NOT {
				cond, branch = u.X, !branch
				continue
			}
			break
		}
		if v, op, ok := nilCompare(cond); ok && isIDLoad(v) {
			return (op == token.NEQ) == branch
		}
		testsID := func(sc *ssa.Function) bool {
			if sc == nil || !c.P.IsLib(sc) || d > 2 {
				return false
			}
			found := false
			scope := append([]*ssa.Function{}, ir.WithClosures(sc)...)
			for f := range c.ReachSync(sc) { // hasID() called by kind()
				if c.P.IsLib(f) {
					scope = append(scope, f)
				}
			}
			for _, f := range scope {
				ir.EachInstr(f, func(_ *ssa.BasicBlock, _ int, in ssa.Instruction) {
					if b, ok := in.(*ssa.BinOp); ok {
						if v, _, ok := nilCompare(b); ok && isIDLoad(v) {
							found = true
						}
					}
				})
			}
			return found
		}
		switch x := cond.(type) {
		case *ssa.Phi:
			// `a && b` evaluated as a value (a case expression): true only when it came in over the edge carrying b,
			// and that edge's block is reached only when a held
			if !branch || d > 3 {
				return false
			}
			// every edge over which the value can be true has the id tested: by its own operand, or by a decision
			// every path to the edge's block goes through
			any := false
			for i, e := range x.Edges {
				if cst, ok := e.(*ssa.Const); ok && cst.Value != nil && cst.Value.String() == "false" {
					continue
				}
				any = true
				if idTested(fn, e, true, d+1) {
					continue
				}
				okEdge := false
				if i < len(x.Block().Preds) {
					for _, g2 := range flow.Guards(fn, x.Block().Preds[i]) {
						if idTested(fn, g2.If.Cond, g2.Branch, d+1) {
							okEdge = true
						}
					}
				}
				if !okEdge {
					return false
				}
			}
			return any
		case *ssa.BinOp:
			if x.Op == token.EQL || x.Op == token.NEQ {
				for _, o := range []ssa.Value{x.X, x.Y} {
					if strings.HasSuffix(ir.TypeStr(o.Type()), "JSONRPCMessageType") {
						return true
					}
					// the message kind computed by a library classifier that tests the id (kindOf(base) == kindResponse)
					if oc := originCall(unspill(o)); oc != nil && testsID(ir.StaticCallee(oc)) {
						return true
					}
				}
			}
		case *ssa.Call:
			return testsID(ir.StaticCallee(x))
		}
		return false
	}
	dr := c.dispatchReach()
	n := 0
	for _, fn := range c.P.LibFns {
		if clientSide(c, fn) || matcher[fn] {
			continue
		}
		var answerCalls []ssa.CallInstruction
		dispatches := false
		ir.EachCall(fn, func(call ssa.CallInstruction) {
			if _, isGo := call.(*ssa.Go); isGo {
				// a goroutine counts like a call here
			}
			toMatcher, toDispatch := false, false
			for _, cal := range ir.Callees(c.G, call) {
				if !c.P.IsLib(cal) {
					continue
				}
				if dr[cal] {
					toDispatch = true
				} else if reachesMatcher(cal) {
					toMatcher = true
				}
			}
			if toDispatch {
				dispatches = true
			} else if toMatcher {
				answerCalls = append(answerCalls, call)
			}
		})
		if !dispatches || len(answerCalls) == 0 {
			continue
		}
		for i, call := range answerCalls {
			n++
			ok := false
			// decisions every path to the call goes through (not merely decisions that influence whether it is reached)
			for _, g := range flow.Guards(fn, call.Block()) {
				if idTested(fn, g.If.Cond, g.Branch, 0) {
					ok = true
				}
			}
			c.R.Check(ok, "R-response-needs-id", sprintf("branch #%d into the answer path in %s", i+1, fname(fn)), c.Pos(call.Pos()),
				"taken only for a message whose id is present (nil test, id predicate, or message kind)",
				sprintf("%s hands an incoming message to the code that matches client answers with pending server requests on a path where the presence of the id was never tested: an object with neither method nor id — not a JSON-RPC message at all — is accepted as an answer (202 with an empty body) instead of being refused", fname(fn)))
		}
	}
	c.R.Min("R-response-needs-id", 2)
}

// ---------------------------------------------------------------- R-reader-not-throttled (C06)
// A server handler may call back into the client (roots/list, sampling) and wait for the answer — which arrives on the
// same input stream the request came from. The loop that reads that stream and starts a goroutine per message must
// therefore never wait for those goroutines: a blocking channel operation in the loop on a channel it shares with the
// goroutines it starts (a slot semaphore, a completion channel) stops the reader as soon as enough handlers are waiting
// for answers only the reader can deliver — calls and answers then wait for each other until their timeouts.
func c06ReaderNotThrottled(c *Ctx) {
	n := 0
	dr := c.dispatchReach()
	// the functions a tools/call request ends up in (the stdio server routes to them with a switch of its own)
	callTargets := map[*ssa.Function]bool{}
	for _, rows := range c.MapLiteralDispatch() {
		for _, r := range rows {
			if r.Method == "tools/call" && r.Target != nil {
				callTargets[r.Target] = true
			}
		}
	}
	for _, fn := range c.P.LibFns {
		if clientSide(c, fn) {
			continue
		}
		ir.EachInstr(fn, func(b *ssa.BasicBlock, _ int, in ssa.Instruction) {
			g, ok := in.(*ssa.Go)
			if !ok {
				return
			}
			// the loop: around the go statement itself, or around the call of the starter function it sits in
			type loopAt struct {
				fn   *ssa.Function
				args []ssa.Value // what the loop hands the starter (channels among them are shared too)
			}
			var loops []loopAt
			if flow.InCycle(b) {
				loops = append(loops, loopAt{fn, nil})
			} else {
				for _, e := range ir.Callers(c.G, fn) {
					if site, ok := e.Site.(*ssa.Call); ok && c.P.IsLib(e.Caller.Func) && !clientSide(c, e.Caller.Func) && flow.InCycle(site.Block()) {
						loops = append(loops, loopAt{e.Caller.Func, site.Call.Args})
					}
				}
			}
			if len(loops) == 0 {
				return
			}
			mc, ok := g.Call.Value.(*ssa.MakeClosure)
			var started *ssa.Function
			shared := map[ssa.Value]bool{}
			isChan := func(v ssa.Value) bool {
				t := v.Type()
				if p, ok := t.Underlying().(*types.Pointer); ok {
					t = p.Elem()
				}
				_, is := t.Underlying().(*types.Chan)
				return is
			}
			if ok {
				started, _ = mc.Fn.(*ssa.Function)
				for _, bnd := range mc.Bindings {
					if isChan(bnd) {
						shared[bnd] = true
					}
				}
			} else {
				started = ir.StaticCallee(g)
			}
			for _, a := range g.Call.Args {
				if isChan(a) {
					shared[a] = true
				}
			}
			if started == nil {
				return
			}
			handles := dr[started]
			if !handles {
				for f := range c.Reach(started) {
					if dr[f] || callTargets[f] || decodesRequest(f) {
						handles = true
					}
				}
			}
			if !handles {
				return
			}
			n++
			for _, lp := range loops {
				for _, a := range lp.args {
					if isChan(a) {
						shared[a] = true
					}
				}
			}
			// channel values equal to a shared one (directly, or loaded from the shared cell)
			same := func(v ssa.Value) bool {
				if shared[v] {
					return true
				}
				if u, ok := v.(*ssa.UnOp); ok && u.Op == token.MUL && shared[u.X] {
					return true
				}
				return false
			}
			var bad ssa.Instruction
			loopFn := loops[0].fn
			ir.EachInstr(loopFn, func(b2 *ssa.BasicBlock, _ int, u ssa.Instruction) {
				if bad != nil || !flow.InCycle(b2) {
					return
				}
				switch x := u.(type) {
				case *ssa.Send:
					if same(x.Chan) {
						bad = u
					}
				case *ssa.Select:
					if !x.Blocking {
						return
					}
					for _, st := range x.States {
						if same(st.Chan) {
							bad = u
						}
					}
				case *ssa.UnOp:
					if x.Op == token.ARROW && same(x.X) {
						bad = u
					}
				}
			})
			detail := ""
			if bad != nil {
				detail = sprintf("the loop in %s that reads incoming messages and starts a goroutine for each one waits (%s) on a channel it shares with those goroutines: once enough handlers are blocked waiting for the client's answer to a request of their own (roots/list), the reader stops reading — and the answers they wait for are on the stream it no longer reads", fname(loopFn), ipos(c, bad))
			}
			c.R.Check(bad == nil, "R-reader-not-throttled", sprintf("message loop of %s", fname(loopFn)), c.Pos(g.Pos()), "the loop never blocks on a channel shared with the goroutines it starts", detail)
		})
	}
	c.R.Min("R-reader-not-throttled", 1)
}

// decodesRequest: the function holds a JSONRPCRequest of its own (it decodes an incoming request).
func decodesRequest(f *ssa.Function) bool {
	found := false
	ir.EachInstr(f, func(_ *ssa.BasicBlock, _ int, in ssa.Instruction) {
		if al, ok := in.(*ssa.Alloc); ok {
			if pt, ok := al.Type().Underlying().(*types.Pointer); ok && strings.HasSuffix(ir.TypeStr(pt.Elem()), "mcp.JSONRPCRequest") {
				found = true
			}
		}
	})
	return found
}

// lockBalancedServer (R-lock-balanced, C11): every lock acquisition on server paths is released on all paths.
func lockBalancedServer(c *Ctx, rule string) {
	fns := serverPathFns(c)
	leaks := append(lockLeaks(c, fns), mayLeaks(c, fns)...)
	seen := map[string]bool{}
	for _, l := range leaks {
		k := l.key + " in " + fname(l.fn)
		if seen[k] {
			continue
		}
		seen[k] = true
		c.R.Violate(rule, k, c.Pos(l.at.Pos()), sprintf("%s acquires %s (at %s) and can return (near %s) without releasing it: every later send that needs the lock — to this stream or its successor — blocks forever", fname(l.fn), l.key, c.Pos(l.at.Pos()), ipos(c, l.ret)))
	}
	nAcq := 0
	for _, fn := range fns {
		ir.EachInstr(fn, func(_ *ssa.BasicBlock, _ int, in ssa.Instruction) {
			if op, ok := c.Locks().Classify(in); ok && op.Acquire {
				nAcq++
			}
		})
	}
	if len(seen) == 0 {
		c.R.Hold(rule, "every acquisition is released on all paths", "", sprintf("%d lock acquisitions on server paths examined", nAcq))
	}
	if nAcq < 15 {
		c.R.Break("%s examined only %d acquisitions", rule, nAcq)
	}
}

// listingSessionFree (R-session-independent, C18): what tools/list answers is the registered descriptors — the code that
// serves a listing never reads data back from the session (a negotiated revision, a flag), so the same registration
// lists the same schemas to every client and in every session mode.
func listingSessionFree(c *Ctx, rule string) {
	var roots []*ssa.Function
	for _, rows := range c.MapLiteralDispatch() {
		for _, r := range rows {
			if strings.HasSuffix(r.Method, "/list") && r.Target != nil {
				roots = append(roots, r.Target)
			}
		}
	}
	if len(roots) < 3 {
		c.R.Break("%s: only %d listing handlers found in dispatch tables", rule, len(roots))
		return
	}
	n := 0
	for _, fn := range sortedFuncs(c.ReachSync(roots...)) {
		ir.EachCall(fn, func(call ssa.CallInstruction) {
			if ir.CallName(call) == "(mcp.Session).GetData" {
				n++
				c.R.Violate(rule, "session data read in "+fname(fn), c.Pos(call.Pos()),
					sprintf("%s reads data back from the session while serving a listing: the descriptors a client is shown then depend on the session (a session without that entry — stateless mode, another transport — gets different schemas than were registered)", fname(fn)))
			}
		})
	}
	if n == 0 {
		c.R.Hold(rule, "listing handlers never read session data", "", sprintf("no (Session).GetData in code reachable from the %d listing handlers", len(roots)))
	}
}

// ---------------------------------------------------------------- R-register-replaces (C12)
// "A registration made under a name that is taken replaces the entry": a registering function (one that updates a
// registry map in place) stores the new entry on every path its input validation lets through. A return that skips the
// update, reports success (no non-nil error) and is decided by looking at the EXISTING entry of the map ("the same
// descriptor is registered already") keeps the old entry — and with it the old handler — although the caller registered
// a new one. (A registry that refuses duplicates says so with an error; that is not judged here.)
func c12RegisterReplaces(c *Ctx, ri *registryInfo, accs []Access) {
	type site struct {
		fn   *ssa.Function
		ups  map[*ssa.BasicBlock]bool
		at   ssa.Instruction
		name string
	}
	sites := map[*ssa.Function]*site{}
	for _, a := range accs {
		if a.Kind != "map-update" || !ri.maps[a.Field] || a.Init || a.Local {
			continue
		}
		s := sites[a.Fn]
		if s == nil {
			s = &site{fn: a.Fn, ups: map[*ssa.BasicBlock]bool{}, at: a.Instr, name: a.Field}
			sites[a.Fn] = s
		}
		s.ups[a.Instr.Block()] = true
	}
	var derivesFromLookup func(v ssa.Value, d int) bool
	derivesFromLookup = func(v ssa.Value, d int) bool {
		if v == nil || d > 6 {
			return false
		}
		switch x := v.(type) {
		case *ssa.Lookup:
			if f, _, ok := ir.LoadedField(x.X); ok && ri.maps[f.Key()] {
				return true
			}
			return false
		case *ssa.Extract:
			return derivesFromLookup(x.Tuple, d+1)
		case *ssa.UnOp:
			return derivesFromLookup(x.X, d+1)
		case *ssa.FieldAddr:
			return derivesFromLookup(x.X, d+1)
		case *ssa.Field:
			return derivesFromLookup(x.X, d+1)
		case *ssa.BinOp:
			return derivesFromLookup(x.X, d+1) || derivesFromLookup(x.Y, d+1)
		case *ssa.Phi:
			for _, e := range x.Edges {
				if derivesFromLookup(e, d+1) {
					return true
				}
			}
		case *ssa.Call:
			for _, a := range x.Call.Args {
				if derivesFromLookup(a, d+1) {
					return true
				}
			}
		case *ssa.MakeInterface:
			return derivesFromLookup(x.X, d+1)
		case *ssa.ChangeInterface:
			return derivesFromLookup(x.X, d+1)
		}
		return false
	}
	n := 0
	for _, fn := range sortedFuncsKeys(sites) {
		s := sites[fn]
		if len(fn.Blocks) == 0 {
			continue
		}
		n++
		skip := flow.BlocksReachableAvoiding(fn.Blocks[0], s.ups)
		pd := flow.NewPostDom(fn)
		var bad ssa.Instruction
		for _, b := range fn.Blocks {
			if !skip[b] && b != fn.Blocks[0] || s.ups[b] {
				continue
			}
			ret, ok := b.Instrs[len(b.Instrs)-1].(*ssa.Return)
			if !ok {
				continue
			}
			// a refusal that is reported to the caller (a non-nil error) is not a silent skip
			refused := false
			for _, res := range ir.Results(ret) {
				if ir.TypeStr(res.Type()) == "error" && !ir.IsNilConst(res) {
					refused = true
				}
			}
			if refused {
				continue
			}
			for _, g := range pd.ControlDepsTransitive(b) {
				if derivesFromLookup(g.If.Cond, 0) {
					bad = ret
				}
			}
		}
		detail := ""
		if bad != nil {
			detail = sprintf("%s can return (%s) without storing the entry it was given, on a path chosen by comparing with the entry already in %s: a registration under a taken name is then not a replacement — the old handler keeps answering", fname(fn), ipos(c, bad), s.name)
		}
		c.R.Check(bad == nil, "R-register-replaces", sprintf("paths of %s around its update of %s", fname(fn), s.name), c.Pos(s.at.Pos()),
			"no return that skips the update is decided by the existing entry", detail)
	}
	c.R.Min("R-register-replaces", 3)
}

// ---------------------------------------------------------------- R-attempts-under-policy (C17)
// The waits between attempts are the executor's: attempt k+1 starts after the k-th backoff interval. A transport that
// makes an attempt of its own before it hands the same operation to the executor (a "fast path" that falls through to
// the retry loop), or runs the executor under a locally adjusted copy of the configuration, shifts every wait by one
// position — the first retry follows the failure at once — although the number of attempts is unchanged. At every
// call of the executor: (a) the configuration argument is the configured one (a member or parameter), not a record
// built or modified in the calling function; (b) the function the operation closure calls is not also called
// directly on a path that goes on to the executor.
func c17AttemptsUnderPolicy(c *Ctx, exec *ssa.Function) {
	n := 0
	for _, fn := range c.P.LibFns {
		ir.EachInstr(fn, func(_ *ssa.BasicBlock, _ int, in ssa.Instruction) {
			call, ok := in.(*ssa.Call)
			if !ok || ir.StaticCallee(call) != exec {
				return
			}
			n++
			// (a) configuration
			cfgLocal := ""
			for _, a := range call.Call.Args {
				pt, ok := a.Type().Underlying().(*types.Pointer)
				if !ok {
					continue
				}
				if _, isStruct := pt.Elem().Underlying().(*types.Struct); !isStruct {
					continue
				}
				if al, ok := a.(*ssa.Alloc); ok {
					// a per-call copy is the configured record still; one whose members are then set is not
					for _, r := range *al.Referrers() {
						if fa, ok := r.(*ssa.FieldAddr); ok {
							for _, u := range *fa.Referrers() {
								if st, ok := u.(*ssa.Store); ok && st.Addr == ssa.Value(fa) {
									cfgLocal = al.Comment
								}
							}
						}
					}
				}
			}
			c.R.Check(cfgLocal == "", "R-attempts-under-policy", sprintf("configuration of the executor call in %s", fname(fn)), c.Pos(call.Pos()),
				"the configured record (or an unmodified copy of it) is handed to the executor",
				sprintf("%s runs the retry executor under %q, a configuration record it built or adjusted itself, instead of the configured one: the attempt budget and the backoff sequence the user configured are not the ones applied", fname(fn), cfgLocal))
		})
	}
	// (b) the operation's attempt function, wherever the operation is supplied (to the executor, or to a helper that
	// forwards it)
	for _, ro := range retryOps(c, exec) {
		fn, call, opFn := ro.by, ro.site, ro.op
		if opFn == nil || !clientSide(c, fn) {
			continue
		}
		attempt := map[*ssa.Function]bool{}
		ir.EachCall(opFn, func(cc ssa.CallInstruction) {
			if sc := ir.StaticCallee(cc); sc != nil && c.P.IsLib(sc) && clientSide(c, sc) {
				attempt[sc] = true
			}
		})
		var bad ssa.Instruction
		ir.EachCall(fn, func(cc ssa.CallInstruction) {
			if bad != nil || cc == call {
				return
			}
			if sc := ir.StaticCallee(cc); sc != nil && attempt[sc] && flow.Reaches(cc, call) {
				bad = cc
			}
		})
		detail := ""
		if bad != nil {
			detail = sprintf("%s makes an attempt of its own (%s) and, when it fails, goes on to hand the same operation to the retry executor: the executor's first attempt is then the caller's first RETRY and is made without any wait, every later wait is one position short of the configured sequence", fname(fn), ipos(c, bad))
		}
		c.R.Check(bad == nil, "R-attempts-under-policy", sprintf("attempts outside the executor in %s", fname(fn)), c.Pos(call.Pos()),
			"every attempt of a retried operation is made by the executor", detail)
	}
	c.R.Min("R-attempts-under-policy", 3)
}

// ---------------------------------------------------------------- R-attempt-ctx (C17)
// "Cancelling the caller's context ends the sequence at once" — also while an attempt is in flight: the HTTP request an
// attempt makes runs under the context the caller passed down. In every function reachable from a retried operation,
// the context of http.NewRequestWithContext descends (through context.With* and helpers) from a context parameter of
// that function — not from a context kept in a member of the transport (the event stream's), under which the request
// would keep running after the caller gave up.
func c17AttemptCtx(c *Ctx, exec *ssa.Function) {
	var ops []*ssa.Function
	for _, ro := range retryOps(c, exec) {
		ops = append(ops, ro.op)
	}
	if len(ops) < 2 {
		c.R.Break("R-attempt-ctx: only %d retried operations found", len(ops))
		return
	}
	var fromParam func(fn *ssa.Function, v ssa.Value, d int, seen map[ssa.Value]bool) bool
	fromParam = func(fn *ssa.Function, v ssa.Value, d int, seen map[ssa.Value]bool) bool {
		if v == nil || d > 12 || seen[v] {
			return false
		}
		seen[v] = true
		switch x := v.(type) {
		case *ssa.Parameter:
			return ir.TypeStr(x.Type()) == "context.Context"
		case *ssa.FreeVar:
			return true // a closure's captured context: judged where the closure is made (the operation closures capture the caller's)
		case *ssa.Extract:
			return fromParam(fn, x.Tuple, d+1, seen)
		case *ssa.Call:
			// a library helper that makes the request's context (withStreamLifetime(ctx)): what it RETURNS must descend
			// from the context it was handed — values and all — not from a member it merely ties the caller's
			// cancellation to
			if sc := ir.StaticCallee(x); sc != nil && c.P.IsLib(sc) && sc.Blocks != nil && !strings.Contains(ir.PkgPathOf(sc), "internal/context") {
				okAll, any := true, false
				for _, b := range sc.Blocks {
					ret, ok := b.Instrs[len(b.Instrs)-1].(*ssa.Return)
					if !ok {
						continue
					}
					for _, res := range ir.Results(ret) {
						if ir.TypeStr(res.Type()) != "context.Context" {
							continue
						}
						any = true
						if !fromParam(sc, res, d+1, seen) {
							okAll = false
						}
					}
				}
				if any && !okAll {
					return false
				}
			}
			for _, a := range x.Call.Args {
				if ir.TypeStr(a.Type()) == "context.Context" && fromParam(fn, a, d+1, seen) {
					return true
				}
			}
			return false
		case *ssa.Phi:
			for _, e := range x.Edges {
				if !fromParam(fn, e, d+1, seen) {
					return false
				}
			}
			return len(x.Edges) > 0
		case *ssa.MakeInterface:
			return fromParam(fn, x.X, d+1, seen)
		case *ssa.ChangeInterface:
			return fromParam(fn, x.X, d+1, seen)
		case *ssa.UnOp:
			if x.Op != token.MUL {
				return false
			}
			if al, ok := x.X.(*ssa.Alloc); ok {
				all, any := true, false
				for _, r := range *al.Referrers() {
					if st, ok := r.(*ssa.Store); ok && st.Addr == ssa.Value(al) {
						any = true
						if !fromParam(fn, st.Val, d+1, seen) {
							all = false
						}
					}
				}
				return any && all
			}
			if _, ok := x.X.(*ssa.FreeVar); ok {
				return true
			}
			return false // a member
		}
		return false
	}
	n := 0
	for _, fn := range sortedFuncs(c.ReachSync(ops...)) {
		if !clientSide(c, fn) {
			continue
		}
		cnt := 0
		ir.EachCall(fn, func(call ssa.CallInstruction) {
			if ir.CallName(call) != "net/http.NewRequestWithContext" || len(call.Common().Args) < 1 {
				return
			}
			n++
			cnt++
			ok := fromParam(fn, call.Common().Args[0], 0, map[ssa.Value]bool{})
			c.R.Check(ok, "R-attempt-ctx", sprintf("context of HTTP request #%d made by an attempt in %s", cnt, fname(fn)), c.Pos(call.Pos()),
				"descends from the function's own context parameter",
				sprintf("%s, which runs as (part of) a retried attempt, issues its HTTP request under a context that does not descend from a context parameter of its own (a member of the transport — the event stream's context): cancelling the caller's context does not abort an attempt in flight, so the call returns only when the stalled request is answered or times out", fname(fn)))
		})
	}
	c.R.Min("R-attempt-ctx", 2)
}

// ---------------------------------------------------------------- R-session-adopted (C19)
// "Every later request carries the session id the server issued": the id arrives in a response header, so it is by
// construction a value net/http accepts in a header, and the client has no business judging it. The value the client
// reads from the response header it later echoes (the header name is discovered from the client's own request-building
// code: a member copied into a request header under the same name) is not passed through a library predicate that can
// make the client drop it — an id the predicate refuses leaves the client without a session although the server
// opened one, and no later request (nor the final DELETE) carries it.
func c19SessionAdopted(c *Ctx) {
	echoed := map[string]bool{}
	for _, fn := range c.P.LibFns {
		if !clientSide(c, fn) {
			continue
		}
		ir.EachCall(fn, func(call ssa.CallInstruction) {
			n := ir.CallName(call)
			if n != "(net/http.Header).Set" && n != "(net/http.Header).Add" {
				return
			}
			args := call.Common().Args
			if len(args) != 3 {
				return
			}
			k, ok := ir.ConstStr(args[1])
			if !ok {
				return
			}
			v := args[2]
			if oc := originCall(v); oc != nil {
				// through the member's accessor (getSessionID())
				if sc := ir.StaticCallee(oc); sc != nil && c.P.IsLib(sc) {
					for _, b := range sc.Blocks {
						if ret, ok := b.Instrs[len(b.Instrs)-1].(*ssa.Return); ok {
							for _, res := range ir.Results(ret) {
								if f, _, ok := ir.LoadedField(unspill(res)); ok && ir.TypeStr(f.Type) == "string" {
									echoed[k] = true
								}
							}
						}
					}
				}
			}
			if f, _, ok := ir.LoadedField(v); ok && ir.TypeStr(f.Type) == "string" {
				echoed[k] = true
			}
		})
	}
	n := 0
	for _, fn := range c.P.LibFns {
		if !clientSide(c, fn) {
			continue
		}
		cnt := 0
		ir.EachInstr(fn, func(_ *ssa.BasicBlock, _ int, in ssa.Instruction) {
			get, ok := in.(*ssa.Call)
			if !ok || ir.CallName(get) != "(net/http.Header).Get" || len(get.Call.Args) != 2 {
				return
			}
			k, ok := ir.ConstStr(get.Call.Args[1])
			if !ok || !echoed[k] {
				return
			}
			// response headers only: the receiver is the Header member of an *http.Response
			if f, _, ok := ir.LoadedField(get.Call.Args[0]); !ok || f.Name != "Header" || f.Struct == nil || f.Struct.Obj().Name() != "Response" {
				return
			}
			n++
			cnt++
			var bad *ssa.Call
			vals := []ssa.Value{get}
			for i := 0; i < len(vals) && i < 16; i++ {
				if vals[i].Referrers() == nil {
					continue
				}
				for _, r := range *vals[i].Referrers() {
					switch x := r.(type) {
					case *ssa.Store:
						// a local cell: its loads
						if al, ok := x.Addr.(*ssa.Alloc); ok {
							for _, ar := range *al.Referrers() {
								if ld, ok := ar.(*ssa.UnOp); ok && ld.Op == token.MUL {
									vals = append(vals, ld)
								}
							}
						}
					case *ssa.Call:
						sc := ir.StaticCallee(x)
						if sc == nil || !c.P.IsLib(sc) {
							continue
						}
						if sig := sc.Signature; sig.Results().Len() == 1 && ir.TypeStr(sig.Results().At(0).Type()) == "bool" {
							bad = x
						}
					}
				}
			}
			detail := ""
			if bad != nil {
				detail = sprintf("%s passes the %s value it read from the response through the library predicate %s before adopting it: an id the predicate refuses (the header value is by construction one net/http can carry) is dropped, the client goes on without a session although the server opened one, and neither its later requests nor its DELETE carry the id", fname(fn), k, fname(ir.StaticCallee(bad)))
			}
			c.R.Check(bad == nil, "R-session-adopted", sprintf("%s read from a response #%d in %s", k, cnt, fname(fn)), c.Pos(get.Pos()),
				"adopted as received (tested for emptiness at most)", detail)
		})
	}
	c.R.Min("R-session-adopted", 2)
}

// ---------------------------------------------------------------- R-shared-pointee-write (C20)
// A transport keeps pointers to records of other packages (*url.URL, *http.Client) in its members; every call on the
// transport sees the same record. Outside construction, a write to a member of such a record through the pointer loaded
// from the transport — `u := t.serverURL; u.Path = …` copies the pointer, not the URL — is a write to state shared by
// all concurrent calls, and those records have no lock of their own.
func c20SharedPointeeWrite(c *Ctx) {
	n, bad := 0, 0
	init := c.InitOnly()
	for _, fn := range c.P.LibFns {
		if init[fn] || ir.IsConstructor(fn) {
			continue
		}
		ir.EachInstr(fn, func(_ *ssa.BasicBlock, _ int, in ssa.Instruction) {
			st, ok := in.(*ssa.Store)
			if !ok {
				return
			}
			fa, ok := st.Addr.(*ssa.FieldAddr)
			if !ok {
				return
			}
			ptr := fa.X
			// through a local variable holding the pointer
			ptr = unspill(ptr)
			ld, ok := ptr.(*ssa.UnOp)
			if !ok || ld.Op != token.MUL {
				return
			}
			m, ok := ld.X.(*ssa.FieldAddr)
			if !ok {
				return
			}
			key, _, _, base := ir.FullField(m)
			if key == "" || ir.BaseAlloc(base) {
				return
			}
			if owner := ir.FullFieldOwner(m); owner == nil || !ir.InLibrary(owner) {
				return // a member of a record of another package (httpReq.URL): the record is the function's own
			}
			// the function that configures a server record and then runs it (blocks in Serve) is the record's only user
			serves := false
			ir.EachCall(fn, func(call ssa.CallInstruction) {
				if n := ir.CallName(call); strings.HasPrefix(n, "(*net/http.Server).") && strings.Contains(n, "Serve") {
					serves = true
				}
			})
			if serves {
				return
			}
			pt, ok := ld.Type().Underlying().(*types.Pointer)
			if !ok {
				return
			}
			named, ok := pt.Elem().(*types.Named)
			if !ok || ir.InLibrary(named) {
				return
			}
			if _, isStruct := named.Underlying().(*types.Struct); !isStruct {
				return
			}
			n++
			if len(c.Locks().At(st)) > 0 {
				c.R.Hold("R-shared-pointee-write", sprintf("write through %s in %s", key, fname(fn)), c.Pos(st.Pos()), "made under a lock")
				return
			}
			bad++
			c.R.Violate("R-shared-pointee-write", sprintf("write through %s in %s", key, fname(fn)), c.Pos(st.Pos()),
				sprintf("%s writes a member of the %s record that %s points to: the pointer is shared by every call on the object (copying the pointer into a local does not copy the record), so concurrent calls write — and read, when they build their requests — the same record without synchronisation", fname(fn), ir.TypeStr(named), key))
		})
	}
	if bad == 0 {
		c.R.Hold("R-shared-pointee-write", "records of other packages reached through members are not written after construction", "", sprintf("%d writes through member pointers examined", n))
	}
}

// ---------------------------------------------------------------- R-schema-from-type (C18)
// A member's schema is derived from the member's Go type. A post-processing helper on the field walk — it is handed the
// struct field and the schema generated for it and returns the schema to use — that can return a schema other than the
// one it was handed (a fresh `string` schema for a tag option, say) replaces the type-derived schema wholesale; what
// encoding/json does with such options depends on the kind of the field (",string" applies to scalars only), so a
// helper that never consults the field's kind describes slices, maps and structs wrongly.
func c18SchemaFromType(c *Ctx, gens []*ssa.Function) {
	isSchemaPtr := func(t types.Type) bool {
		pt, ok := t.Underlying().(*types.Pointer)
		if !ok {
			return false
		}
		nm, ok := pt.Elem().(*types.Named)
		return ok && nm.Obj().Name() == "Schema"
	}
	n := 0
	seen := map[*ssa.Function]bool{}
	for _, g := range gens {
		walks := false
		ir.EachCall(g, func(call ssa.CallInstruction) {
			if call.Common().IsInvoke() && call.Common().Method.Name() == "NumField" {
				walks = true
			}
		})
		if !walks {
			continue
		}
		ir.EachCall(g, func(call ssa.CallInstruction) {
			h := ir.StaticCallee(call)
			if h == nil || !c.P.IsLib(h) || h.Blocks == nil || seen[h] {
				return
			}
			var field, schema *ssa.Parameter
			for _, p := range h.Params {
				if ir.TypeStr(p.Type()) == "reflect.StructField" {
					field = p
				}
				if isSchemaPtr(p.Type()) {
					schema = p
				}
			}
			if field == nil || schema == nil || h.Signature.Results().Len() != 1 || !isSchemaPtr(h.Signature.Results().At(0).Type()) {
				return
			}
			seen[h] = true
			n++
			swaps := false
			var own func(v ssa.Value, d int) bool
			own = func(v ssa.Value, d int) bool {
				if d > 6 {
					return false
				}
				switch x := v.(type) {
				case *ssa.Parameter:
					return x == schema
				case *ssa.Phi:
					for _, e := range x.Edges {
						if !own(e, d+1) {
							return false
						}
					}
					return true
				}
				return unspill(v) != v && own(unspill(v), d+1)
			}
			for _, b := range h.Blocks {
				if ret, ok := b.Instrs[len(b.Instrs)-1].(*ssa.Return); ok {
					for _, res := range ir.Results(ret) {
						if !own(res, 0) {
							swaps = true
						}
					}
				}
			}
			kind := false
			for _, f := range sortedFuncs(c.ReachSync(h)) {
				ir.EachCall(f, func(cc ssa.CallInstruction) {
					if cc.Common().IsInvoke() && cc.Common().Method.Name() == "Kind" {
						kind = true
					}
					if strings.HasSuffix(ir.CallName(cc), ").Kind") {
						kind = true
					}
				})
			}
			ir.EachCall(h, func(cc ssa.CallInstruction) {
				if strings.HasSuffix(ir.CallName(cc), ").Kind") || (cc.Common().IsInvoke() && cc.Common().Method.Name() == "Kind") {
					kind = true
				}
			})
			c.R.Check(!swaps || kind, "R-schema-from-type", "field post-processing by "+fname(h), c.Pos(h.Pos()),
				"returns the schema it was handed, or consults the field's kind before replacing it",
				sprintf("%s, applied to every field by %s, can return a schema other than the type-derived one it was handed and never looks at the field's kind: whatever tag option it honours is applied to slices, maps and structs as well, for which encoding/json ignores it — the schema then describes a form the value is never encoded in", fname(h), fname(g)))
		})
	}
	if n == 0 {
		c.R.Hold("R-schema-from-type", "no post-processing helper on the field walks takes and returns a field's schema", "", "field schemas are used as generated from the type")
	}
}
