package rules

import (
	"go/token"
	"go/types"
	"strings"

	"golang.org/x/tools/go/ssa"

	"verif/checker/flow"
	"verif/checker/ir"
)

// C13 — request-scoped context never bleeds between concurrent requests.
//
//	R-no-escape          on request paths no request-scoped value (context, *http.Request, ResponseWriter,
//	                     Session, notification sender, per-request handler closure, request message) is stored
//	                     into an object that outlives the request (anything not allocated by the storing
//	                     function) or into a package variable
//	R-ctx-provenance     request paths never start a fresh context (context.Background/TODO); the context
//	                     handed to the dispatcher and to user callbacks derives from the function's own context
//	R-ctxfunc-order      HTTP context functions are folded forward over the configured slice, each receiving
//	                     the previous result; the option appends
//	R-filter-per-request list filters are called with the handler's own ctx and a slice built for this
//	                     request; their result is not stored anywhere
//	R-inject             values injected with context.WithValue on request paths come from the injecting
//	                     function's own parameters/receiver
func init() { Registry["C13"] = checkC13 }

var requestScopedTypes = map[string]bool{
	"context.Context": true, "*net/http.Request": true, "net/http.ResponseWriter": true, "mcp.Session": true,
	"mcp.notificationSender": true, "mcp.HandlerFunc": true, "*mcp.JSONRPCRequest": true, "net/http.Flusher": true,
}

func checkC13(c *Ctx) {
	if sI := c.senderIface(); sI != nil {
		requestScopedTypes[ir.TypeStr(sI)] = true
	}
	c.R.Explanation = "Static escape/provenance check of request-scoped values on the server request paths (everything reachable from the two ServeHTTP implementations): " +
		"none is stored into an object the storing function did not allocate itself or into a package variable; no fresh root context is created; contexts handed on derive from the function's own; " +
		"context functions are folded forward; list filters get the request's ctx and a per-request slice and their result is not retained; context values are injected from the function's own parameters."
	c.R.NotDecided = "what user-supplied context functions, filters, middlewares and handlers do with the context"
	c.R.Assumptions = []string{"objects allocated inside a handler invocation (connection records, responders) are scoped to that connection/request"}
	var entries []*ssa.Function
	for _, fn := range c.P.LibFns {
		if fn.Name() == "ServeHTTP" && fn.Signature.Recv() != nil {
			entries = append(entries, fn)
		}
	}
	if len(entries) < 2 {
		c.R.Break("expected two ServeHTTP implementations, found %d", len(entries))
		return
	}
	reach := c.Reach(entries...)
	c.R.Extra["request_path_functions"] = len(reach)

	// ---- R-no-escape
	nStores, nEsc := 0, 0
	for _, fn := range sortedFuncs(reach) {
		if c.InitOnly()[fn] {
			continue
		}
		ir.EachInstr(fn, func(_ *ssa.BasicBlock, _ int, in ssa.Instruction) {
			var addr, val ssa.Value
			what := ""
			switch x := in.(type) {
			case *ssa.Store:
				addr, val = x.Addr, x.Val
			case *ssa.MapUpdate:
				if f, _, ok := ir.LoadedField(x.Map); ok {
					_ = f
					addr, val, what = x.Map, x.Value, "map "
				} else {
					return
				}
			default:
				return
			}
			vt := ir.TypeStr(ir.Unwrap(val).Type())
			if !requestScopedTypes[vt] && !requestScopedTypes[ir.TypeStr(val.Type())] {
				return
			}
			nStores++
			target := ""
			switch a := addr.(type) {
			case *ssa.Global:
				target = "package variable " + a.Name()
			case *ssa.FieldAddr:
				if ir.BaseAlloc(a.X) {
					return // object built by this very function
				}
				key, _, _, _ := ir.FullField(a)
				if key == "" {
					return
				}
				target = "field " + key
			case *ssa.UnOp:
				if f, base, ok := ir.LoadedField(a); ok {
					if ir.BaseAlloc(base) {
						return
					}
					target = what + "field " + f.Key()
				}
			default:
				return
			}
			if target == "" {
				return
			}
			// a nil store is a release, not an escape
			if ir.IsNilConst(val) {
				return
			}
			nEsc++
			c.R.Violate("R-no-escape", vt+" stored into "+target+" by "+fname(fn), c.Pos(in.Pos()),
				sprintf("%s (on a request path) stores a request-scoped %s into %s, which outlives the request: a concurrent or later request can observe another request's context/session", fname(fn), vt, target))
		})
	}
	// handing a request-scoped object to a sync.Pool is the same escape: the pool gives it to a later request as it is
	for _, fn := range sortedFuncs(reach) {
		ir.EachCall(fn, func(call ssa.CallInstruction) {
			if ir.CallName(call) != "(*sync.Pool).Put" || len(call.Common().Args) < 2 {
				return
			}
			v := call.Common().Args[1]
			for {
				if ci, ok := v.(*ssa.ChangeInterface); ok {
					v = ci.X
					continue
				}
				break
			}
			vt := ir.TypeStr(ir.Unwrap(v).Type())
			scoped := requestScopedTypes[vt] || requestScopedTypes[ir.TypeStr(v.Type())]
			if sI := c.P.RootNamed("Session"); sI != nil && !scoped {
				if it, ok := sI.Underlying().(*types.Interface); ok && types.Implements(ir.Unwrap(v).Type(), it) {
					scoped, vt = true, ir.TypeStr(ir.Unwrap(v).Type())+" (a Session)"
				}
			}
			nStores++
			if !scoped {
				return
			}
			nEsc++
			c.R.Violate("R-no-escape", vt+" put into a sync.Pool by "+fname(fn), c.Pos(call.Pos()),
				sprintf("%s (on a request path) recycles a request-scoped %s through a sync.Pool: the next request that takes it from the pool sees whatever this request left in it (session data, negotiated version) — usually a request of another client", fname(fn), vt))
		})
	}
	if nEsc == 0 {
		c.R.Hold("R-no-escape", "request-scoped values stay in objects of their own request", "", sprintf("%d stores of request-scoped values examined on %d request-path functions", nStores, len(reach)))
	}
	c.R.Min("R-no-escape", 1)
	if nStores < 3 {
		c.R.Break("R-no-escape examined only %d stores of request-scoped values (expected >= 3)", nStores)
	}

	// ---- R-ctx-provenance
	nBg := 0
	for _, fn := range sortedFuncs(reach) {
		ir.EachCall(fn, func(call ssa.CallInstruction) {
			n := ir.CallName(call)
			if n == "context.Background" || n == "context.TODO" {
				nBg++
				c.R.Violate("R-ctx-provenance", n+" in "+fname(fn), c.Pos(call.Pos()),
					sprintf("%s lies on a server request path and creates a fresh root context (%s): values derived from the request are lost for whatever receives it", fname(fn), n))
			}
		})
	}
	if nBg == 0 {
		c.R.Hold("R-ctx-provenance", "no fresh root context on request paths", "", "")
	}
	// contexts handed to the dispatcher / user callbacks
	nCtx := 0
	for _, fn := range sortedFuncs(reach) {
		ir.EachInstr(fn, func(_ *ssa.BasicBlock, _ int, in ssa.Instruction) {
			call, ok := in.(*ssa.Call)
			if !ok {
				return
			}
			n := ir.CallName(call)
			// dynamic calls and calls through library-declared interfaces (the dispatcher abstractions)
			interesting := n == "dynamic"
			if cc := call.Common(); cc.IsInvoke() && cc.Method != nil && cc.Method.Pkg() != nil && cc.Method.Pkg().Path() == ir.RootPath && !cc.Method.Exported() {
				interesting = true
			}
			if c.isDispatchCall(call) {
				interesting = true // however the dispatcher is reached (interface or concrete type)
				n = "the request dispatcher"
			}
			if !interesting {
				return
			}
			for _, a := range call.Call.Args {
				if ir.TypeStr(a.Type()) != "context.Context" {
					continue
				}
				nCtx++
				root := ctxRoot2(a, 0)
				key := "context handed on by " + fname(fn) + " to " + n
				c.R.Check(root == "param" || root == "request", "R-ctx-provenance", key, c.Pos(call.Pos()), "derives from the function's own context ("+root+")",
					sprintf("%s hands a context of provenance %q to %s instead of one derived from its own request context", fname(fn), root, n))
			}
		})
	}
	c.R.Min("R-ctx-provenance", 10)

	c13CtxFuncs(c)
	c13Filters(c)
	c13Inject(c, reach)
	c13CtxFuncApplied(c, reach)
	c15SessionInContext(c) // the request's own session is what middlewares, filters and handlers find in the context
	poolAliasRule(c, "R-answer-owned") // an answer framed in a recycled buffer that is put back before it is written is overwritten by another session's
	dispatchOwnContext(c, "R-own-session")
}

// ctxRoot2 extends ctxRoot with the request root (r.Context()).
func ctxRoot2(v ssa.Value, d int) string {
	if call, ok := v.(*ssa.Call); ok && ir.CallName(call) == "(*net/http.Request).Context" {
		return "request"
	}
	if d > 10 {
		return "unknown"
	}
	switch x := v.(type) {
	case *ssa.Call:
		n := ir.CallName(x)
		if n == "context.Background" || n == "context.TODO" {
			return "background"
		}
		for _, a := range x.Call.Args {
			if ir.TypeStr(a.Type()) == "context.Context" {
				return ctxRoot2(a, d+1)
			}
		}
		if x.Call.IsInvoke() && ir.TypeStr(x.Call.Value.Type()) == "context.Context" {
			return ctxRoot2(x.Call.Value, d+1)
		}
		return "unknown"
	case *ssa.Phi:
		res := "unknown"
		for _, e := range x.Edges {
			if e == v {
				continue
			}
			r := ctxRoot2(e, d+1)
			if r == "background" || r == "field" {
				return r
			}
			if r != "unknown" {
				res = r
			}
		}
		return res
	case *ssa.Extract:
		return ctxRoot2(x.Tuple, d+1)
	case *ssa.MakeInterface:
		return ctxRoot2(x.X, d+1)
	case *ssa.ChangeInterface:
		return ctxRoot2(x.X, d+1)
	case *ssa.UnOp:
		if _, isFV := x.X.(*ssa.FreeVar); isFV {
			return "param" // a variable of the enclosing function captured by reference
		}
	}
	return ctxRoot(v, d)
}

func c13CtxFuncs(c *Ctx) {
	cfT := c.P.RootNamed("HTTPContextFunc")
	if cfT == nil {
		c.R.Break("anchor not found: HTTPContextFunc")
		return
	}
	n := 0
	for _, fn := range c.P.LibFns {
		ir.EachInstr(fn, func(_ *ssa.BasicBlock, _ int, in ssa.Instruction) {
			call, ok := in.(*ssa.Call)
			if !ok || call.Call.IsInvoke() || !types.Identical(call.Call.Value.Type(), cfT) {
				return
			}
			n++
			construct := "context functions folded in " + fname(fn)
			// element of a slice field, index increasing
			fwd, acc := false, false
			if u, ok := call.Call.Value.(*ssa.UnOp); ok {
				if ia, ok := u.X.(*ssa.IndexAddr); ok {
					if bin, ok := ia.Index.(*ssa.BinOp); ok && bin.Op == token.ADD {
						if _, isPhi := bin.X.(*ssa.Phi); isPhi {
							if one, ok := ir.ConstInt(bin.Y); ok && one == 1 {
								fwd = true
							}
						}
					}
					if phi, ok := ia.Index.(*ssa.Phi); ok {
						for _, e := range phi.Edges {
							if bin, ok := e.(*ssa.BinOp); ok && bin.Op == token.ADD && bin.X == phi {
								fwd = true
							}
						}
					}
				}
			}
			if phi, ok := call.Call.Args[0].(*ssa.Phi); ok {
				hasSelf, hasParam := false, false
				for _, e := range phi.Edges {
					if e == ssa.Value(call) {
						hasSelf = true
					}
					if _, ok := e.(*ssa.Parameter); ok {
						hasParam = true
					}
					// the fold may start from the request's own context when it sits in a helper handed the request
					if ic, ok := e.(*ssa.Call); ok && ir.CallName(ic) == "(*net/http.Request).Context" {
						hasParam = true
					}
				}
				acc = hasSelf && hasParam
			}
			c.R.Check(fwd && acc, "R-ctxfunc-order", construct, c.Pos(call.Pos()), "forward fold: each function receives the previous result",
				sprintf("%s does not fold the configured HTTP context functions forward over the accumulated context (forward=%v, accumulating=%v)", fname(fn), fwd, acc))
		})
	}
	// registration appends
	for _, fn := range c.P.LibFns {
		ir.EachInstr(fn, func(_ *ssa.BasicBlock, _ int, in ssa.Instruction) {
			st, ok := in.(*ssa.Store)
			if !ok {
				return
			}
			fa, ok := st.Addr.(*ssa.FieldAddr)
			if !ok {
				return
			}
			key, _, typ, base := ir.FullField(fa)
			if key == "" || typ == nil {
				return
			}
			sl, isSl := typ.Underlying().(*types.Slice)
			if !isSl || !types.Identical(sl.Elem(), cfT) || ir.BaseAlloc(base) {
				return
			}
			okApp := false
			if call, ok := st.Val.(*ssa.Call); ok {
				if bl, ok := call.Call.Value.(*ssa.Builtin); ok && bl.Name() == "append" {
					if f, _, ok := ir.LoadedField(call.Call.Args[0]); ok && f.Key() == key {
						okApp = true
					}
				}
			}
			if _, isParam := st.Val.(*ssa.Parameter); isParam {
				okApp = true // handing the whole configured slice over
			}
			if _, _, isField := ir.LoadedField(st.Val); isField {
				okApp = true
			}
			if fv, isFV := st.Val.(*ssa.UnOp); isFV {
				if _, ok := fv.X.(*ssa.FreeVar); ok {
					okApp = true
				}
			}
			c.R.Check(okApp, "R-ctxfunc-order", "registration into "+key+" in "+fname(fn), c.Pos(st.Pos()), "append(existing, fn) / whole-slice hand-over",
				sprintf("%s does not append to %s: context functions would not run in registration order", fname(fn), key))
		})
	}
	c.R.Min("R-ctxfunc-order", 2)
	if n == 0 {
		c.R.Break("no call of a HTTPContextFunc value found")
	}
}

func c13Filters(c *Ctx) {
	n := 0
	// a list filter, by shape: func(context.Context, []*E) []*E with E one of the listed entry types — called through
	// the named filter type or, in a shared (generic) helper, through a parameter of that shape
	entryTypes := map[string]string{}
	for _, tname := range []string{"ToolListFilter", "PromptListFilter", "ResourceListFilter"} {
		ft := c.P.RootNamed(tname)
		if ft == nil {
			c.R.Break("anchor not found: %s", tname)
			continue
		}
		if sig, ok := ft.Underlying().(*types.Signature); ok && sig.Params().Len() == 2 {
			entryTypes[ir.TypeStr(sig.Params().At(1).Type())] = tname
		}
	}
	filterName := func(t types.Type) string {
		sig, ok := t.Underlying().(*types.Signature)
		if !ok || sig.Params().Len() != 2 || sig.Results().Len() != 1 || ir.TypeStr(sig.Params().At(0).Type()) != "context.Context" {
			return ""
		}
		if !types.Identical(sig.Params().At(1).Type(), sig.Results().At(0).Type()) {
			return ""
		}
		return entryTypes[ir.TypeStr(sig.Params().At(1).Type())]
	}
	for _, fn := range c.P.LibFns {
		ir.EachInstr(fn, func(_ *ssa.BasicBlock, _ int, in ssa.Instruction) {
			call, ok := in.(*ssa.Call)
			if !ok || call.Call.IsInvoke() {
				return
			}
			if _, static := call.Call.Value.(*ssa.Function); static {
				return
			}
			tname := filterName(call.Call.Value.Type())
			if tname == "" {
				return
			}
			n++
			construct := tname + " applied in " + fname(fn)
			_, ctxIsParam := call.Call.Args[0].(*ssa.Parameter)
			c.R.Check(ctxIsParam, "R-filter-per-request", construct+": ctx", c.Pos(call.Pos()), "called with the handler's own ctx parameter",
				sprintf("%s calls the list filter with a context that is not its own ctx parameter", fname(fn)))
			// the slice handed over is built for this request (in a shared helper: by every caller)
			fresh, why := freshSliceArg(c, call.Call.Args[1])
			if p, isParam := call.Call.Args[1].(*ssa.Parameter); isParam && !fresh {
				idx := -1
				for i, q := range fn.Params {
					if q == p {
						idx = i
					}
				}
				callers := 0
				fresh = true
				for _, e := range ir.Callers(c.G, fn) {
					if e.Site == nil || !c.P.IsLib(e.Caller.Func) || idx < 0 || idx >= len(e.Site.Common().Args) {
						continue
					}
					callers++
					if ok2, why2 := freshSliceArg(c, e.Site.Common().Args[idx]); !ok2 {
						fresh, why = false, "caller "+fname(e.Caller.Func)+": "+why2
					}
				}
				if callers == 0 {
					fresh = false
				} else if fresh {
					why = "every caller hands in a list built for its request"
				}
			}
			c.R.Check(fresh, "R-filter-per-request", construct+": list", c.Pos(call.Pos()), why,
				sprintf("%s hands the filter a list that is not built for this request (%s): a filter that edits it in place changes what other callers see", fname(fn), why))
			// the result is not retained
			retained := false
			for _, r := range *call.Referrers() {
				if st, ok := r.(*ssa.Store); ok {
					if fa, ok := st.Addr.(*ssa.FieldAddr); ok && !ir.BaseAlloc(fa.X) {
						retained = true
					}
					if _, ok := st.Addr.(*ssa.Global); ok {
						retained = true
					}
				}
			}
			c.R.Check(!retained, "R-filter-per-request", construct+": result", c.Pos(call.Pos()), "the filtered list only flows into this answer", sprintf("%s retains the filter's result beyond the request", fname(fn)))
			// once the filter has run, its verdict is final: the list that was handed to it is not used again (a filter
			// that hides everything returns nil or an empty list — falling back to the input then shows the caller all)
			input := call.Call.Args[1]
			reused := false
			if input.Referrers() != nil {
				for _, r := range *input.Referrers() {
					if r == ssa.Instruction(call) {
						continue
					}
					if phi, ok := r.(*ssa.Phi); ok {
						for i, e := range phi.Edges {
							if e == input && i < len(phi.Block().Preds) {
								pb := phi.Block().Preds[i]
								if pb == call.Block() || call.Block().Dominates(pb) {
									reused = true
								}
							}
						}
						continue
					}
					if bin, ok := r.(*ssa.BinOp); ok && (ir.IsNilConst(bin.X) || ir.IsNilConst(bin.Y)) {
						continue
					}
					if cb, ok := r.(*ssa.Call); ok {
						if b, ok := cb.Call.Value.(*ssa.Builtin); ok && b.Name() == "len" {
							continue
						}
					}
					if r.Block() != call.Block() && call.Block().Dominates(r.Block()) {
						reused = true
					}
					if r.Block() == call.Block() && flow.Dominates(call, r) {
						reused = true
					}
				}
			}
			c.R.Check(!reused, "R-filter-per-request", construct+": verdict final", c.Pos(call.Pos()), "the unfiltered list is not used after the filter ran",
				sprintf("%s uses the list it handed to the filter again after the filter has run (a fallback for a nil or empty result): a filter that hides every entry from this caller returns exactly that, and the caller is shown the complete list", fname(fn)))
		})
	}
	c.R.Min("R-filter-per-request", 9)
}

// freshSliceArg: v is the result of a library call all of whose returns yield a slice created in that call.
func freshSliceArg(c *Ctx, v ssa.Value) (bool, string) {
	call, ok := v.(*ssa.Call)
	if !ok {
		if _, isMake := v.(*ssa.MakeSlice); isMake {
			return true, "slice made in place"
		}
		return false, "not the result of a listing call"
	}
	g := ir.StaticCallee(call)
	if g == nil || !c.P.IsLib(g) {
		return false, "listing function not resolved"
	}
	ok = true
	why := "built by " + fname(g) + " for this call"
	ir.EachInstr(g, func(_ *ssa.BasicBlock, _ int, in ssa.Instruction) {
		r, isRet := in.(*ssa.Return)
		if !isRet || len(ir.Results(r)) == 0 || r.Block() == g.Recover {
			return // (the recover block re-returns what a return statement stored before a deferred call panicked)
		}
		if !sliceMadeHere(unspill(ir.Results(r)[0]), 0) {
			ok = false
			why = fname(g) + " returns a slice it did not create in this call (shared snapshot)"
		}
	})
	return ok, why
}

func sliceMadeHere(v ssa.Value, d int) bool {
	return sliceMadeHereV(v, map[ssa.Value]bool{})
}

// sliceMadeHereV: every non-cyclic origin of v is a slice created in this function.
func sliceMadeHereV(v ssa.Value, seen map[ssa.Value]bool) bool {
	if seen[v] {
		return true // cycle through a loop phi: decided by the other inputs
	}
	seen[v] = true
	switch x := v.(type) {
	case *ssa.MakeSlice:
		return true
	case *ssa.Slice:
		if _, ok := x.X.(*ssa.Alloc); ok {
			return true
		}
		return sliceMadeHereV(x.X, seen)
	case *ssa.Call:
		if b, ok := x.Call.Value.(*ssa.Builtin); ok && b.Name() == "append" {
			return sliceMadeHereV(x.Call.Args[0], seen)
		}
		// the result of a library function every return of which yields a slice it made itself
		if g := ir.StaticCallee(x); g != nil && len(g.Blocks) > 0 && strings.HasPrefix(ir.PkgPathOf(g), ir.RootPath) && len(seen) < 64 {
			okAll, nRet := true, 0
			ir.EachInstr(g, func(b *ssa.BasicBlock, _ int, in ssa.Instruction) {
				r, isRet := in.(*ssa.Return)
				if !isRet || len(ir.Results(r)) != 1 || b == g.Recover {
					return
				}
				nRet++
				if !sliceMadeHereV(unspill(ir.Results(r)[0]), seen) {
					okAll = false
				}
			})
			return okAll && nRet > 0
		}
	case *ssa.Phi:
		for _, e := range x.Edges {
			if !sliceMadeHereV(e, seen) {
				return false
			}
		}
		return true
	case *ssa.UnOp:
		if u := unspill(x); u != ssa.Value(x) {
			return sliceMadeHereV(u, seen)
		}
	}
	return false
}

func c13Inject(c *Ctx, reach map[*ssa.Function]bool) {
	n := 0
	for _, fn := range sortedFuncs(reach) {
		ir.EachInstr(fn, func(_ *ssa.BasicBlock, _ int, in ssa.Instruction) {
			call, ok := in.(*ssa.Call)
			if !ok || ir.CallName(call) != "context.WithValue" {
				return
			}
			n++
			val := ir.Unwrap(call.Call.Args[2])
			okSrc := false
			switch x := val.(type) {
			case *ssa.Parameter:
				okSrc = true
			case *ssa.FreeVar:
				okSrc = true
			case *ssa.UnOp:
				if al, ok := x.X.(*ssa.Alloc); ok {
					_ = al
					okSrc = true
				}
			}
			c.R.Check(okSrc, "R-inject", "value injected by "+fname(fn), c.Pos(call.Pos()), "the injected value is the injecting function's own parameter",
				sprintf("%s injects into the context a value that is not one of its own parameters (e.g. a value kept in a longer-lived object)", fname(fn)))
		})
	}
	c.R.Min("R-inject", 4)
}

// dispatchOwnContext: wherever a transport hands a decoded request to the dispatcher, the context it passes derives
// from the context of that very request (its own parameter / r.Context()), not from a context kept in a session or
// connection object.
func dispatchOwnContext(c *Ctx, rule string) {
	n := 0
	for _, fn := range c.P.LibFns {
		if clientSide(c, fn) {
			continue
		}
		ir.EachInstr(fn, func(_ *ssa.BasicBlock, _ int, in ssa.Instruction) {
			call, ok := in.(*ssa.Call)
			if !ok || !c.isDispatchCall(call) {
				return
			}
			// the session the request runs on is obtained for this request — looked up by its id, or created — never a
			// session object kept in a member of the (long-lived) transport handler, which every request would share
			if sessI := c.P.RootNamed("Session"); sessI != nil {
				iface := sessI.Underlying().(*types.Interface)
				for _, a := range call.Call.Args {
					if !types.Identical(a.Type(), sessI) && !(types.Implements(a.Type(), iface) && !types.IsInterface(a.Type())) {
						continue
					}
					if bad := sharedSessionOrigin(c, fn, a, 0, map[ssa.Value]bool{}); bad != "" {
						c.R.Violate(rule, sprintf("session of the dispatch in %s", fname(fn)), c.Pos(call.Pos()),
							sprintf("%s dispatches the request on a session taken from %s — an object that lives as long as the server and is handed to every request: what one request stores in its session is seen (and overwritten) by the requests of other clients", fname(fn), bad))
					}
				}
			}
			for _, a := range call.Call.Args {
				if ir.TypeStr(a.Type()) != "context.Context" {
					continue
				}
				n++
				root := ctxRoot2(a, 0)
				c.R.Check(root == "param" || root == "request", rule, sprintf("context of the dispatch in %s #%d", fname(fn), n), c.Pos(call.Pos()), "derives from the request's own context ("+root+")",
					sprintf("%s dispatches the request with a context of provenance %q instead of one derived from the request's own context: the middlewares and the handler see another request's (or the connection's) values and cancellation", fname(fn), root))
			}
		})
	}
	c.R.Min(rule, 3)
}

// sharedSessionOrigin: "" when every origin of the session value is a call result (lookup by id, creation), a table
// lookup or nil; otherwise a description of the long-lived member it is loaded from.
func sharedSessionOrigin(c *Ctx, fn *ssa.Function, v ssa.Value, d int, seen map[ssa.Value]bool) string {
	if v == nil || d > 4 || seen[v] {
		return ""
	}
	seen[v] = true
	switch x := v.(type) {
	case *ssa.Call:
		// a library helper that picks the session (the client's, or a fallback): what it returns
		sc := ir.StaticCallee(x)
		if sc == nil || !c.P.IsLib(sc) || sc.Blocks == nil || sc.Signature.Results().Len() != 1 {
			return ""
		}
		for _, b := range sc.Blocks {
			if ret, ok := b.Instrs[len(b.Instrs)-1].(*ssa.Return); ok {
				for _, res := range ir.Results(ret) {
					if p, isParam := res.(*ssa.Parameter); isParam {
						_ = p
						continue // handed back: judged at the argument below
					}
					if bad := sharedSessionOrigin(c, sc, res, d+1, seen); bad != "" {
						return bad + " (returned by " + fname(sc) + ")"
					}
				}
			}
		}
		for _, a := range x.Call.Args {
			if types.Identical(a.Type(), v.Type()) {
				if bad := sharedSessionOrigin(c, fn, a, d+1, seen); bad != "" {
					return bad
				}
			}
		}
		return ""
	case *ssa.MakeInterface:
		return sharedSessionOrigin(c, fn, x.X, d, seen)
	case *ssa.ChangeInterface:
		return sharedSessionOrigin(c, fn, x.X, d, seen)
	case *ssa.TypeAssert:
		return sharedSessionOrigin(c, fn, x.X, d, seen)
	case *ssa.Extract:
		if _, isCall := x.Tuple.(*ssa.Call); isCall {
			return ""
		}
		return sharedSessionOrigin(c, fn, x.Tuple, d, seen)
	case *ssa.Phi:
		for _, e := range x.Edges {
			if bad := sharedSessionOrigin(c, fn, e, d, seen); bad != "" {
				return bad
			}
		}
	case *ssa.UnOp:
		if x.Op != token.MUL {
			return ""
		}
		if fv, ok := x.X.(*ssa.FreeVar); ok {
			return sharedSessionOrigin(c, fn, fv, d, seen) // a variable captured by reference
		}
		if al, ok := x.X.(*ssa.Alloc); ok {
			for _, r := range *al.Referrers() {
				if st, ok := r.(*ssa.Store); ok && st.Addr == ssa.Value(al) {
					if bad := sharedSessionOrigin(c, fn, st.Val, d, seen); bad != "" {
						return bad
					}
				}
			}
			return ""
		}
		if fa, ok := x.X.(*ssa.FieldAddr); ok {
			if key, _, _, base := ir.FullField(fa); key != "" && !ir.BaseAlloc(base) {
				return "the member " + key
			}
		}
	case *ssa.Parameter:
		idx := -1
		for i, p := range fn.Params {
			if p == x {
				idx = i
			}
		}
		for _, e := range ir.Callers(c.G, fn) {
			if e.Site == nil || !c.P.IsLib(e.Caller.Func) {
				continue
			}
			args := e.Site.Common().Args
			off := 0
			if e.Site.Common().IsInvoke() {
				off = 1
			}
			if idx-off >= 0 && idx-off < len(args) {
				if bad := sharedSessionOrigin(c, e.Caller.Func, args[idx-off], d+1, seen); bad != "" {
					return bad
				}
			}
		}
	case *ssa.FreeVar:
		// captured by a closure: per request as long as the closure is — a closure (or what is built around it) that
		// is kept in a member outlives the request whose session it captured
		parent := fn.Parent()
		if parent == nil {
			return ""
		}
		for _, outer := range ir.WithClosures(ir.Outer(fn)) {
			var kept string
			ir.EachInstr(outer, func(_ *ssa.BasicBlock, _ int, in ssa.Instruction) {
				mc, ok := in.(*ssa.MakeClosure)
				if !ok || mc.Fn != ssa.Value(fn) || mc.Referrers() == nil {
					return
				}
				vals := []ssa.Value{mc}
				for i := 0; i < len(vals) && i < 8; i++ {
					if vals[i].Referrers() == nil {
						continue
					}
					for _, r := range *vals[i].Referrers() {
						switch y := r.(type) {
						case *ssa.Store:
							if fa, ok := y.Addr.(*ssa.FieldAddr); ok && y.Val == vals[i] {
								if key, _, _, base := ir.FullField(fa); key != "" && !ir.BaseAlloc(base) {
									kept = key
								}
							}
						case *ssa.Call:
							vals = append(vals, y) // a chain built around the closure
						case *ssa.ChangeType:
							vals = append(vals, y)
						case *ssa.MakeInterface:
							vals = append(vals, y)
						}
					}
				}
			})
			if kept != "" {
				return "a closure kept in the member " + kept + " (it captured the session of the request that built it)"
			}
		}
		// otherwise: what the closure captured
		for _, outer := range ir.WithClosures(ir.Outer(fn)) {
			var bad string
			ir.EachInstr(outer, func(_ *ssa.BasicBlock, _ int, in ssa.Instruction) {
				mc, ok := in.(*ssa.MakeClosure)
				if !ok || mc.Fn != ssa.Value(fn) {
					return
				}
				for i, fv := range fn.FreeVars {
					if fv == x && i < len(mc.Bindings) && bad == "" {
						bad = sharedSessionOrigin(c, outer, mc.Bindings[i], d+1, seen)
					}
				}
			})
			if bad != "" {
				return bad
			}
		}
	}
	return ""
}

// ---------------------------------------------------------------- R-ctxfunc-applied
// The values that middlewares, filters and handlers read from the context are put there by the configured HTTP context
// functions (func(context.Context, *http.Request) context.Context) from the caller's own HTTP request. Every context an
// HTTP request path hands to the request dispatcher must therefore descend from the result of applying them: followed
// backwards through context.With* / library helpers, parameters (to every library caller) and captured variables, it
// reaches a call of such a function (or the fold over the configured slice) — never r.Context() or a fresh context
// first. A branch that starts again from r.Context() serves its requests without the caller's values.
func isCtxFuncSig(t types.Type) bool {
	sig, ok := t.Underlying().(*types.Signature)
	if !ok || sig.Params().Len() != 2 || sig.Results().Len() != 1 {
		return false
	}
	return ir.TypeStr(sig.Params().At(0).Type()) == "context.Context" && ir.TypeStr(sig.Params().At(1).Type()) == "*net/http.Request" &&
		ir.TypeStr(sig.Results().At(0).Type()) == "context.Context"
}

func isCtxFuncCall(v ssa.Value) bool {
	call, ok := v.(*ssa.Call)
	if !ok || call.Call.IsInvoke() || ir.StaticCallee(call) != nil {
		return false
	}
	return isCtxFuncSig(call.Call.Value.Type())
}

func c13CtxFuncApplied(c *Ctx, reach map[*ssa.Function]bool) {
	appliers := map[*ssa.Function]bool{}
	for _, fn := range c.P.LibFns {
		ir.EachInstr(fn, func(_ *ssa.BasicBlock, _ int, in ssa.Instruction) {
			if v, ok := in.(ssa.Value); ok && isCtxFuncCall(v) {
				appliers[fn] = true
			}
		})
	}
	if len(appliers) < 2 {
		c.R.Break("R-ctxfunc-applied: expected the HTTP context functions to be applied by at least two functions (Streamable and SSE servers), found %d", len(appliers))
		return
	}
	w := &ctxWalker{c: c, pass: func(call *ssa.Call) bool {
		if isCtxFuncCall(call) {
			return true
		}
		sc := ir.StaticCallee(call)
		return sc != nil && appliers[sc]
	}, fold: true}
	enriched := func(fn *ssa.Function, v ssa.Value, d int, seen map[ctxKey]bool) (bool, string) {
		return w.descends(fn, v, d, seen)
	}
	n := 0
	for _, fn := range sortedFuncs(reach) {
		ir.EachInstr(fn, func(_ *ssa.BasicBlock, _ int, in ssa.Instruction) {
			call, ok := in.(ssa.CallInstruction)
			if !ok {
				return
			}
			what := "dispatcher"
			if !c.isDispatchCall(call) {
				// a registered notification handler (a function value, or the handler interface) is user code too and
				// reads the same values
				if !notificationHandOff(call) {
					return
				}
				what = "notification handler"
			}
			for _, a := range call.Common().Args {
				if ir.TypeStr(a.Type()) != "context.Context" {
					continue
				}
				n++
				ok, why := enriched(fn, a, 0, map[ctxKey]bool{})
				c.R.Check(ok, "R-ctxfunc-applied", sprintf("context handed to the %s by %s", what, fname(fn)), c.Pos(call.Pos()),
					"descends from the result of the configured HTTP context functions",
					sprintf("%s hands the request dispatcher a context that descends from %s without passing through the configured HTTP context functions: middlewares, filters and handlers of these requests do not see the values derived from the caller's HTTP request (identity, role), so a listing is filtered for nobody in particular", fname(fn), why))
			}
		})
	}
	c.R.Min("R-ctxfunc-applied", 3)
	if n == 0 {
		c.R.Break("R-ctxfunc-applied: no dispatcher call with a context found on the HTTP request paths")
	}
}

// ctxWalker follows a context value backwards — through context.With* and library helpers that take a context,
// parameters (to every library caller), local cells and captured variables — and reports whether every origin lies
// behind a call accepted by pass (fold: the accumulating loop over context functions counts as such a call).
type ctxKey struct {
	fn *ssa.Function
	v  ssa.Value
}

type ctxWalker struct {
	c      *Ctx
	pass   func(call *ssa.Call) bool
	fold   bool
	cond   bool                   // `if x != nil { ctx = pass(ctx, x) }` counts as passed (there is nothing to pass when x is nil)
	local  bool                   // do not follow parameters to the callers: a parameter is an origin that has not passed
	scope  map[*ssa.Function]bool // when set, only callers in this set are followed (one transport's request paths)
	strict bool                   // the result of a dynamic call is not taken to derive from the context handed to it
}

func (w *ctxWalker) descendsLocal(fn *ssa.Function, v ssa.Value, d int, seen map[ctxKey]bool) (bool, string) {
	w.local = true
	return w.descends(fn, v, d, seen)
}

func (w *ctxWalker) descends(fn *ssa.Function, v ssa.Value, d int, seen map[ctxKey]bool) (bool, string) {
	c := w.c
	enriched := w.descends

	if d > 24 {
		return false, "derivation too deep to follow"
	}
	k := ctxKey{fn, v}
	if seen[k] {
		return true, "" // a cycle adds no new origin
	}
	seen[k] = true
	switch x := v.(type) {
	case *ssa.Call:
		if w.pass(x) {
			return true, ""
		}
		n := ir.CallName(x)
		if n == "(*net/http.Request).Context" {
			return false, "r.Context() of " + fname(fn)
		}
		if n == "context.Background" || n == "context.TODO" {
			return false, n + " in " + fname(fn)
		}
		if w.strict && !x.Call.IsInvoke() && ir.StaticCallee(x) == nil {
			return false, "the result of a function value (a user-supplied function need not derive its result from the context it is handed) in " + fname(fn)
		}
		for _, a := range x.Call.Args {
			if ir.TypeStr(a.Type()) == "context.Context" {
				return enriched(fn, a, d+1, seen)
			}
		}
		if x.Call.IsInvoke() && ir.TypeStr(x.Call.Value.Type()) == "context.Context" {
			return enriched(fn, x.Call.Value, d+1, seen)
		}
		return false, "the result of " + n + " in " + fname(fn)
	case *ssa.Phi:
		for _, e := range x.Edges {
			if call, ok := e.(*ssa.Call); ok && ((w.fold && isCtxFuncCall(call)) || (w.cond && w.pass(call))) && len(call.Call.Args) > 0 {
				a0 := call.Call.Args[0]
				if a0 == ssa.Value(x) {
					return true, "" // the fold over the configured functions
				}
				for _, e2 := range x.Edges {
					if e2 == a0 {
						return true, "" // `if f != nil { ctx = f(ctx, r) }`
					}
				}
			}
		}
		for _, e := range x.Edges {
			if e == ssa.Value(x) {
				continue
			}
			if ok, why := enriched(fn, e, d+1, seen); !ok {
				return false, why
			}
		}
		return true, ""
	case *ssa.Extract:
		return enriched(fn, x.Tuple, d+1, seen)
	case *ssa.MakeInterface:
		return enriched(fn, x.X, d+1, seen)
	case *ssa.ChangeInterface:
		return enriched(fn, x.X, d+1, seen)
	case *ssa.ChangeType:
		return enriched(fn, x.X, d+1, seen)
	case *ssa.UnOp:
		if x.Op != token.MUL {
			return false, "an expression in " + fname(fn)
		}
		switch cell := x.X.(type) {
		case *ssa.Alloc:
			n := 0
			for _, r := range *cell.Referrers() {
				if st, ok := r.(*ssa.Store); ok && st.Addr == ssa.Value(cell) {
					n++
					if ok, why := enriched(fn, st.Val, d+1, seen); !ok {
						return false, why
					}
				}
			}
			if n == 0 {
				return false, "a variable never assigned in " + fname(fn)
			}
			return true, ""
		case *ssa.FreeVar:
			return enriched(fn, cell, d+1, seen)
		}
		// a member of a record that a library constructor just built (conn := newConn(ctx, …); <-conn.ctx.Done()): what
		// the constructor stored into that member
		if fa, ok := x.X.(*ssa.FieldAddr); ok {
			if ctor, ok := unspill(fa.X).(*ssa.Call); ok {
				if sc := ir.StaticCallee(ctor); sc != nil && c.P.IsLib(sc) && sc.Blocks != nil {
					fr, _, _ := ir.FieldOf(fa)
					var stored ssa.Value
					ir.EachInstr(sc, func(_ *ssa.BasicBlock, _ int, in ssa.Instruction) {
						if st, ok := in.(*ssa.Store); ok {
							if fa2, ok := st.Addr.(*ssa.FieldAddr); ok {
								if _, isAlloc := fa2.X.(*ssa.Alloc); isAlloc {
									if fr2, _, _ := ir.FieldOf(fa2); fr2.Name == fr.Name {
										stored = st.Val
									}
								}
							}
						}
					})
					if stored != nil {
						// parameters of the constructor map to the arguments of this call
						if ok, why := enriched(sc, stored, d+1, seen); ok {
							return true, ""
						} else if why != "" {
							return false, why
						}
					}
				}
			}
		}
		return false, "a member or element loaded in " + fname(fn)
	case *ssa.FreeVar:
		parent := fn.Parent()
		if parent == nil {
			return false, "a captured variable of " + fname(fn)
		}
		idx := -1
		for i, fv := range fn.FreeVars {
			if fv == x {
				idx = i
			}
		}
		found := false
		var bad string
		ir.EachInstr(parent, func(_ *ssa.BasicBlock, _ int, in ssa.Instruction) {
			mc, ok := in.(*ssa.MakeClosure)
			if !ok || mc.Fn != ssa.Value(fn) || idx < 0 || idx >= len(mc.Bindings) {
				return
			}
			found = true
			b := mc.Bindings[idx]
			if al, ok := b.(*ssa.Alloc); ok {
				// captured by reference: every value the cell is given
				for _, r := range *al.Referrers() {
					if st, ok := r.(*ssa.Store); ok && st.Addr == ssa.Value(al) {
						if ok, why := enriched(parent, st.Val, d+1, seen); !ok {
							bad = why
						}
					}
				}
				return
			}
			if ok, why := enriched(parent, b, d+1, seen); !ok {
				bad = why
			}
		})
		if !found {
			return false, "a captured variable of " + fname(fn)
		}
		return bad == "", bad
	case *ssa.Parameter:
		if w.local {
			return false, "a parameter of " + fname(fn)
		}
		idx := -1
		for i, p := range fn.Params {
			if p == x {
				idx = i
			}
		}
		nCallers := 0
		for _, e := range ir.Callers(c.G, fn) {
			// (a bound-method wrapper — `h.serveGet` stored in a table — forwards its parameters: followed like a caller)
			wrapper := e.Caller.Func.Synthetic != "" && strings.Contains(e.Caller.Func.Synthetic, "bound")
			if e.Site == nil || (!c.P.IsLib(e.Caller.Func) && !wrapper) || (w.scope != nil && !w.scope[e.Caller.Func] && !wrapper) {
				continue
			}
			cc := e.Site.Common()
			ai := idx
			if cc.IsInvoke() {
				ai = idx - 1
			}
			if ai < 0 || ai >= len(cc.Args) {
				continue
			}
			nCallers++
			if ok, why := enriched(e.Caller.Func, cc.Args[ai], d+1, seen); !ok {
				return false, why
			}
		}
		if nCallers == 0 {
			return false, "a parameter of " + fname(fn) + ", which no library function calls"
		}
		return true, ""
	}
	return false, "an expression in " + fname(fn)
}

// notificationHandOff: the call hands a decoded notification and a context to code the library does not know
// statically — a registered handler (function value) or a method of a library-declared interface.
func notificationHandOff(call ssa.CallInstruction) bool {
	cc := call.Common()
	hasN, hasCtx := false, false
	for _, a := range cc.Args {
		switch ir.TypeStr(a.Type()) {
		case "*mcp.JSONRPCNotification":
			hasN = true
		case "context.Context":
			hasCtx = true
		}
	}
	if !hasN || !hasCtx {
		return false
	}
	if cc.IsInvoke() {
		return true
	}
	return ir.StaticCallee(call) == nil
}
