package rules

import (
	"go/constant"
	"go/token"
	"go/types"
	"sort"
	"strings"

	"golang.org/x/tools/go/ssa"

	"verif/checker/flow"
	"verif/checker/ir"
)

// C01 — every call gets exactly one answer, and it is its own.
//
//	R-id-echo       the id of every response/error message built anywhere in the library originates from the
//	                ID member of the request being answered (through parameters: from what every caller passes),
//	                or is nil where no request could be decoded — never a counter, a global or another message
//	R-id-fresh      the id of every request a client operation issues is the result of an atomic add
//	R-id-canon      ids are turned into pending-table keys / compared only through the canonical id renderer,
//	                never by formatting an interface-typed id with %v
//	R-once          a user handler is invoked at one call site per function, outside any loop
//	R-one-answer    no answering call of an HTTP handler can be followed by another one on the same path; a
//	                response frame is not silently dropped by a `default` arm while the connection stays up
//	R-fresh-buffer  a reader loop decodes each message into a buffer created in that iteration
//	R-pending-pair  (shared with C05) pending entries are removed on every path from registration to exit
//	R-queue-answered  (shared with C03) on queue-answering transports every path after the dispatch enqueues a frame
//	R-pending-key   (shared with C05) pending keys come from a counter living in the object that holds the table
//	R-no-transport-replay (shared with C17) no request is marked replayable for net/http
//	R-id-presence   (shared with C15) servers classify a message by the presence of its id, never by its value
func init() { Registry["C01"] = checkC01 }

func isRespType(t types.Type) string {
	if p, ok := t.(*types.Pointer); ok {
		t = p.Elem()
	}
	n, ok := t.(*types.Named)
	if !ok || n.Obj().Pkg() == nil || n.Obj().Pkg().Path() != ir.RootPath {
		return ""
	}
	switch n.Obj().Name() {
	case "JSONRPCResponse", "JSONRPCError":
		return n.Obj().Name()
	}
	return ""
}

type idOperand struct {
	fn   *ssa.Function
	at   ssa.Instruction
	v    ssa.Value
	kind string // "response" or "request"
}

func collectIDOperands(c *Ctx) []idOperand {
	// constructors: functions storing a parameter into the ID member of a message they allocate
	type ctor struct {
		idx  int
		kind string
	}
	ctors := map[*ssa.Function]ctor{}
	for _, fn := range c.P.LibFns {
		ir.EachInstr(fn, func(_ *ssa.BasicBlock, _ int, in ssa.Instruction) {
			st, ok := in.(*ssa.Store)
			if !ok {
				return
			}
			f, base, ok := ir.FieldOf(st.Addr)
			if !ok || f.Name != "ID" || f.Struct == nil || !ir.BaseAlloc(base) {
				return
			}
			kind := ""
			switch f.Struct.Obj().Name() {
			case "JSONRPCResponse", "JSONRPCError":
				kind = "response"
			case "JSONRPCRequest":
				kind = "request"
			}
			if kind == "" || f.Struct.Obj().Pkg().Path() != ir.RootPath {
				return
			}
			v := ir.Unwrap(st.Val)
			for i, p := range fn.Params {
				if v == ssa.Value(p) {
					ctors[fn] = ctor{i, kind}
				}
			}
		})
	}
	var out []idOperand
	for _, fn := range c.P.LibFns {
		ir.EachInstr(fn, func(_ *ssa.BasicBlock, _ int, in ssa.Instruction) {
			switch x := in.(type) {
			case *ssa.Store:
				f, _, ok := ir.FieldOf(x.Addr)
				if !ok || f.Name != "ID" || f.Struct == nil || f.Struct.Obj().Pkg() == nil || f.Struct.Obj().Pkg().Path() != ir.RootPath {
					return
				}
				kind := ""
				switch f.Struct.Obj().Name() {
				case "JSONRPCResponse", "JSONRPCError":
					kind = "response"
				case "JSONRPCRequest":
					kind = "request"
				}
				if kind == "" {
					return
				}
				if ct, isCtor := ctors[fn]; isCtor && ir.Unwrap(x.Val) == ssa.Value(fn.Params[ct.idx]) {
					return // judged at the constructor's call sites
				}
				out = append(out, idOperand{fn, x, x.Val, kind})
			case *ssa.Call:
				if sc := ir.StaticCallee(x); sc != nil {
					if ct, ok := ctors[sc]; ok && ct.idx < len(x.Call.Args) {
						out = append(out, idOperand{fn, x, x.Call.Args[ct.idx], ct.kind})
					}
				}
			}
		})
	}
	sort.SliceStable(out, func(i, j int) bool { return out[i].at.Pos() < out[j].at.Pos() })
	return out
}

// idOrigin classifies where an id value comes from.
func idOrigin(c *Ctx, fn *ssa.Function, v ssa.Value, depth int) string {
	if depth > 4 {
		return "unknown"
	}
	v = ir.Unwrap(v)
	switch x := v.(type) {
	case *ssa.Const:
		if x.Value == nil {
			return "nil"
		}
		return "constant " + x.Value.String()
	case *ssa.UnOp:
		if f, _, ok := ir.LoadedField(x); ok && f.Name == "ID" && f.Struct != nil {
			switch f.Struct.Obj().Name() {
			case "JSONRPCRequest":
				return "request.ID"
			case "JSONRPCResponse", "JSONRPCError", "baseMessage":
				return "message.ID"
			}
			return "field " + f.Key()
		}
		if f, _, ok := ir.LoadedField(x); ok {
			return "field " + f.Key()
		}
		if u := unspill(x); u != ssa.Value(x) {
			return idOrigin(c, fn, u, depth+1)
		}
		if _, ok := x.X.(*ssa.Global); ok {
			return "package variable"
		}
		// a struct value parameter's field (baseMessage passed by value)
		return "unknown"
	case *ssa.Field:
		if f, _, ok := ir.FieldOf(x); ok && f.Name == "ID" {
			return "request.ID"
		}
	case *ssa.Parameter:
		idx := -1
		for i, p := range fn.Params {
			if p == x {
				idx = i
			}
		}
		res := ""
		for _, e := range ir.Callers(c.G, fn) {
			if e.Site == nil || !c.P.IsLib(e.Caller.Func) || idx >= len(e.Site.Common().Args) {
				continue
			}
			o := idOrigin(c, e.Caller.Func, e.Site.Common().Args[idx], depth+1)
			if o != "request.ID" && o != "nil" && o != "message.ID" {
				return o + " (passed by " + fname(e.Caller.Func) + ")"
			}
			res = o
		}
		if res == "" {
			return "api parameter"
		}
		return res
	case *ssa.Call:
		n := ir.CallName(x)
		if strings.Contains(n, "sync/atomic") && strings.HasSuffix(n, ".Add") {
			return "atomic counter"
		}
		if sc := ir.StaticCallee(x); sc != nil && c.P.IsLib(sc) {
			// a library function deriving the value from a counter (GenerateRequestID)
			found := ""
			ir.EachCall(sc, func(c2 ssa.CallInstruction) {
				if m := ir.CallName(c2); strings.Contains(m, "sync/atomic") && strings.HasSuffix(m, ".Add") {
					found = "atomic counter"
				}
			})
			if found != "" {
				return found
			}
		}
		return "call " + n
	case *ssa.Phi:
		res := ""
		for _, e := range x.Edges {
			o := idOrigin(c, fn, e, depth+1)
			if res == "" || o != "nil" {
				res = o
			}
		}
		return res
	case *ssa.Extract:
		return idOrigin(c, fn, x.Tuple, depth+1)
	}
	return "unknown"
}

func checkC01(c *Ctx) {
	c.R.Explanation = "Static check that answers are tied to their requests on every code path: provenance of every response/error id (must be the answered request's ID member, through any chain of parameters, or nil), " +
		"atomic-counter provenance of client request ids, canonical rendering of ids used as keys or compared, single invocation of user handlers, at most one answering call per path and no silently dropped response frame, " +
		"per-iteration decode buffers in reader loops, and pending-entry pairing."
	c.R.NotDecided = "that the answer's content was computed from this request's arguments under every interleaving; ordering of frames; behaviour of net/http"
	c.R.Assumptions = []string{"a message's id is whatever is stored in its ID member when it is marshalled"}
	c01IDProvenance(c, true)
	c.R.Min("R-id-echo", 40)
	c.R.Min("R-id-fresh", 12)

	c01Canon(c)
	c01Once(c)
	c01OneAnswer(c)
	c01FreshBuffer(c)
	c01RecoverAnswers(c)
	c16Version(c) // the initialize answer is computed from the request's own version, not from a shared member
	c01ClassifyByPresence(c) // an answer whose result is null is still that call's answer
	poolResetRule(c, "R-pool-reset") // an answer is computed from its own request's arguments only
	// "for every answer size": no reader of a peer's stream has a line limit an ordinary answer exceeds
	scannersBounded(c, c.P.LibFns, "R-bounded-scanner")
	c03QueueAnswered(c)
	c15IDPresence(c)        // a request whose id is taken for absent is never answered
	dispatchUngated(c, "R-dispatch-ungated")
	c17NoTransportReplay(c) // a request net/http may replay on its own reaches the handler twice
	c01WriterSurvives(c)
	// a response whose body is never closed pins its connection: with a bounded pool later calls get no answer at all
	{
		var cfns []*ssa.Function
		for _, f := range c.P.LibFns {
			if clientSide(c, f) {
				cfns = append(cfns, f)
			}
		}
		c08Bodies(c, cfns)
	}
	c05Pending(c)
	c05PendingKey(c)
	// the call's outcome is the server's answer, not what a notification handler returned (shared with C10)
	c10HandlerErrorContained(c, "R-handler-error-contained")
}

// ---------------------------------------------------------------- R-id-canon
func c01Canon(c *Ctx) {
	// the canonical renderer: library function (interface{}) string that type-switches on float64
	var canon *ssa.Function
	for _, fn := range c.P.LibFns {
		if len(fn.Params) != 1 || fn.Signature.Recv() != nil || fn.Signature.Results().Len() != 1 || ir.TypeStr(fn.Signature.Results().At(0).Type()) != "string" {
			continue
		}
		if _, isIface := fn.Params[0].Type().Underlying().(*types.Interface); !isIface {
			continue
		}
		hasFloat := false
		ir.EachInstr(fn, func(_ *ssa.BasicBlock, _ int, in ssa.Instruction) {
			if ta, ok := in.(*ssa.TypeAssert); ok && ta.X == ssa.Value(fn.Params[0]) && ir.TypeStr(ta.AssertedType) == "float64" {
				hasFloat = true
			}
		})
		if hasFloat {
			canon = fn
		}
	}
	c.R.Check(canon != nil, "R-id-canon", "canonical id renderer", "", "a renderer that treats float64 ids like integers exists", "no function renders a decoded (float64) id like the int64 it was generated as")
	// %v of an interface-typed id used as a key or compared
	nFmt := 0
	for _, fn := range c.P.LibFns {
		ir.EachInstr(fn, func(_ *ssa.BasicBlock, _ int, in ssa.Instruction) {
			call, ok := in.(*ssa.Call)
			if !ok || ir.CallName(call) != "fmt.Sprintf" {
				return
			}
			f, ok := ir.ConstStr(call.Call.Args[0])
			if !ok || f != "%v" {
				return
			}
			elems := variadicElems(call.Call.Args[1])
			if len(elems) != 1 || elems[0] == nil {
				return
			}
			src := ir.Unwrap(elems[0])
			isID := false
			if fl, _, ok := ir.LoadedField(src); ok && fl.Name == "ID" {
				isID = true
			}
			if p, ok := src.(*ssa.Parameter); ok && strings.Contains(strings.ToLower(p.Name()), "id") {
				isID = true
			}
			if lk, ok := src.(*ssa.Lookup); ok {
				if k, _ := ir.ConstStr(ir.Unwrap(lk.Index)); k == "id" {
					isID = true
				}
			}
			if ex, ok := src.(*ssa.Extract); ok {
				if lk, ok := ex.Tuple.(*ssa.Lookup); ok {
					if k, _ := ir.ConstStr(ir.Unwrap(lk.Index)); k == "id" {
						isID = true
					}
				}
			}
			if !isID || fn == canon {
				return
			}
			// used as a map key or compared?
			used := false
			for _, r := range *call.Referrers() {
				switch y := r.(type) {
				case *ssa.MapUpdate, *ssa.Lookup, *ssa.BinOp:
					used = true
				case *ssa.Call:
					if sc := ir.StaticCallee(y); sc != nil && c.P.IsLib(sc) {
						used = true // handed to a registration / delivery helper
					}
				case *ssa.Store:
					used = true
				}
			}
			if !used {
				return
			}
			nFmt++
			c.R.Violate("R-id-canon", "%v-rendered id in "+fname(fn), c.Pos(call.Pos()),
				sprintf("%s renders a request id with fmt %%v and uses the text to match requests and answers: a decoded id is a float64 and %%v prints 1000000 as 1e+06, so ids >= 10^6 never match their int64-generated counterpart", fname(fn)))
		})
	}
	// the renderer treats every integral float up to 2^53 (inclusive) as an integer: upper bounds it compares the value
	// with must lie above 2^53
	if canon != nil {
		ir.EachInstr(canon, func(_ *ssa.BasicBlock, _ int, in ssa.Instruction) {
			bin, ok := in.(*ssa.BinOp)
			if !ok || (bin.Op != token.LSS && bin.Op != token.LEQ) {
				return
			}
			cst, ok := bin.Y.(*ssa.Const)
			if !ok || cst.Value == nil {
				return
			}
			k, _ := constant.Float64Val(constant.ToFloat(cst.Value))
			const two53 = 9007199254740992.0
			okBound := (bin.Op == token.LSS && k > two53) || (bin.Op == token.LEQ && k >= two53)
			c.R.Check(okBound, "R-id-canon", "integer range of the id renderer", c.Pos(bin.Pos()), sprintf("integral floats below %g are rendered as integers", k),
				sprintf("the id renderer treats a float id as an integer only when it is %s %g: the id 2^53 itself (the largest integer a JSON number carries exactly) is rendered in exponent form on the decoding side and never matches the int64 it was sent as", bin.Op, k))
		})
	}
	// every use of an id as a pending-table key goes through the renderer (or is a typed integer)
	if canon != nil {
		nUse := len(ir.Callers(c.G, canon))
		c.R.Check(nUse >= 4, "R-id-canon", "renderer used at the matching sites", c.Pos(canon.Pos()), sprintf("%d call sites", nUse), "the canonical id renderer is not used where ids are matched")
	}
	c.R.Min("R-id-canon", 2)
}

// ---------------------------------------------------------------- R-once
func c01Once(c *Ctx) {
	n := 0
	for _, fn := range c.P.LibFns {
		byType := map[string][]*ssa.Call{}
		ir.EachInstr(fn, func(_ *ssa.BasicBlock, _ int, in ssa.Instruction) {
			call, ok := in.(*ssa.Call)
			if !ok {
				return
			}
			cb := userCallbackCall(c, call)
			switch cb {
			case "toolHandler", "promptHandler", "resourceHandler", "resourcesHandler", "resourceTemplateHandler":
				byType[cb] = append(byType[cb], call)
			}
		})
		var ts []string
		for t := range byType {
			ts = append(ts, t)
		}
		sort.Strings(ts)
		for _, t := range ts {
			calls := byType[t]
			n++
			ok := len(calls) == 1 && !flow.InCycle(calls[0].Block())
			c.R.Check(ok, "R-once", t+" invoked in "+fname(fn), c.Pos(calls[0].Pos()), "one call site, not in a loop",
				sprintf("%s invokes the user's %s at %d call site(s) (or inside a loop): a request can run its handler more than once", fname(fn), t, len(calls)))
		}
	}
	c.R.Min("R-once", 4)
}

// ---------------------------------------------------------------- R-one-answer
func c01OneAnswer(c *Ctx) {
	n := 0
	for _, fn := range c.P.LibFns {
		if !hasWriterParam(fn) {
			continue
		}
		var sites []*ssa.Call
		ir.EachInstr(fn, func(_ *ssa.BasicBlock, _ int, in ssa.Instruction) {
			call, ok := in.(*ssa.Call)
			if !ok {
				return
			}
			if isRespondCall(c, call) {
				sites = append(sites, call)
			}
		})
		if len(sites) < 2 {
			continue
		}
		n++
		bad := ""
		for i := range sites {
			for j := range sites {
				if i != j && flow.Reaches(sites[i], sites[j]) {
					bad = sprintf("the answer written at %s can be followed by a second one at %s", c.Pos(sites[i].Pos()), c.Pos(sites[j].Pos()))
				}
			}
		}
		c.R.Check(bad == "", "R-one-answer", "answers of "+fname(fn), c.Pos(fn.Pos()), sprintf("%d answering call sites, pairwise exclusive", len(sites)),
			sprintf("%s: %s — one request gets two answers on the wire", fname(fn), bad))
	}
	// response frames dropped by a default arm
	nDrop := 0
	for _, fn := range c.P.LibFns {
		if clientSide(c, fn) {
			continue
		}
		ir.EachInstr(fn, func(_ *ssa.BasicBlock, _ int, in ssa.Instruction) {
			sel, ok := in.(*ssa.Select)
			if !ok || sel.Blocking {
				return
			}
			for _, st := range sel.States {
				if st.Dir != types.SendOnly {
					continue
				}
				if _, _, isField := ir.LoadedField(st.Chan); !isField {
					continue
				}
				// the frame is a parameter: an enqueue helper. Judge every caller that hands it a response frame and
				// ignores whether it was queued.
				if p, ok := st.Send.(*ssa.Parameter); ok {
					idx := -1
					for i, q := range fn.Params {
						if q == p {
							idx = i
						}
					}
					for _, e := range ir.Callers(c.G, fn) {
						if e.Site == nil || !c.P.IsLib(e.Caller.Func) || idx < 0 || idx >= len(e.Site.Common().Args) {
							continue
						}
						if !frameIsResponse(e.Site.Common().Args[idx], 0) {
							continue
						}
						used := false
						if v := e.Site.Value(); v != nil && v.Referrers() != nil && len(*v.Referrers()) > 0 {
							used = true
						}
						if !used {
							nDrop++
							c.R.Violate("R-one-answer", "response frame may be dropped in "+fname(e.Caller.Func), c.Pos(e.Site.Pos()),
								sprintf("%s hands the response to %s, which enqueues it with a non-blocking send (a `default` arm), and ignores the outcome: when the session's queue is full the answer is dropped while the connection stays up, and the call never completes", fname(e.Caller.Func), fname(fn)))
						}
					}
					continue
				}
				// is the frame a response? it derives from json.Marshal of a JSONRPCResponse / JSONRPCError
				if !frameIsResponse(st.Send, 0) {
					continue
				}
				nDrop++
				c.R.Violate("R-one-answer", "response frame may be dropped in "+fname(fn), c.Pos(sel.Pos()),
					sprintf("%s enqueues the response with a non-blocking send whose default arm only logs: when the session's queue is full the answer is dropped while the connection stays up, and the call never completes", fname(fn)))
			}
		})
	}
	c.R.Min("R-one-answer", 1)
	_ = n
}

func frameIsResponse(v ssa.Value, d int) bool {
	if d > 8 || v == nil {
		return false
	}
	switch x := v.(type) {
	case *ssa.Call:
		if ir.CallName(x) == "encoding/json.Marshal" {
			a := ir.Unwrap(x.Call.Args[0])
			return isRespType(a.Type()) != ""
		}
		for _, a := range x.Call.Args {
			if frameIsResponse(a, d+1) {
				return true
			}
		}
	case *ssa.Extract:
		return frameIsResponse(x.Tuple, d+1)
	case *ssa.Phi:
		for _, e := range x.Edges {
			if frameIsResponse(e, d+1) {
				return true
			}
		}
	case *ssa.Convert:
		return frameIsResponse(x.X, d+1)
	}
	return false
}

// ---------------------------------------------------------------- R-fresh-buffer
func c01FreshBuffer(c *Ctx) {
	n := 0
	isDecode := func(call *ssa.Call) bool {
		nm := ir.CallName(call)
		return nm == "(*encoding/json.Decoder).Decode" || nm == "encoding/json.Unmarshal"
	}
	// library helpers that decode into a target their caller supplies: parameter index of the target
	fwd := map[*ssa.Function]int{}
	for _, fn := range c.P.LibFns {
		ir.EachInstr(fn, func(_ *ssa.BasicBlock, _ int, in ssa.Instruction) {
			call, ok := in.(*ssa.Call)
			if !ok || !isDecode(call) {
				return
			}
			if p, ok := ir.Unwrap(call.Call.Args[len(call.Call.Args)-1]).(*ssa.Parameter); ok {
				for i, q := range fn.Params {
					if q == p {
						fwd[fn] = i
					}
				}
			}
		})
	}
	// holdsRaw: the type keeps undecoded bytes (json.RawMessage / []byte) that UnmarshalJSON writes in place
	var holdsRaw func(t types.Type, d int) bool
	holdsRaw = func(t types.Type, d int) bool {
		if d > 4 {
			return false
		}
		if ir.TypeStr(t) == "encoding/json.RawMessage" {
			return true
		}
		switch u := t.Underlying().(type) {
		case *types.Pointer:
			return holdsRaw(u.Elem(), d+1)
		case *types.Slice:
			if b, ok := u.Elem().Underlying().(*types.Basic); ok && b.Kind() == types.Uint8 {
				return true
			}
		case *types.Struct:
			for i := 0; i < u.NumFields(); i++ {
				if holdsRaw(u.Field(i).Type(), d+1) {
					return true
				}
			}
		}
		return false
	}
	for _, fn := range c.P.LibFns {
		ir.EachInstr(fn, func(_ *ssa.BasicBlock, _ int, in ssa.Instruction) {
			call, ok := in.(*ssa.Call)
			if !ok || !flow.InCycle(call.Block()) {
				return
			}
			var tgt ssa.Value
			if _, isProd := frameProducer(c, ir.StaticCallee(call)); isProd && !isDecode(call) {
				// a frame helper decodes into a value of its own: a new one on every call
				sc := ir.StaticCallee(call)
				raw := false
				for i := 0; i < sc.Signature.Results().Len(); i++ {
					if holdsRaw(sc.Signature.Results().At(i).Type(), 0) {
						raw = true
					}
				}
				if raw {
					n++
					c.R.Hold("R-fresh-buffer", "decode buffer in "+fname(fn), c.Pos(call.Pos()), "each frame is decoded by "+fname(sc)+" into a buffer of its own call")
				}
				return
			}
			if isDecode(call) {
				tgt = ir.Unwrap(call.Call.Args[len(call.Call.Args)-1])
			} else if sc := ir.StaticCallee(call); sc != nil {
				if i, ok := fwd[sc]; ok && i < len(call.Call.Args) {
					tgt = ir.Unwrap(call.Call.Args[i])
				}
			}
			al, ok := tgt.(*ssa.Alloc)
			if !ok {
				return
			}
			pt, ok := al.Type().Underlying().(*types.Pointer)
			if !ok || !holdsRaw(pt.Elem(), 0) {
				return
			}
			n++
			// created per iteration: the allocation lies on a cycle together with the decode
			fresh := flow.InCycle(al.Block()) && sameLoop(al.Block(), call.Block())
			c.R.Check(fresh, "R-fresh-buffer", "decode buffer in "+fname(fn), c.Pos(call.Pos()), "the buffer holding undecoded bytes is created per iteration",
				sprintf("%s decodes every message of its loop into one value declared outside the loop that keeps raw bytes (json.RawMessage): RawMessage.UnmarshalJSON reuses the backing array, so bytes handed on from one iteration (an answer waiting for its caller, a tool's raw schema already put into the result) are overwritten by the next message — the receiver reads another message's bytes", fname(fn)))
		})
	}
	c.R.Min("R-fresh-buffer", 1)
	_ = n
}

// c01IDProvenance: R-id-echo (and, when fresh is set, R-id-fresh / the pairwise exclusivity of response-building sites).
func c01IDProvenance(c *Ctx, fresh bool) {
	ops := collectIDOperands(c)
	n := map[string]int{}
	nResp, nReq := 0, 0
	conn := c.P.RootNamed("Connector")
	clientOps := map[*ssa.Function]bool{}
	if conn != nil {
		iface := conn.Underlying().(*types.Interface)
		for _, T := range c.P.Implementers(iface) {
			for i := 0; i < iface.NumMethods(); i++ {
				if m := c.P.Method(T, iface.Method(i).Name()); m != nil {
					clientOps[m] = true
				}
			}
		}
	}
	for _, op := range ops {
		o := idOrigin(c, op.fn, op.v, 0)
		key := op.kind + " id in " + fname(op.fn)
		n[key]++
		construct := key
		if n[key] > 1 {
			construct = sprintf("%s#%d", key, n[key])
		}
		switch op.kind {
		case "response":
			nResp++
			ok := o == "request.ID" || o == "nil" || o == "message.ID" || o == "api parameter"
			c.R.Check(ok, "R-id-echo", construct, c.Pos(op.at.Pos()), "id originates from "+o,
				sprintf("%s builds a response/error whose id originates from %s, not from the ID member of the request it answers: the caller receives an answer that is not its own (or none it recognises)", fname(op.fn), o))
		case "request":
			if !clientOps[op.fn] || !fresh {
				continue
			}
			nReq++
			c.R.Check(o == "atomic counter", "R-id-fresh", construct, c.Pos(op.at.Pos()), "id is the result of an atomic add on the client's counter",
				sprintf("%s issues a request whose id originates from %s rather than an atomic increment of the client's counter: two calls in flight can share an id", fname(op.fn), o))
		}
	}
	// a request built on the client side and handed on without an id gets one from whoever sends it — a second counter
	// next to the client's own: two calls in flight can then carry the same id. Every request object a client function
	// creates and passes on has its ID member set.
	if fresh {
		reqT := c.P.RootNamed("JSONRPCRequest")
		for _, fn := range c.P.LibFns {
			if !clientSide(c, fn) || reqT == nil {
				continue
			}
			cnt := 0
			ir.EachInstr(fn, func(_ *ssa.BasicBlock, _ int, in ssa.Instruction) {
				al, ok := in.(*ssa.Alloc)
				if !ok || al.Referrers() == nil {
					return
				}
				pt, ok := al.Type().(*types.Pointer)
				if !ok || !types.Identical(pt.Elem(), reqT) {
					return
				}
				hasID, passed, decoded := false, false, false
				for _, r := range *al.Referrers() {
					switch x := r.(type) {
					case *ssa.FieldAddr:
						if f, _, ok := ir.FieldOf(x); ok && f.Name == "ID" && x.Referrers() != nil {
							for _, rr := range *x.Referrers() {
								if st, ok := rr.(*ssa.Store); ok && st.Addr == ssa.Value(x) && !ir.IsNilConst(st.Val) {
									hasID = true
								}
							}
						}
					case *ssa.MakeInterface:
						// handed to a decoder: the id comes from the wire
						if x.Referrers() != nil {
							for _, rr := range *x.Referrers() {
								if dc, ok := rr.(ssa.CallInstruction); ok {
									if n := ir.CallName(dc); n == "encoding/json.Unmarshal" || n == "(*encoding/json.Decoder).Decode" {
										decoded = true
									}
								}
							}
						}
					case ssa.CallInstruction:
						for _, a := range x.Common().Args {
							if a == ssa.Value(al) {
								passed = true
							}
						}
					case *ssa.Store:
						if x.Val == ssa.Value(al) {
							passed = true // kept somewhere: sent later
						}
					}
				}
				if !passed || decoded {
					return
				}
				cnt++
				nReq++
				c.R.Check(hasID, "R-id-fresh", sprintf("request object #%d created in %s carries an id", cnt, fname(fn)), c.Pos(al.Pos()), "its ID member is set where it is built",
					sprintf("%s creates a request and hands it on without setting its id: the transport numbers it from its own counter while the other calls use the client's, so two requests in flight can share an id and one of them never gets its answer", fname(fn)))
			})
		}
	}
	// response-building sites of one function are pairwise exclusive (no path builds two answers to one request)
	byFn := map[*ssa.Function][]idOperand{}
	var fnOrder []*ssa.Function
	for _, op := range ops {
		if op.kind != "response" {
			continue
		}
		if _, seen := byFn[op.fn]; !seen {
			fnOrder = append(fnOrder, op.fn)
		}
		byFn[op.fn] = append(byFn[op.fn], op)
	}
	for _, fn := range fnOrder {
		sites := byFn[fn]
		if len(sites) < 2 || !fresh {
			continue
		}
		bad := ""
		for i := range sites {
			for j := range sites {
				if i != j && flow.Reaches(sites[i].at, sites[j].at) {
					bad = sprintf("the answer built at %s can be followed by another built at %s", c.Pos(sites[i].at.Pos()), c.Pos(sites[j].at.Pos()))
				}
			}
		}
		c.R.Check(bad == "", "R-one-answer", "answers built in "+fname(fn), c.Pos(fn.Pos()), sprintf("%d response-building sites, pairwise exclusive", len(sites)),
			sprintf("%s: %s — one request can get two answers", fname(fn), bad))
	}
}

// ---------------------------------------------------------------- R-writer-survives
// On the queue-answering transports a stream has writer loops that drain the session's queues; when one of them is the
// only way answers reach the peer, it must not end for a reason that has nothing to do with the stream. A message that
// cannot be ENCODED is such a reason: the loop skips it (and logs). A `return` out of a queue-draining loop that is
// controlled by the error of something which may be an encoding error (json.Marshal / Encoder.Encode, or a helper that
// returns their error) ends the writer while the session lives on: every later call is accepted and never answered.
func c01WriterSurvives(c *Ctx) {
	mayEncodeErr := map[*ssa.Function]bool{}
	isEncode := func(call *ssa.Call) bool {
		n := ir.CallName(call)
		return n == "encoding/json.Marshal" || n == "(*encoding/json.Encoder).Encode" || n == "encoding/json.MarshalIndent"
	}
	var encodeErr func(fn *ssa.Function, v ssa.Value, d int, seen map[ssa.Value]bool) bool
	encodeErr = func(fn *ssa.Function, v ssa.Value, d int, seen map[ssa.Value]bool) bool {
		if v == nil || d > 6 || seen[v] {
			return false
		}
		seen[v] = true
		switch x := v.(type) {
		case *ssa.Extract:
			if call, ok := x.Tuple.(*ssa.Call); ok {
				if isEncode(call) {
					return true
				}
				if sc := ir.StaticCallee(call); sc != nil && mayEncodeErr[sc] {
					return true
				}
			}
		case *ssa.Call:
			if isEncode(x) {
				return true
			}
			if sc := ir.StaticCallee(x); sc != nil && mayEncodeErr[sc] {
				return true
			}
			if n := ir.CallName(x); n == "fmt.Errorf" || n == "errors.Join" {
				for _, a := range x.Call.Args {
					for _, e := range variadicElems(a) {
						if encodeErr(fn, ir.Unwrap(e), d+1, seen) {
							return true
						}
					}
				}
			}
		case *ssa.Phi:
			for _, e := range x.Edges {
				if encodeErr(fn, e, d+1, seen) {
					return true
				}
			}
		case *ssa.MakeInterface:
			return encodeErr(fn, x.X, d+1, seen)
		case *ssa.ChangeInterface:
			return encodeErr(fn, x.X, d+1, seen)
		case *ssa.UnOp:
			if u := unspill(x); u != ssa.Value(x) {
				return encodeErr(fn, u, d+1, seen)
			}
		}
		return false
	}
	for iter := 0; iter < 3; iter++ {
		for _, fn := range c.P.LibFns {
			if mayEncodeErr[fn] || clientSide(c, fn) {
				continue
			}
			res := fn.Signature.Results()
			if res.Len() == 0 || ir.TypeStr(res.At(res.Len()-1).Type()) != "error" {
				continue
			}
			ir.EachInstr(fn, func(blk *ssa.BasicBlock, _ int, in ssa.Instruction) {
				ret, ok := in.(*ssa.Return)
				if !ok || blk == fn.Recover {
					return
				}
				rs := ir.Results(ret)
				if encodeErr(fn, rs[len(rs)-1], 0, map[ssa.Value]bool{}) {
					mayEncodeErr[fn] = true
				}
			})
		}
	}
	n := 0
	for _, fn := range c.P.LibFns {
		if clientSide(c, fn) {
			continue
		}
		// queue-draining loops: a select (or receive) on a channel member inside a cycle
		drains := false
		ir.EachInstr(fn, func(b *ssa.BasicBlock, _ int, in ssa.Instruction) {
			if !flow.InCycle(b) {
				return
			}
			switch x := in.(type) {
			case *ssa.Select:
				for _, st := range x.States {
					if st.Dir == types.RecvOnly {
						if f, _, ok := ir.LoadedField(ir.Unwrap(st.Chan)); ok {
							if _, isChan := f.Type.Underlying().(*types.Chan); isChan {
								drains = true
							}
						}
					}
				}
			case *ssa.UnOp:
				if x.Op == token.ARROW {
					if f, _, ok := ir.LoadedField(ir.Unwrap(x.X)); ok {
						if _, isChan := f.Type.Underlying().(*types.Chan); isChan {
							drains = true
						}
					}
				}
			}
		})
		if !drains {
			continue
		}
		n++
		pd := flow.NewPostDom(fn)
		bad := ""
		ir.EachInstr(fn, func(b *ssa.BasicBlock, _ int, in ssa.Instruction) {
			ret, ok := in.(*ssa.Return)
			if !ok || b == fn.Recover || bad != "" {
				return
			}
			for _, g := range pd.ControlDepsTransitive(b) {
				if !flow.InCycle(g.If.Block()) {
					continue
				}
				v, op, ok := nilCompare(g.If.Cond)
				if !ok || (op == token.NEQ) != g.Branch {
					continue
				}
				if encodeErr(fn, v, 0, map[ssa.Value]bool{}) {
					bad = c.Pos(ret.Pos())
				}
			}
		})
		c.R.Check(bad == "", "R-writer-survives", "queue-draining loop of "+fname(fn), c.Pos(fn.Pos()), "no return out of the loop is controlled by an encoding error",
			sprintf("%s drains a session queue in a loop and returns (near %s) when something that may be an ENCODING error occurs (json.Marshal / Encode, or a helper returning their error): one unencodable message ends the writer of a stream that is still up, and every later answer queued for that session is never written", fname(fn), bad))
	}
	if n < 2 {
		c.R.Break("R-writer-survives: only %d queue-draining loops found on the server side", n)
	}
}
