package rules

import (
	"go/token"
	"go/types"
	"reflect"
	"strings"

	"golang.org/x/tools/go/ssa"

	"verif/checker/flow"
	"verif/checker/ir"
)

// C15 — middlewares wrap every request as an onion, each exactly once.
//
// Anchors: the exported func types Middleware and HandlerFunc; slice fields of type []Middleware;
// the dispatcher = the function doing the comma-ok lookup in the method dispatch table.
//
//	R-onion-build       the chain builder walks the middleware slice from last to first, each step
//	                    wrapping the accumulated handler; its result is built from its argument only
//	                    (no cached chain); registration appends at the end; pending ones are applied forward
//	R-once-through      the request entry calls the built chain once (no loop), built from a closure of this
//	                    invocation; dispatcher call sites are pairwise unreachable from one another
//	R-own-request       the core closure dispatches ITS OWN ctx/req parameters
//	R-no-bypass         HTTP transports reach dispatch targets only through the request entry; the
//	                    notification path never touches middleware state
//	R-result-identity   what the transports wrap into the response is the value the entry returned
//	R-error-internal    every path from the err != nil edge of a transport's call of the entry builds a -32603 answer
//	R-own-context       the context handed to the dispatcher derives from the request's own context
//	R-session-in-context  the dispatched context descends from a call that stores the session under the key the exported accessor reads
//	R-id-presence       servers classify a message by the presence of its id (comparison with nil), never by its value
func init() { Registry["C15"] = checkC15 }

func checkC15(c *Ctx) {
	c.R.Explanation = "Static check of the middleware chain: builder loop direction and wrapping shape (SSA induction variable from len-1 down to 0), no cached chain, append-only registration, " +
		"single invocation of the built chain per request with the request's own closure, the core closure dispatching its own parameters, no route from the HTTP transports to a method handler that avoids the chain, and result identity."
	c.R.NotDecided = "what user middlewares do (short-circuit, modify, fail): they are opaque func values"
	c.R.Assumptions = []string{"the stdio server dispatches without the chain by design (the property speaks of Streamable HTTP and legacy SSE servers)"}
	mwT := c.P.RootNamed("Middleware")
	hfT := c.P.RootNamed("HandlerFunc")
	if mwT == nil || hfT == nil {
		c.R.Break("anchor not found: exported types Middleware / HandlerFunc")
		return
	}
	isMwSlice := func(t types.Type) bool {
		sl, ok := t.Underlying().(*types.Slice)
		return ok && types.Identical(sl.Elem(), mwT)
	}
	// ---- builders: functions that call an element of a []Middleware field
	type build struct {
		fn   *ssa.Function
		call *ssa.Call
		idx  ssa.Value
		fld  string
	}
	var builds []build
	for _, fn := range c.P.LibFns {
		ir.EachInstr(fn, func(_ *ssa.BasicBlock, _ int, in ssa.Instruction) {
			call, ok := in.(*ssa.Call)
			if !ok || call.Call.IsInvoke() || !types.Identical(call.Call.Value.Type(), mwT) {
				return
			}
			u, ok := call.Call.Value.(*ssa.UnOp)
			if !ok {
				return
			}
			ia, ok := u.X.(*ssa.IndexAddr)
			if !ok {
				return
			}
			f, _, ok := ir.LoadedField(ia.X)
			if !ok || !isMwSlice(f.Type) {
				return
			}
			builds = append(builds, build{fn, call, ia.Index, f.Key()})
		})
	}
	if len(builds) != 1 {
		c.R.Violate("R-onion-build", "chain builder", "", sprintf("expected exactly one place that wraps a handler with the elements of a []Middleware field, found %d", len(builds)))
		return
	}
	b := builds[0]
	bn := fname(b.fn)
	// index: phi [len-1, phi-1]
	dirOK, why := false, "the middleware index is not an induction variable"
	if phi, ok := b.idx.(*ssa.Phi); ok && len(phi.Edges) == 2 {
		initOK, stepOK := false, false
		for _, e := range phi.Edges {
			bin, ok := e.(*ssa.BinOp)
			if !ok {
				continue
			}
			if bin.Op == token.SUB && bin.X == phi {
				if one, ok := ir.ConstInt(bin.Y); ok && one == 1 {
					stepOK = true
				}
			}
			if bin.Op == token.ADD && bin.X == phi {
				why = "the builder walks the middleware slice first-to-last: index 0 ends up innermost"
			}
			if bin.Op == token.SUB && bin.X != phi {
				if lc, ok := bin.X.(*ssa.Call); ok {
					if bl, ok := lc.Call.Value.(*ssa.Builtin); ok && bl.Name() == "len" {
						if one, ok := ir.ConstInt(bin.Y); ok && one == 1 {
							initOK = true
						}
					}
				}
			}
		}
		// loop test i >= 0
		testOK := false
		for _, r := range *phi.Referrers() {
			if bin, ok := r.(*ssa.BinOp); ok && bin.X == phi && ((bin.Op == token.GEQ && isZero(bin.Y)) || (bin.Op == token.GTR && isMinusOne(bin.Y))) {
				testOK = true
			}
		}
		if initOK && stepOK && testOK {
			dirOK, why = true, "index runs from len-1 down to 0"
		} else if why == "the middleware index is not an induction variable" {
			why = "the middleware index does not run from len-1 down to 0"
		}
	} else if bin, ok := b.idx.(*ssa.BinOp); ok && bin.Op == token.ADD {
		why = "the builder walks the middleware slice first-to-last (range): index 0 ends up innermost"
	}
	c.R.Check(dirOK, "R-onion-build", bn+": direction", c.Pos(b.call.Pos()), why, sprintf("%s: %s", bn, why))
	// wrapping: the argument is the accumulated handler (phi of param and this call)
	accOK := false
	if len(b.call.Call.Args) == 1 {
		if phi, ok := b.call.Call.Args[0].(*ssa.Phi); ok {
			hasParam, hasSelf := false, false
			for _, e := range phi.Edges {
				if _, ok := e.(*ssa.Parameter); ok {
					hasParam = true
				}
				if e == ssa.Value(b.call) {
					hasSelf = true
				}
			}
			accOK = hasParam && hasSelf
		}
	}
	c.R.Check(accOK, "R-onion-build", bn+": wraps accumulated handler", c.Pos(b.call.Pos()), "each step wraps the handler built so far", sprintf("%s does not wrap the handler accumulated so far at each step", bn))
	// result built from the argument only
	resOK := true
	ir.EachInstr(b.fn, func(_ *ssa.BasicBlock, _ int, in ssa.Instruction) {
		r, ok := in.(*ssa.Return)
		if !ok || len(ir.Results(r)) != 1 {
			return
		}
		var visit func(v ssa.Value, d int) bool
		visit = func(v ssa.Value, d int) bool {
			if d > 5 {
				return false
			}
			switch x := v.(type) {
			case *ssa.Parameter:
				return true
			case *ssa.Phi:
				for _, e := range x.Edges {
					if !visit(e, d+1) {
						return false
					}
				}
				return true
			case *ssa.Call:
				return x == b.call
			}
			return false
		}
		if !visit(ir.Results(r)[0], 0) {
			resOK = false
		}
	})
	syncOnce := false
	ir.EachCall(b.fn, func(call ssa.CallInstruction) {
		if ir.CallName(call) == "(*sync.Once).Do" {
			syncOnce = true
		}
	})
	c.R.Check(resOK && !syncOnce, "R-onion-build", bn+": no cached chain", c.Pos(b.fn.Pos()), "the returned chain is built from this call's argument",
		sprintf("%s returns a chain that is not built from its own argument (cached in a field / sync.Once): later requests run with the first request's core handler, i.e. its session and request", bn))

	// registration: stores to []Middleware fields are appends at the end
	nReg := 0
	for _, fn := range c.P.LibFns {
		ir.EachInstr(fn, func(_ *ssa.BasicBlock, _ int, in ssa.Instruction) {
			st, ok := in.(*ssa.Store)
			if !ok {
				return
			}
			fa, ok := st.Addr.(*ssa.FieldAddr)
			if !ok {
				return
			}
			key, _, typ, base := ir.FullField(fa)
			if key == "" || !isMwSlice(typ) || ir.BaseAlloc(base) {
				return
			}
			nReg++
			okApp := false
			if call, ok := st.Val.(*ssa.Call); ok {
				if bl, ok := call.Call.Value.(*ssa.Builtin); ok && bl.Name() == "append" {
					if u, ok := call.Call.Args[0].(*ssa.UnOp); ok {
						if fa2, ok := u.X.(*ssa.FieldAddr); ok {
							if k2, _, _, _ := ir.FullField(fa2); k2 == key {
								okApp = true
							}
						}
					}
				}
			}
			c.R.Check(okApp, "R-onion-build", "registration into "+key+" in "+fname(fn), c.Pos(st.Pos()), "append(existing, new…)",
				sprintf("%s does not append new middlewares at the end of %s: registration order is not execution order", fname(fn), key))
			// ... and every middleware handed in is registered: the append is not subject to a test of the middleware
			// (function values have no usable identity: "already registered" by entry point drops distinct closures)
			filtered := ""
			for _, g := range flow.NewPostDom(fn).ControlDepsTransitive(st.Block()) {
				cond := g.If.Cond
				for {
					if u, ok := cond.(*ssa.UnOp); ok && u.Op == token.NOT {
						cond = u.X
						continue
					}
					break
				}
				switch x := cond.(type) {
				case *ssa.Call:
					filtered = "the result of " + ir.CallName(x)
				case *ssa.BinOp:
					if _, isSig := x.X.Type().Underlying().(*types.Signature); isSig {
						filtered = "a test of the middleware value"
					}
				}
			}
			c.R.Check(filtered == "", "R-onion-build", "every middleware registered into "+key+" in "+fname(fn), c.Pos(st.Pos()), "the append is unconditional for each middleware handed in",
				sprintf("%s registers a middleware only depending on %s: middlewares the caller configured are silently dropped and never run", fname(fn), filtered))
		})
	}
	// pending application loops run forward
	for _, fn := range c.P.LibFns {
		ir.EachInstr(fn, func(_ *ssa.BasicBlock, _ int, in ssa.Instruction) {
			u, ok := in.(*ssa.UnOp)
			if !ok {
				return
			}
			ia, ok := u.X.(*ssa.IndexAddr)
			if !ok {
				return
			}
			isMw := false
			if f, _, ok := ir.LoadedField(ia.X); ok && isMwSlice(f.Type) {
				isMw = true
			}
			if p, ok := ia.X.(*ssa.Parameter); ok && isMwSlice(p.Type()) {
				isMw = true
			}
			if fv, ok := ia.X.(*ssa.FreeVar); ok && isMwSlice(fv.Type()) {
				isMw = true
			}
			if !isMw || fn == b.fn {
				return
			}
			fwd := false
			if bin, ok := ia.Index.(*ssa.BinOp); ok && bin.Op == token.ADD {
				if _, isPhi := bin.X.(*ssa.Phi); isPhi {
					if one, ok := ir.ConstInt(bin.Y); ok && one == 1 {
						fwd = true
					}
				}
			}
			if phi, ok := ia.Index.(*ssa.Phi); ok {
				for _, e := range phi.Edges {
					if bin, ok := e.(*ssa.BinOp); ok && bin.Op == token.ADD && bin.X == phi {
						fwd = true
					}
				}
			}
			c.R.Check(fwd, "R-onion-build", "middlewares applied in order in "+fname(fn), c.Pos(in.Pos()), "forward iteration", sprintf("%s iterates the configured middlewares backwards", fname(fn)))
		})
	}
	c.R.Min("R-onion-build", 6)

	// ---- entry: the function calling the builder
	var entry *ssa.Function
	var buildCall *ssa.Call
	for _, e := range ir.Callers(c.G, b.fn) {
		if e.Site == nil || !c.P.IsLib(e.Caller.Func) {
			continue
		}
		if entry != nil && entry != e.Caller.Func {
			c.R.Violate("R-once-through", "chain built in several places", c.Pos(e.Site.Pos()), "the middleware chain is built by more than one function")
		}
		entry = e.Caller.Func
		buildCall, _ = e.Site.(*ssa.Call)
	}
	if entry == nil || buildCall == nil {
		c.R.Break("the chain builder %s has no library caller", bn)
		return
	}
	en := fname(entry)
	// the built chain is called exactly once, not in a loop, and it is the builder's result
	var chainCalls []*ssa.Call
	ir.EachInstr(entry, func(_ *ssa.BasicBlock, _ int, in ssa.Instruction) {
		if call, ok := in.(*ssa.Call); ok && !call.Call.IsInvoke() && types.Identical(call.Call.Value.Type(), hfT) {
			chainCalls = append(chainCalls, call)
		}
	})
	onceOK := len(chainCalls) == 1 && chainCalls[0].Call.Value == ssa.Value(buildCall) && !flow.InCycle(chainCalls[0].Block())
	c.R.Check(onceOK, "R-once-through", en+": chain invoked once", c.Pos(buildCall.Pos()), "the chain built for this request is invoked exactly once",
		sprintf("%s does not invoke the freshly built chain exactly once (found %d invocations of a HandlerFunc value)", en, len(chainCalls)))
	// the builder's argument is a closure made in this invocation
	coreOK := false
	var core *ssa.Function
	if mc, ok := buildCall.Call.Args[len(buildCall.Call.Args)-1].(*ssa.MakeClosure); ok {
		core, _ = mc.Fn.(*ssa.Function)
		coreOK = core != nil
	} else if ct, ok := buildCall.Call.Args[len(buildCall.Call.Args)-1].(*ssa.ChangeType); ok {
		if mc, ok := ct.X.(*ssa.MakeClosure); ok {
			core, _ = mc.Fn.(*ssa.Function)
			coreOK = core != nil
		}
	}
	if !coreOK {
		// the closure may be made by a helper called for this request (h.coreHandlerFor(session)): every result of the
		// helper is a closure created in it
		if kc, ok := ir.Unwrap(buildCall.Call.Args[len(buildCall.Call.Args)-1]).(*ssa.Call); ok {
			if k := ir.StaticCallee(kc); k != nil && c.P.IsLib(k) && k.Blocks != nil {
				all, any := true, false
				for _, blk := range k.Blocks {
					ret, ok := blk.Instrs[len(blk.Instrs)-1].(*ssa.Return)
					if !ok || blk == k.Recover || len(ret.Results) != 1 {
						continue
					}
					any = true
					rv := ir.Results(ret)[0]
					if ct, ok := rv.(*ssa.ChangeType); ok {
						rv = ct.X
					}
					if mc, ok := rv.(*ssa.MakeClosure); ok {
						core, _ = mc.Fn.(*ssa.Function)
					} else {
						all = false
					}
				}
				coreOK = any && all && core != nil
			}
		}
	}
	c.R.Check(coreOK, "R-once-through", en+": per-request core handler", c.Pos(buildCall.Pos()), "the chain wraps a closure created for this request",
		sprintf("%s builds the chain around something other than a closure created for this request", en))

	// dispatcher: function with comma-ok lookup in a map of funcs keyed by the request's method
	var dispatcher *ssa.Function
	var dispCands []*ssa.Function
	for _, rl := range c.routeLookups() {
		dispCands = append(dispCands, rl.fn)
	}
	// the one the middleware entry reaches (other transports may have a routing table of their own)
	entryReach := c.Reach(entry)
	for _, d := range dispCands {
		if entryReach[d] {
			dispatcher = d
		}
	}
	if dispatcher == nil {
		c.R.Break("dispatcher (comma-ok lookup of the request method in a table of handler funcs) not found")
		return
	}
	var dcalls []*ssa.Call
	scope := []*ssa.Function{entry}
	if core != nil {
		scope = append(scope, core)
	}
	for _, fn := range scope {
		ir.EachInstr(fn, func(_ *ssa.BasicBlock, _ int, in ssa.Instruction) {
			if call, ok := in.(*ssa.Call); ok && ir.StaticCallee(call) == dispatcher {
				dcalls = append(dcalls, call)
			}
		})
	}
	disjoint := len(dcalls) >= 2
	for i := range dcalls {
		if flow.InCycle(dcalls[i].Block()) {
			disjoint = false
		}
		for j := range dcalls {
			if i != j && dcalls[i].Parent() == dcalls[j].Parent() && flow.Reaches(dcalls[i], dcalls[j]) {
				disjoint = false
			}
		}
	}
	c.R.Check(disjoint, "R-once-through", en+": dispatcher called once per path", c.Pos(entry.Pos()), sprintf("%d dispatcher call sites, pairwise unreachable", len(dcalls)),
		"two dispatcher calls lie on one path (or one is in a loop): the method handler would run twice for one request")
	// the no-middleware path calls the dispatcher directly and is disjoint from the chain path
	if len(chainCalls) == 1 {
		mixed := false
		for _, d := range dcalls {
			if d.Parent() == entry && (flow.Reaches(chainCalls[0], d) || flow.Reaches(d, chainCalls[0])) {
				mixed = true
			}
		}
		c.R.Check(!mixed, "R-once-through", en+": chain path and direct path are exclusive", c.Pos(entry.Pos()), "either the chain or the direct dispatch runs", "a request can pass both the chain and a direct dispatch")
	}
	c.R.Min("R-once-through", 4)

	// ---- R-own-request
	if core != nil {
		for _, d := range dcalls {
			if d.Parent() != core {
				continue
			}
			okArgs := true
			for _, a := range d.Call.Args {
				ts := ir.TypeStr(a.Type())
				if ts == "context.Context" || ts == "*mcp.JSONRPCRequest" {
					if _, isParam := a.(*ssa.Parameter); !isParam {
						okArgs = false
					}
				}
			}
			c.R.Check(okArgs, "R-own-request", "core handler dispatch in "+fname(core), c.Pos(d.Pos()), "dispatches the ctx and request it was called with",
				sprintf("the core handler %s dispatches a context/request captured from the enclosing function instead of its own parameters: what an outer middleware passed on is ignored", fname(core)))
		}
		c.R.Min("R-own-request", 1)
	}

	// ---- R-no-bypass
	targets := map[*ssa.Function]bool{}
	for _, es := range c.MapLiteralDispatch() {
		for _, e := range es {
			targets[e.Target] = true
		}
	}
	if len(targets) < 8 {
		c.R.Break("dispatch table targets not discovered (%d)", len(targets))
	}
	for _, T := range []string{"httpServerHandler", "SSEServer"} {
		sh := c.P.Method(c.P.RootNamed(T), "ServeHTTP")
		if sh == nil {
			// fall back: any ServeHTTP
			continue
		}
		// reachability avoiding the entry and its closures
		avoid := map[*ssa.Function]bool{}
		for _, f := range ir.WithClosures(entry) {
			avoid[f] = true
		}
		seen := map[*ssa.Function]bool{sh: true}
		stack := []*ssa.Function{sh}
		bypass := ""
		for len(stack) > 0 && bypass == "" {
			f := stack[len(stack)-1]
			stack = stack[:len(stack)-1]
			n := c.G.Nodes[f]
			if n == nil {
				continue
			}
			for _, e := range n.Out {
				cal := e.Callee.Func
				if avoid[cal] || seen[cal] {
					continue
				}
				seen[cal] = true
				if targets[cal] || cal == dispatcher {
					bypass = fname(f) + " -> " + fname(cal)
					break
				}
				if c.P.IsLib(cal) {
					stack = append(stack, cal)
				}
			}
		}
		c.R.Check(bypass == "", "R-no-bypass", "requests of "+fname(sh), c.Pos(sh.Pos()), "method handlers are reachable only through "+en,
			sprintf("%s reaches a method handler without passing the middleware chain: %s", fname(sh), bypass))
	}
	// notification path: functions implementing handleNotification never read the middleware slice
	reqH := c.dispatcherIface()
	if reqH != nil {
		for _, T := range c.P.Implementers(reqH.Underlying().(*types.Interface)) {
			hn := c.P.Method(T, ifaceMethodTaking(reqH.Underlying().(*types.Interface), "*mcp.JSONRPCNotification"))
			if hn == nil {
				continue
			}
			touches := ""
			for f := range c.ReachSync(hn) {
				ir.EachInstr(f, func(_ *ssa.BasicBlock, _ int, in ssa.Instruction) {
					if fa, ok := in.(*ssa.FieldAddr); ok {
						if key, _, typ, _ := ir.FullField(fa); key != "" && isMwSlice(typ) {
							touches = fname(f)
						}
					}
				})
			}
			c.R.Check(touches == "", "R-no-bypass", "notifications of "+ir.TypeKey(T), c.Pos(hn.Pos()), "the notification path never touches the middleware chain",
				sprintf("the notification path runs middlewares (%s)", touches))
		}
	}
	c.R.Min("R-no-bypass", 3)

	// ---- R-result-identity
	respT := c.P.RootNamed("JSONRPCResponse")
	nRes := 0
	belowEntry := c.Reach(entry)
	callsEntry := func(fn *ssa.Function) bool {
		found := false
		ir.EachCall(fn, func(call ssa.CallInstruction) {
			for _, cal := range ir.Callees(c.G, call) {
				if cal == entry {
					found = true
				}
			}
		})
		return found
	}
	var applicable func(fn *ssa.Function, v ssa.Value, d int) bool
	applicable = func(fn *ssa.Function, v ssa.Value, d int) bool {
		if callsEntry(fn) {
			return true
		}
		p, ok := ir.Unwrap(v).(*ssa.Parameter)
		if !ok || d > 3 {
			return false
		}
		idx := -1
		for i, q := range fn.Params {
			if q == p {
				idx = i
			}
		}
		for _, e := range ir.Callers(c.G, fn) {
			if e.Site == nil || !c.P.IsLib(e.Caller.Func) || idx < 0 || idx >= len(e.Site.Common().Args) {
				continue
			}
			if applicable(e.Caller.Func, e.Site.Common().Args[idx], d+1) {
				return true
			}
		}
		return false
	}
	for _, fn := range c.P.LibFns {
		// transport-level code only: not the client half, and not code the request entry itself reaches (managers
		// and the response constructors they use build results, they do not forward the entry's)
		if clientSide(c, fn) || belowEntry[fn] {
			continue
		}
		ir.EachInstr(fn, func(_ *ssa.BasicBlock, _ int, in ssa.Instruction) {
			st, ok := in.(*ssa.Store)
			if !ok {
				return
			}
			f, _, ok := ir.FieldOf(st.Addr)
			if !ok || f.Struct != respT || f.Name != "Result" {
				return
			}
			nRes++
			okID := false
			// the stored value is the #0 result of a call that reaches the entry, or a parameter fed with one
			var fromEntry func(fn *ssa.Function, v ssa.Value, d int) bool
			fromEntry = func(fn *ssa.Function, v ssa.Value, d int) bool {
				if d > 3 {
					return false
				}
				switch x := ir.Unwrap(v).(type) {
				case *ssa.Extract:
					if call, ok := x.Tuple.(*ssa.Call); ok && x.Index == 0 {
						for _, cal := range ir.Callees(c.G, call) {
							if cal == entry {
								return true
							}
						}
					}
				case *ssa.Parameter:
					idx := -1
					for i, p := range fn.Params {
						if p == x {
							idx = i
						}
					}
					all := false
					for _, e := range ir.Callers(c.G, fn) {
						if e.Site == nil || !c.P.IsLib(e.Caller.Func) || idx >= len(e.Site.Common().Args) {
							continue
						}
						if !applicable(e.Caller.Func, e.Site.Common().Args[idx], d+1) {
							continue
						}
						if !fromEntry(e.Caller.Func, e.Site.Common().Args[idx], d+1) {
							return false
						}
						all = true
					}
					return all
				}
				return false
			}
			if !applicable(fn, st.Val, 0) {
				nRes--
				return // this function does not forward the request entry's result (it builds its own answer)
			}
			okID = fromEntry(fn, st.Val, 0)
			c.R.Check(okID, "R-result-identity", "response result in "+fname(fn), c.Pos(st.Pos()), "the response's result is the value the request entry returned",
				sprintf("%s puts something other than the value returned by %s into the response's result", fname(fn), en))
		})
	}
	c.R.Min("R-result-identity", 3)
	dispatchOwnContext(c, "R-own-context")
	c15SessionInContext(c)
	c15IDPresence(c)
	dispatchUngated(c, "R-dispatch-ungated")
	c15ErrorWhole(c)
	{
		// every request passes the chain with the values the HTTP context functions derived for it
		var entries []*ssa.Function
		for _, e := range serverEntries(c) {
			if strings.HasSuffix(fname(e), "ServeHTTP") {
				entries = append(entries, e)
			}
		}
		c13CtxFuncApplied(c, c.Reach(entries...))
	}
	c05LoopCapture(c, "R-loop-capture") // each registered middleware is the one that runs: wrappers made in a loop do not share the loop variable
	c15ResultPrivate(c, "R-result-private")

	// ---- R-error-internal: "a middleware error becomes a JSON-RPC internal error for that request": wherever a
	// transport calls the request entry, every path that leaves the err != nil edge builds an answer with code -32603.
	var internalErr func(call ssa.CallInstruction, d int) bool
	internalErr = func(call ssa.CallInstruction, d int) bool {
		for _, a := range call.Common().Args {
			if n, ok := ir.ConstInt(a); ok && n == -32603 {
				return true
			}
		}
		if d >= 4 {
			return false
		}
		sc := ir.StaticCallee(call)
		if sc == nil || !c.P.IsLib(sc) {
			return false
		}
		found := false
		ir.EachCall(sc, func(in ssa.CallInstruction) {
			if _, isGo := in.(*ssa.Go); !isGo && internalErr(in, d+1) {
				found = true
			}
		})
		ir.EachInstr(sc, func(_ *ssa.BasicBlock, _ int, in ssa.Instruction) {
			if st, ok := in.(*ssa.Store); ok {
				if n, ok := ir.ConstInt(st.Val); ok && n == -32603 {
					found = true // the code written into an error object built in place
				}
			}
		})
		return found
	}
	// functions that remove an entry from a table of a server-lifetime object (session table, stream table)
	sessionRemovers := map[*ssa.Function]string{}
	for _, a := range CollectAccesses(c) {
		if a.Kind == "map-delete" && !a.Local && !a.Init && !clientSide(c, a.Fn) {
			sessionRemovers[a.Fn] = a.Field
		}
	}
	for _, fn := range c.P.LibFns {
		if clientSide(c, fn) || belowEntry[fn] {
			continue
		}
		nSite := 0
		ir.EachInstr(fn, func(_ *ssa.BasicBlock, _ int, in ssa.Instruction) {
			call, ok := in.(*ssa.Call)
			if !ok || call.Referrers() == nil {
				return
			}
			isEntry := false
			for _, cal := range ir.Callees(c.G, call) {
				if cal == entry {
					isEntry = true
				}
			}
			if !isEntry {
				return
			}
			var errv ssa.Value
			for _, r := range *call.Referrers() {
				if ex, ok := r.(*ssa.Extract); ok && ex.Index == 1 {
					errv = ex
				}
			}
			if errv == nil {
				return
			}
			nSite++
			construct := sprintf("error of the request entry in %s#%d", fname(fn), nSite)
			// verdict for one function and the value that is the entry's error there: "" = every path from its
			// non-nil edge builds the answer; the test may sit in a helper the error is handed to
			var resv ssa.Value
			for _, r := range *call.Referrers() {
				if ex, ok := r.(*ssa.Extract); ok && ex.Index == 0 {
					resv = ex
				}
			}
			var judge func(f *ssa.Function, ev ssa.Value, d int) string
			judge = func(f *ssa.Function, ev ssa.Value, d int) string {
				var failEdge *ssa.BasicBlock
				for _, b := range f.Blocks {
					if len(b.Instrs) == 0 {
						continue
					}
					ifi, ok := b.Instrs[len(b.Instrs)-1].(*ssa.If)
					if !ok {
						continue
					}
					bin, ok := ifi.Cond.(*ssa.BinOp)
					if !ok || !(bin.X == ev && ir.IsNilConst(bin.Y) || bin.Y == ev && ir.IsNilConst(bin.X)) {
						continue
					}
					if bin.Op == token.NEQ {
						failEdge = b.Succs[0]
					} else if bin.Op == token.EQL {
						failEdge = b.Succs[1]
					}
				}
				if failEdge == nil {
					if d < 2 && ev.Referrers() != nil {
						for _, r := range *ev.Referrers() {
							hc, ok := r.(*ssa.Call)
							if !ok {
								continue
							}
							sc := ir.StaticCallee(hc)
							if sc == nil || !c.P.IsLib(sc) {
								continue
							}
							for i, a := range hc.Call.Args {
								if a == ev && i < len(sc.Params) {
									// the helper is handed the result as well: it must look at the error first
									for j, a2 := range hc.Call.Args {
										if resv != nil && a2 == resv && j < len(sc.Params) {
											if why := errorFirst(c, sc, sc.Params[i], sc.Params[j], en); why != "" {
												return why
											}
										}
									}
									return judge(sc, sc.Params[i], d+1)
								}
							}
						}
					}
					return sprintf("%s never tests the error returned by %s: a failing middleware gets no internal-error answer", fname(f), en)
				}
				// "for that request only": what runs only because the entry failed ends nothing that belongs to the
				// session as a whole (the session itself, its listening stream): the other requests of the session
				// still pass the chain
				{
					var okEdge *ssa.BasicBlock
					for _, b := range f.Blocks {
						for i, sct := range b.Succs {
							if sct == failEdge && len(b.Succs) == 2 {
								okEdge = b.Succs[1-i]
							}
						}
					}
					onlyOnError := flow.BlocksReachableAvoiding(failEdge, nil)
					if okEdge != nil {
						for b := range flow.BlocksReachableAvoiding(okEdge, nil) {
							delete(onlyOnError, b)
						}
					}
					for b := range onlyOnError {
						for _, in2 := range b.Instrs {
							ci, ok := in2.(ssa.CallInstruction)
							if !ok {
								continue
							}
							for _, cal := range ir.Callees(c.G, ci) {
								if !c.P.IsLib(cal) {
									continue
								}
								for g := range c.ReachSync(cal) {
									if sessionRemovers[g] != "" {
										c.R.Violate("R-error-internal", sprintf("failure of the request entry in %s ends session state", fname(f)), c.Pos(ci.Pos()),
											sprintf("on the err != nil edge of the request entry %s calls %s, which removes an entry of %s: the failure of one request (a middleware error) ends the session or its stream, and every other request of that session is refused before it reaches the chain — the error is not confined to its request", fname(f), fname(cal), sessionRemovers[g]))
									}
								}
							}
						}
					}
				}
				builders := map[*ssa.BasicBlock]bool{}
				for _, b := range f.Blocks {
					for _, in2 := range b.Instrs {
						if ci, ok := in2.(ssa.CallInstruction); ok {
							if _, isGo := ci.(*ssa.Go); !isGo && internalErr(ci, 0) {
								builders[b] = true
							}
						}
						if st, ok := in2.(*ssa.Store); ok {
							if n, ok := ir.ConstInt(st.Val); ok && n == -32603 {
								builders[b] = true
							}
						}
					}
				}
				if builders[failEdge] {
					return ""
				}
				for b := range flow.BlocksReachableAvoiding(failEdge, builders) {
					if len(b.Succs) == 0 {
						return sprintf("%s can leave the err != nil edge of the error returned by %s without building an internal-error (-32603) answer: a middleware error of that kind is not answered as a JSON-RPC internal error", fname(f), en)
					}
				}
				return ""
			}
			why := judge(fn, errv, 0)
			c.R.Check(why == "", "R-error-internal", construct, c.Pos(call.Pos()), "every path from the err != nil edge builds a -32603 answer", why)
		})
	}
	c.R.Min("R-error-internal", 3)
}

func isMinusOne(v ssa.Value) bool { n, ok := ir.ConstInt(v); return ok && n == -1 }

// ---------------------------------------------------------------- R-session-in-context
// "With the request's own context and session": a middleware reads the session out of the context it is handed, with
// the exported accessors (GetSessionFromContext everywhere; ClientSessionFromContext, the accessor documented on
// HandlerFunc, on the legacy SSE server). That works only if every context a server hands to the dispatcher descends
// from a call that puts the session under the key that accessor reads. The accessors and their keys are read from the
// code; which accessor works on which transport today is the reference table below (more is fine, less is not).
var sessionAccessorTable = []struct {
	accessor string // exported accessor
	server   string // exported server type whose ServeHTTP reaches the dispatch ("" = every server-side dispatch)
}{
	{"GetSessionFromContext", ""},
	{"ClientSessionFromContext", "SSEServer"},
	// the server handle: on the legacy SSE server every callback (middlewares, list filters, prompt and resource
	// handlers, notification handlers) finds it in its context, not only tool handlers
	{"GetServerFromContext", "SSEServer"},
}

func c15SessionInContext(c *Ctx) {
	n := 0
	for _, row := range sessionAccessorTable {
		// the key the accessor reads
		var keyT types.Type
		var acc *ssa.Function
		for _, fn := range c.P.LibFns {
			if fn.Name() == row.accessor && fn.Signature.Recv() == nil && fn.Pkg != nil && fn.Pkg.Pkg.Path() == ir.RootPath {
				acc = fn
			}
		}
		if acc == nil {
			c.R.Break("R-session-in-context: exported accessor %s not found", row.accessor)
			continue
		}
		ir.EachInstr(acc, func(_ *ssa.BasicBlock, _ int, in ssa.Instruction) {
			if call, ok := in.(*ssa.Call); ok && ir.CallName(call) == "(context.Context).Value" && len(call.Call.Args) == 1 {
				if mi, ok := call.Call.Args[0].(*ssa.MakeInterface); ok {
					keyT = mi.X.Type()
				}
			}
		})
		if keyT == nil {
			c.R.Break("R-session-in-context: cannot read the context key %s looks up", row.accessor)
			continue
		}
		// injectors: functions returning a context that put a value under that key (directly, or by calling one that does)
		inj := map[*ssa.Function]bool{}
		for _, fn := range c.P.LibFns {
			ir.EachInstr(fn, func(_ *ssa.BasicBlock, _ int, in ssa.Instruction) {
				if call, ok := in.(*ssa.Call); ok && ir.CallName(call) == "context.WithValue" && len(call.Call.Args) == 3 {
					if mi, ok := call.Call.Args[1].(*ssa.MakeInterface); ok && types.Identical(mi.X.Type(), keyT) {
						inj[fn] = true
					}
				}
			})
		}
		directWithValue := func(call *ssa.Call) bool {
			if ir.CallName(call) != "context.WithValue" || len(call.Call.Args) != 3 {
				return false
			}
			mi, ok := call.Call.Args[1].(*ssa.MakeInterface)
			return ok && types.Identical(mi.X.Type(), keyT)
		}
		returnsCtx := func(fn *ssa.Function) bool {
			r := fn.Signature.Results()
			return r.Len() >= 1 && ir.TypeStr(r.At(0).Type()) == "context.Context"
		}
		for fn := range inj {
			if !returnsCtx(fn) {
				delete(inj, fn)
			}
		}
		if len(inj) == 0 {
			c.R.Break("R-session-in-context: no function puts a value under the key %s reads", row.accessor)
			continue
		}
		w := &ctxWalker{c: c, cond: true}
		w.pass = func(call *ssa.Call) bool {
			if directWithValue(call) {
				return true
			}
			sc := ir.StaticCallee(call)
			if sc == nil {
				return false
			}
			if inj[sc] {
				return true
			}
			// a library helper that derives the context it returns through an injector
			if !c.P.IsLib(sc) || !returnsCtx(sc) || sc.Blocks == nil {
				return false
			}
			all, any, injects := true, false, false
			for _, b := range sc.Blocks {
				ret, ok := b.Instrs[len(b.Instrs)-1].(*ssa.Return)
				if !ok || b == sc.Recover {
					continue
				}
				any = true
				inner := &ctxWalker{c: c, pass: func(c2 *ssa.Call) bool {
					if directWithValue(c2) {
						return true
					}
					s2 := ir.StaticCallee(c2)
					return s2 != nil && inj[s2]
				}}
				// inside the helper, the helper's own parameter is "not yet injected"; handing it back untouched is the
				// "no session, nothing to inject" exit (like `if session != nil { ctx = inject(ctx, session) }` inline)
				rv := ir.Results(ret)[0]
				if _, isParam := unspill(rv).(*ssa.Parameter); isParam {
					continue
				}
				if ok, _ := inner.descendsLocal(sc, rv, 0, map[ctxKey]bool{}); !ok {
					all = false
				} else {
					injects = true
				}
			}
			return any && all && injects
		}
		var scope map[*ssa.Function]bool
		if row.server != "" {
			var roots []*ssa.Function
			for _, fn := range c.P.LibFns {
				if fn.Name() == "ServeHTTP" && fn.Signature.Recv() != nil && strings.HasSuffix(ir.TypeStr(fn.Signature.Recv().Type()), "."+row.server) {
					roots = append(roots, fn)
				}
			}
			if len(roots) == 0 {
				c.R.Break("R-session-in-context: no ServeHTTP of %s", row.server)
				continue
			}
			scope = c.Reach(roots...)
			w.scope = scope
		}
		for _, fn := range c.P.LibFns {
			if clientSide(c, fn) || (scope != nil && !scope[fn]) {
				continue
			}
			ir.EachInstr(fn, func(_ *ssa.BasicBlock, _ int, in ssa.Instruction) {
				call, ok := in.(ssa.CallInstruction)
				if !ok || !c.isDispatchCall(call) {
					return
				}
				for _, a := range call.Common().Args {
					if ir.TypeStr(a.Type()) != "context.Context" {
						continue
					}
					n++
					ok, why := w.descends(fn, a, 0, map[ctxKey]bool{})
					c.R.Check(ok, "R-session-in-context", sprintf("%s readable in the context dispatched by %s", row.accessor, fname(fn)), c.Pos(call.Pos()),
						"the context descends from a call that stores the value under the key the accessor reads",
						sprintf("%s hands the dispatcher a context that descends from %s without anything having been put under the key %s reads: every middleware, filter and handler of these requests gets nothing from that accessor", fname(fn), why, row.accessor))
				}
			})
		}
	}
	c.R.Min("R-session-in-context", 4)
	if n == 0 {
		c.R.Break("R-session-in-context: no dispatch site examined")
	}
}

// ---------------------------------------------------------------- R-id-presence
// Whether an incoming message is a request — answered, and passed through the chain — or a notification is decided by
// the PRESENCE of its id: 0 and "" are ids like any other. On the server side every condition that depends on the id
// member of a decoded message (a struct member tagged json:"id" of interface type) must therefore be the comparison of
// that member with nil. A predicate computed from the id's value (a zero-value test, a length, a conversion) cannot
// tell an absent id from a falsy one and routes such requests past the handler chain.
func c15IDPresence(c *Ctx) {
	isIDLoad := func(v ssa.Value) bool {
		var st *types.Struct
		var idx int
		switch x := v.(type) {
		case *ssa.UnOp:
			fa, ok := x.X.(*ssa.FieldAddr)
			if !ok || x.Op != token.MUL {
				return false
			}
			pt, ok := fa.X.Type().Underlying().(*types.Pointer)
			if !ok {
				return false
			}
			st, _ = pt.Elem().Underlying().(*types.Struct)
			idx = fa.Field
		case *ssa.Field:
			st, _ = x.X.Type().Underlying().(*types.Struct)
			idx = x.Field
		default:
			return false
		}
		if st == nil || !types.IsInterface(st.Field(idx).Type()) {
			return false
		}
		name := strings.Split(reflect.StructTag(st.Tag(idx)).Get("json"), ",")[0]
		return name == "id"
	}
	isNilCmp := func(b *ssa.BinOp, v ssa.Value) bool {
		if b.Op != token.EQL && b.Op != token.NEQ {
			return false
		}
		other := b.Y
		if b.Y == v {
			other = b.X
		}
		k, ok := other.(*ssa.Const)
		return ok && k.IsNil()
	}
	nLoads, nCond := 0, 0
	for _, fn := range c.P.LibFns {
		if !serverSide(c, fn) {
			continue
		}
		ir.EachInstr(fn, func(_ *ssa.BasicBlock, _ int, in ssa.Instruction) {
			v, ok := in.(ssa.Value)
			if !ok || !isIDLoad(v) {
				return
			}
			nLoads++
			// forward slice of values computed from the id
			seen := map[ssa.Value]bool{}
			var visit func(x ssa.Value, computed bool, d int)
			visit = func(x ssa.Value, computed bool, d int) {
				if x.Referrers() == nil || d > 8 || seen[x] {
					return
				}
				seen[x] = true
				for _, r := range *x.Referrers() {
					switch y := r.(type) {
					case *ssa.BinOp:
						if !computed && isNilCmp(y, x) {
							nCond++
							continue // presence test
						}
						visit(y, true, d+1)
					case *ssa.UnOp:
						if y.Op == token.NOT || y.Op == token.SUB {
							visit(y, computed, d+1)
						}
					case *ssa.Phi:
						if _, isBool := y.Type().Underlying().(*types.Basic); isBool && computed {
							visit(y, computed, d+1)
						}
					case *ssa.MakeInterface:
						visit(y, computed, d+1)
					case *ssa.ChangeInterface:
						visit(y, computed, d+1)
					case *ssa.ChangeType:
						visit(y, computed, d+1)
					case *ssa.TypeAssert:
						visit(y, true, d+1)
					case *ssa.Extract:
						visit(y, computed, d+1)
					case *ssa.Call:
						// a value computed from the id by a function: only boolean / numeric / string results can become a test
						isArg := false
						for _, a := range y.Call.Args {
							if a == x {
								isArg = true
							}
						}
						if !isArg {
							continue
						}
						if b, ok := y.Type().Underlying().(*types.Basic); ok && b.Info()&types.IsBoolean != 0 {
							visit(y, true, d+1)
						}
					case *ssa.If:
						if computed {
							c.R.Violate("R-id-presence", sprintf("test computed from the id in %s", fname(fn)), c.Pos(v.Pos()),
								sprintf("%s branches on a value computed from the id of a decoded message instead of on the id's presence (comparison with nil): an id such as 0 or \"\" is taken for absent, the request is treated as a notification, never reaches the handler chain and gets no answer", fname(fn)))
						}
					case *ssa.Return:
						if b, ok := x.Type().Underlying().(*types.Basic); ok && b.Info()&types.IsBoolean != 0 && computed {
							c.R.Violate("R-id-presence", sprintf("predicate computed from the id in %s", fname(fn)), c.Pos(v.Pos()),
								sprintf("%s returns a predicate computed from the id of a decoded message (not just its comparison with nil): an id such as 0 or \"\" cannot be told from an absent one, so such requests are classified as notifications and bypass the handler chain", fname(fn)))
						}
					}
				}
			}
			visit(v, false, 0)
		})
	}
	if nLoads < 6 || nCond < 2 { // (a classification helper may concentrate the presence tests in one place)
		c.R.Break("R-id-presence: only %d loads of an id member and %d presence tests found on the server side", nLoads, nCond)
	}
	c.R.Hold("R-id-presence", "id members of decoded messages on the server side", "", sprintf("%d loads examined, %d presence tests (comparison with nil), no test computed from the id's value", nLoads, nCond))
}

// ---------------------------------------------------------------- R-result-private
// A middleware's after-stage may modify the result it is handed ("modify-result"); that is applied exactly once only
// if the method handler's result is a value made for this request. A slice-typed member of a *…Result a handler builds
// must therefore not be a slice that lives in a member of a long-lived object (a cached snapshot handed out again and
// again): what one request's middleware writes into it is there for the next request, on top of which it is applied
// again (and leaks between sessions).
func c15ResultPrivate(c *Ctx, rule string) {
	var shared func(fn *ssa.Function, v ssa.Value, d int, seen map[ssa.Value]bool) string
	shared = func(fn *ssa.Function, v ssa.Value, d int, seen map[ssa.Value]bool) string {
		if v == nil || d > 6 || seen[v] {
			return ""
		}
		seen[v] = true
		switch x := v.(type) {
		case *ssa.UnOp:
			if x.Op != token.MUL {
				return ""
			}
			if u := unspill(x); u != ssa.Value(x) {
				return shared(fn, u, d+1, seen)
			}
			if fa, ok := x.X.(*ssa.FieldAddr); ok {
				key, _, _, base := ir.FullField(fa)
				if key != "" && !ir.BaseAlloc(base) {
					owner := ir.FullFieldOwner(fa)
					if owner != nil && ir.InLibrary(owner) && concurrentStruct(owner) {
						return key
					}
				}
			}
		case *ssa.Slice:
			return shared(fn, x.X, d+1, seen)
		case *ssa.Phi:
			for _, e := range x.Edges {
				if k := shared(fn, e, d+1, seen); k != "" {
					return k
				}
			}
		case *ssa.Extract:
			return shared(fn, x.Tuple, d+1, seen)
		case *ssa.Call:
			sc := ir.StaticCallee(x)
			if sc == nil || !c.P.IsLib(sc) || sc.Blocks == nil {
				return ""
			}
			for _, b := range sc.Blocks {
				if ret, ok := b.Instrs[len(b.Instrs)-1].(*ssa.Return); ok && b != sc.Recover && len(ret.Results) > 0 {
					if k := shared(sc, ir.Results(ret)[0], d+1, seen); k != "" {
						return k
					}
				}
			}
		}
		return ""
	}
	n := 0
	for _, fn := range c.P.LibFns {
		if clientSide(c, fn) {
			continue
		}
		ir.EachInstr(fn, func(_ *ssa.BasicBlock, _ int, in ssa.Instruction) {
			st, ok := in.(*ssa.Store)
			if !ok {
				return
			}
			fa, ok := st.Addr.(*ssa.FieldAddr)
			if !ok {
				return
			}
			f, base, ok := ir.FieldOf(fa)
			if !ok || f.Struct == nil || !strings.HasSuffix(f.Struct.Obj().Name(), "Result") || !ir.InLibrary(f.Struct) {
				return
			}
			if _, isSlice := f.Type.Underlying().(*types.Slice); !isSlice {
				return
			}
			if !ir.BaseAlloc(base) {
				return
			}
			n++
			k := shared(fn, st.Val, 0, map[ssa.Value]bool{})
			c.R.Check(k == "", rule, sprintf("%s of the result built in %s", f.Key(), fname(fn)), c.Pos(st.Pos()), "a slice made for this request",
				sprintf("%s puts into %s the slice kept in %s, a member of a long-lived object: every request is answered with the same backing array, so what a result-modifying middleware writes into one answer is still there for the next request (and is applied on top again), across sessions", fname(fn), f.Key(), k))
		})
	}
	if n < 3 {
		c.R.Break("%s: only %d slice members of handler results are filled in", rule, n)
	}
}


// errorFirst: in f, which is handed the request entry's result rv and error ev, every look at the result (a type
// assertion / type switch on it) happens after the error has been tested: the test of ev dominates it. A result that is
// inspected first wins over the error — a middleware that fails after an inner stage produced a JSON-RPC error is then
// answered with the inner error instead of the internal error its own failure calls for.
func errorFirst(c *Ctx, f *ssa.Function, ev, rv ssa.Value, en string) string {
	var test *ssa.If
	for _, b := range f.Blocks {
		if len(b.Instrs) == 0 {
			continue
		}
		if ifi, ok := b.Instrs[len(b.Instrs)-1].(*ssa.If); ok {
			if v, _, ok := nilCompare(ifi.Cond); ok && v == ev {
				test = ifi
			}
		}
	}
	if test == nil || rv.Referrers() == nil {
		return ""
	}
	for _, r := range *rv.Referrers() {
		ta, ok := r.(*ssa.TypeAssert)
		if !ok {
			continue
		}
		if !flow.Dominates(test, ta) {
			return sprintf("%s looks at the result of %s (a type assertion at %s) before it has tested the error returned with it: when a middleware fails after an inner stage produced a JSON-RPC error, the client receives that inner error instead of the internal error (-32603) the failure calls for", fname(f), en, c.Pos(ta.Pos()))
		}
	}
	return ""
}
