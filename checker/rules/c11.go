package rules

import (
	"go/token"
	"go/types"
	"strings"

	"golang.org/x/tools/go/ssa"

	"verif/checker/flow"
	"verif/checker/ir"
)

// C11 — a newer listening stream owns the session; an old one's exit never evicts it.
//
// The listening-stream table is discovered as the map field whose values are pointers to a
// record holding a context.CancelFunc (one open stream per key).
//
//	R-remove-self-only  in the function that registers a fresh record in the table and later removes
//	                    it (the stream's own tear-down), the delete is reachable only through the true
//	                    edge of an identity comparison "table[key] == this record", evaluated in the
//	                    same critical section as the delete
//	R-replace-atomic    looking up the old record, cancelling it and storing the new one happen in one
//	                    critical section of the table lock, and the old record IS cancelled
//	R-table-locked      every access to the table holds the table's lock (writes exclusively)
//	R-foreign-delete    any other function that deletes from the table cancels the record it removes
//	                    (session termination), and never deletes on a mere write failure of a stream
//	R-table-lock-free-write  no write to a session's stream happens while the table's lock is held
//	R-register-first    the registering handler sends to the session only after its own record is in the table
//	R-ends-on-cancel    after registering, the handler waits on the Done() of the context its record's cancel function cancels
//	R-slot-owner        (client) a stream goroutine touches the shared stream slot only while it still owns it
func init() { Registry["C11"] = checkC11 }

func isCancelFunc(t types.Type) bool {
	s := ir.TypeStr(t)
	return s == "context.CancelFunc" || s == "context.CancelCauseFunc"
}

func checkC11(c *Ctx) {
	c.R.Explanation = "Static typestate/lockset check of the listening-stream table (discovered: map field whose values point to a record with a context.CancelFunc): " +
		"the registering handler removes only itself (delete guarded by an identity comparison inside the same critical section), replacement (cancel old + store new) is one critical section, " +
		"all table accesses are locked, and other deleters cancel what they remove."
	c.R.NotDecided = "the timing clause 'from the moment the new stream's response headers have been received'; delivery over a real network"
	c.R.Assumptions = []string{"type-level lock identity", "context.CancelFunc cancels the stream's context and thereby ends its handler"}
	accs := CollectAccesses(c)
	// discover the table
	table := ""
	var tableOwner *types.Named
	for _, a := range accs {
		m, ok := a.Type.Underlying().(*types.Map)
		if !ok {
			continue
		}
		pt, ok := m.Elem().(*types.Pointer)
		if !ok {
			continue
		}
		st, ok := pt.Elem().Underlying().(*types.Struct)
		if !ok {
			continue
		}
		for i := 0; i < st.NumFields(); i++ {
			if isCancelFunc(st.Field(i).Type()) {
				if table != "" && table != a.Field {
					c.R.Break("more than one stream table candidate: %s and %s", table, a.Field)
				}
				table, tableOwner = a.Field, a.OwnerT
			}
		}
	}
	if table == "" {
		// a table that keeps SEVERAL stream records per key (a slice of them) is not a restructuring of "one listening
		// stream per session" but its negation: whatever is sent to the session is then written once per stream
		for _, a := range accs {
			m, ok := a.Type.Underlying().(*types.Map)
			if !ok {
				continue
			}
			sl, ok := m.Elem().Underlying().(*types.Slice)
			if !ok {
				continue
			}
			pt, ok := sl.Elem().(*types.Pointer)
			if !ok {
				continue
			}
			st, ok := pt.Elem().Underlying().(*types.Struct)
			if !ok {
				continue
			}
			for i := 0; i < st.NumFields(); i++ {
				if isCancelFunc(st.Field(i).Type()) {
					c.R.Violate("R-one-stream-per-session", "shape of "+a.Field, c.Pos(a.Pos),
						sprintf("%s maps a session to a LIST of stream records: a newer listening stream no longer replaces the older one, so a notification or server request addressed to the session is written to each of its streams — delivered more than once — and the older stream is never told to end", a.Field))
					return
				}
			}
		}
		c.R.Break("anchor not found: map field whose values point to a record with a context.CancelFunc (listening-stream table)")
		return
	}
	c.R.Hold("R-one-stream-per-session", "shape of "+table, "", "the table maps a session to one stream record")
	c.R.Extra["stream_table"] = table
	_ = tableOwner

	// R-table-locked
	guards := GuardTable(c, accs)
	guard := ""
	for _, g := range guards {
		if g.Field != table {
			continue
		}
		guard = g.Guard
		cons := accessConstructs(g)
		for i, a := range g.Accesses {
			ok := guard != "" && a.Locks.Has(guard) && (!a.Write || a.Locks.HasWrite(guard))
			c.R.Check(ok, "R-table-locked", cons[i], c.Pos(a.Pos), "holds "+guard,
				sprintf("%s (%s) of the stream table in %s without holding %s appropriately (held: [%s])", a.Kind, kindClass(a), fname(a.Fn), guard, strings.Join(a.Locks.Keys(), ",")))
		}
	}
	c.R.Min("R-table-locked", 6)
	if guard == "" {
		c.R.Break("no lock inferred for stream table %s", table)
		return
	}

	// R-table-lock-free-write: the table's lock is never held while something is written to a stream
	streamWriteNotUnder(c, "R-table-lock-free-write", guard, "listening-stream table")
	c.R.Min("R-table-lock-free-write", 2)

	// per function: inserts (fresh), deletes
	type fnInfo struct {
		inserts []Access
		deletes []Access
		lookups []Access
	}
	byFn := map[*ssa.Function]*fnInfo{}
	for _, a := range accs {
		if a.Field != table || a.Init {
			continue
		}
		fi := byFn[a.Fn]
		if fi == nil {
			fi = &fnInfo{}
			byFn[a.Fn] = fi
		}
		switch a.Kind {
		case "map-update":
			fi.inserts = append(fi.inserts, a)
		case "map-delete":
			fi.deletes = append(fi.deletes, a)
		}
	}
	nSelf, nReplace, nForeign := 0, 0, 0
	for _, fn := range sortedFuncsKeys(byFn) {
		fi := byFn[fn]
		if len(fi.inserts) > 0 {
			for _, ins := range fi.inserts {
				if ins.MapVal == nil {
					c.R.Violate("R-replace-atomic", "replace in "+fname(fn), c.Pos(ins.Pos), sprintf("%s stores into %s through a helper a record that cannot be traced to the caller", fname(fn), table))
					continue
				}
				rec := ir.Unwrap(ins.MapVal)
				nReplace++
				construct := "replace in " + fname(fn)
				// the old record is looked up and cancelled in the same critical section
				site := ins.Locks[guard].Site
				cancelled := false
				var cancelPos token.Pos
				ir.EachInstr(fn, func(_ *ssa.BasicBlock, _ int, in ssa.Instruction) {
					call, ok := in.(*ssa.Call)
					if !ok || call.Call.IsInvoke() {
						return
					}
					f, base, ok := ir.LoadedField(call.Call.Value)
					if !ok || !isCancelFunc(f.Type) {
						return
					}
					if !fromTableLookup(base, table) {
						return
					}
					st := c.Locks().At(call)
					if h, ok := st[guard]; ok && h.Write && h.Site == site && site != nil {
						cancelled = true
						cancelPos = call.Pos()
					}
				})
				_ = cancelPos
				c.R.Check(cancelled, "R-replace-atomic", construct, c.Pos(ins.Pos),
					"old record looked up, cancelled and replaced inside one critical section of "+guard,
					sprintf("%s stores a new stream record into %s but the previous record is not cancelled inside the same critical section of %s: two streams can stay open / be registered for one session", fname(fn), table, guard))

				// the registering function must not tear the entry down through a function that deletes by key alone
				// (session termination does that, rightly): by then the key may name a newer stream
				ir.EachInstr(fn, func(_ *ssa.BasicBlock, _ int, in ssa.Instruction) {
					call, ok := in.(ssa.CallInstruction)
					if !ok {
						return
					}
					for _, cal := range ir.Callees(c.G, call) {
						gi := byFn[cal]
						if gi == nil || cal == fn || len(gi.deletes) == 0 || len(gi.inserts) > 0 {
							continue
						}
						byKey := false
						for _, del := range gi.deletes {
							if p, _, _ := deleteGuardedByParam(c, cal, del, table, guard); p == nil {
								byKey = true
							}
						}
						if byKey && flow.Reaches(ins.Instr, in) {
							nSelf++
							c.R.Violate("R-remove-self-only", "self-removal of "+fname(fn)+" through "+fname(cal), c.Pos(in.Pos()),
								sprintf("%s registers a stream record in %s and later removes it by calling %s, which deletes (and cancels) whatever the key maps to: when a newer stream has replaced this one, its exit evicts and cancels the newer stream", fname(fn), table, fname(cal)))
						}
					}
				})
				// R-register-first: whatever this handler sends "to the session" — through a function that looks the
				// session's current stream up in the table — is sent after its own record is in the table; before
				// that the lookup finds the OLD stream (or none).
				tableReaders := map[*ssa.Function]bool{}
				for _, g := range c.P.LibFns {
					if g == fn {
						continue
					}
					ir.EachInstr(g, func(_ *ssa.BasicBlock, _ int, in ssa.Instruction) {
						if lk, ok := in.(*ssa.Lookup); ok && fromTableLookup(lk, table) {
							tableReaders[g] = true
						}
					})
				}
				mutators := map[*ssa.Function]string{} // functions that delete from / store into a table of the library
				for _, a := range accs {
					if a.Init || a.Local || a.Field == table || (a.Kind != "map-delete" && a.Kind != "map-update") {
						continue
					}
					mutators[a.Fn] = a.Field
				}
				// the exit region: what follows the wait for this stream's own context
				exitRegion := map[*ssa.BasicBlock]bool{}
				ir.EachInstr(fn, func(_ *ssa.BasicBlock, _ int, in ssa.Instruction) {
					u, ok := in.(*ssa.UnOp)
					if !ok || u.Op != token.ARROW {
						return
					}
					oc := originCall(u.X)
					if oc == nil || ir.CallName(oc) != "(context.Context).Done" {
						return
					}
					if wc := originCall(oc.Call.Value); wc == nil || !strings.HasPrefix(ir.CallName(wc), "context.With") {
						return
					}
					for b := range flow.BlocksReachableAvoiding(in.Block(), nil) {
						if b != in.Block() {
							exitRegion[b] = true
						}
					}
					exitRegion[in.Block()] = true
				})
				nCall := 0
				// when the insert sits in a registering helper, the handler that calls the helper is held to the same
				// ordering: its sends to the session come after that call
				for _, e := range ir.Callers(c.G, fn) {
					caller := e.Caller.Func
					site, ok := e.Site.(*ssa.Call)
					if !ok || !c.P.IsLib(caller) || caller == fn || len(exitRegion) > 0 {
						continue // (a function that also waits for the stream's end is the handler itself)
					}
					ir.EachInstr(caller, func(_ *ssa.BasicBlock, _ int, in ssa.Instruction) {
						call, ok := in.(*ssa.Call)
						if !ok || call == site {
							return
						}
						sends := false
						for _, cal := range ir.Callees(c.G, call) {
							if !c.P.IsLib(cal) || cal == fn {
								continue
							}
							for f := range c.ReachSync(cal) {
								if tableReaders[f] {
									sends = true
								}
							}
						}
						if sends && (flow.Reaches(in, site) || flow.Reaches(site, in)) {
							nCall++
							c.R.Check(flow.Dominates(site, in), "R-register-first", sprintf("send to the session #%d in %s", nCall, fname(caller)), c.Pos(call.Pos()),
								"made after this stream's own record is in the table",
								sprintf("%s sends to the session (through a function that looks the session's stream up in %s) before it has registered its own record through %s: the message goes to the stream being replaced", fname(caller), table, fname(fn)))
						}
					})
				}
				ir.EachInstr(fn, func(_ *ssa.BasicBlock, _ int, in ssa.Instruction) {
					call, ok := in.(*ssa.Call)
					if !ok {
						return
					}
					var sends bool
					var mutates string
					for _, cal := range ir.Callees(c.G, call) {
						if !c.P.IsLib(cal) {
							continue
						}
						for f := range c.ReachSync(cal) {
							if tableReaders[f] {
								sends = true
							}
							if m, ok := mutators[f]; ok {
								mutates = m
							}
						}
					}
					if sends {
						nCall++
						c.R.Check(flow.Dominates(ins.Instr, in), "R-register-first", sprintf("send to the session #%d in %s", nCall, fname(fn)), c.Pos(call.Pos()),
							"made after this stream's own record is in the table",
							sprintf("%s sends to the session (through a function that looks the session's stream up in %s) before its own record is in the table: the message goes to the stream being replaced — and if that peer has stalled, the new stream is never registered", fname(fn), table))
					}
					if mutates != "" && exitRegion[in.Block()] {
						guarded := false
						for _, g := range flow.Guards(fn, in.Block()) {
							bin, ok := g.If.Cond.(*ssa.BinOp)
							if !ok || (bin.Op != token.EQL && bin.Op != token.NEQ) || (bin.Op == token.EQL) != g.Branch {
								continue
							}
							x, y := ir.Unwrap(bin.X), ir.Unwrap(bin.Y)
							if (sameValue(x, rec) && fromTableLookup(y, table)) || (sameValue(y, rec) && fromTableLookup(x, table)) {
								guarded = true
							}
						}
						nCall++
						c.R.Check(guarded, "R-remove-self-only", sprintf("exit of %s touches %s", fname(fn), mutates), c.Pos(call.Pos()),
							"only while the table still maps the session to this very stream",
							sprintf("on its exit path %s changes %s, state of the whole session, without checking that it is still the session's current stream: when a newer stream has replaced it, the old stream's exit takes away what belongs to the newer one (pending server requests, registrations)", fname(fn), mutates))
					}
				})
				// R-ends-on-cancel: the record's cancel function is how a DELETE, a newer stream or Close ends this stream.
				// It only does if the handler, after registering, waits on the Done() of the very context that function
				// cancels: every blocking wait after the insert — here or in a helper the context is handed to — has
				// such an arm.
				var endsOnCancel func(holder *ssa.Function, rec ssa.Value, after ssa.Instruction, depth int)
				endsOnCancel = func(holder *ssa.Function, rec ssa.Value, after ssa.Instruction, depth int) {
					// The cancelled context is identified by a predicate over values of the handler: the first result of the
					// context.With* call whose second result is stored in the record — made by the handler itself, or by a
					// constructor it hands the cancel function to — or, when a constructor derives the context itself, the
					// context member of the record that constructor stores it in.
					var isConnCtx func(v ssa.Value) bool
					withCtxOf := func(cancel ssa.Value) (ssa.Value, bool) {
						ex, ok := unspill(cancel).(*ssa.Extract)
						if !ok || ex.Index != 1 {
							return nil, false
						}
						wc, ok := ex.Tuple.(*ssa.Call)
						if !ok || !strings.HasPrefix(ir.CallName(wc), "context.With") || wc.Referrers() == nil {
							return nil, false
						}
						for _, r3 := range *wc.Referrers() {
							if e0, ok := r3.(*ssa.Extract); ok && e0.Index == 0 {
								return e0, true
							}
						}
						return nil, false
					}
					// stores into members of a freshly allocated record: member name -> stored value
					memberStores := func(al *ssa.Alloc) map[string]ssa.Value {
						out := map[string]ssa.Value{}
						if al.Referrers() == nil {
							return out
						}
						for _, r := range *al.Referrers() {
							fa, ok := r.(*ssa.FieldAddr)
							if !ok || fa.Referrers() == nil {
								continue
							}
							f, _, ok := ir.FieldOf(fa)
							if !ok {
								continue
							}
							for _, rr := range *fa.Referrers() {
								if st, ok := rr.(*ssa.Store); ok && st.Addr == fa {
									out[f.Name] = st.Val
								}
							}
						}
						return out
					}
					cancelMember := func(al *ssa.Alloc) (ssa.Value, bool) {
						if st, ok := al.Type().Underlying().(*types.Pointer).Elem().Underlying().(*types.Struct); ok {
							ms := memberStores(al)
							for i := 0; i < st.NumFields(); i++ {
								if isCancelFunc(st.Field(i).Type()) {
									v, ok := ms[st.Field(i).Name()]
									return v, ok
								}
							}
						}
						return nil, false
					}
					undecided := ""
					ctxMember := "" // the member of the record that holds the context its cancel function cancels
					type waitTarget struct {
						h     *ssa.Function
						is    func(ssa.Value) bool
						after ssa.Instruction
					}
					var targets []waitTarget
					switch r := rec.(type) {
					case *ssa.Alloc:
						if cv, ok := cancelMember(r); ok {
							if e0, ok := withCtxOf(cv); ok {
								isConnCtx = func(v ssa.Value) bool { return unspill(v) == e0 }
								for name, v := range memberStores(r) {
									if unspill(v) == e0 {
										ctxMember = name
									}
								}
							} else if p, isParam := unspill(cv).(*ssa.Parameter); isParam && depth < 2 {
								// the record is filled in by a registering helper from a cancel function it is handed:
								// the handler is the caller that made the context, and waits after the call
								idx := -1
								for i, q := range holder.Params {
									if q == p {
										idx = i
									}
								}
								for _, e := range ir.Callers(c.G, holder) {
									site, ok := e.Site.(*ssa.Call)
									if !ok || !c.P.IsLib(e.Caller.Func) || idx < 0 {
										continue
									}
									ai := idx
									if site.Call.IsInvoke() {
										ai--
									}
									if ai < 0 || ai >= len(site.Call.Args) {
										continue
									}
									if e0, ok := withCtxOf(site.Call.Args[ai]); ok {
										e0 := e0
										targets = append(targets, waitTarget{e.Caller.Func, func(v ssa.Value) bool { return unspill(v) == e0 }, site})
									} else {
										undecided = "the cancel function handed to " + fname(holder) + " by " + fname(e.Caller.Func) + " is not the result of a context.With* call"
									}
								}
								if len(targets) == 0 && undecided == "" {
									undecided = "no library caller hands " + fname(holder) + " a cancel function"
								}
							} else {
								undecided = "the cancel function stored in the record is not the result of a context.With* call of the handler"
							}
						}
					case *ssa.Call:
						k := ir.StaticCallee(r)
						if k == nil || !c.P.IsLib(k) || k.Blocks == nil {
							undecided = "the record comes from a call that cannot be resolved to a constructor of the library"
							break
						}
						var results []ssa.Value
						for _, b := range k.Blocks {
							if ret, ok := b.Instrs[len(b.Instrs)-1].(*ssa.Return); ok && len(ret.Results) > 0 && b != k.Recover {
								results = append(results, ir.Results(ret)[0])
							}
						}
						for _, res := range results {
							al, ok := ir.Unwrap(res).(*ssa.Alloc)
							if !ok {
								continue
							}
							cv, ok := cancelMember(al)
							if !ok {
								continue
							}
							if p, ok := unspill(cv).(*ssa.Parameter); ok {
								for i, q := range k.Params {
									if q == p && i < len(r.Call.Args) {
										if e0, ok := withCtxOf(r.Call.Args[i]); ok {
											isConnCtx = func(v ssa.Value) bool { return unspill(v) == e0 }
											// the member the constructor keeps that context in (a parameter fed with it)
											for name, mv := range memberStores(al) {
												if mp, ok := unspill(mv).(*ssa.Parameter); ok {
													for j, q2 := range k.Params {
														if q2 == mp && j < len(r.Call.Args) && unspill(r.Call.Args[j]) == e0 {
															ctxMember = name
														}
													}
												}
											}
										}
									}
								}
							} else if e0, ok := withCtxOf(cv); ok {
								// derived inside the constructor: reachable for the handler only through the member it is stored in
								member := ""
								for name, v := range memberStores(al) {
									if unspill(v) == e0 {
										member = name
									}
								}
								if member != "" {
									ctxMember = member
									isConnCtx = func(v ssa.Value) bool {
										f, base, ok := ir.LoadedField(unspill(v))
										return ok && f.Name == member && sameValue(ir.Unwrap(base), rec)
									}
								} else {
									isConnCtx = func(ssa.Value) bool { return false }
								}
							}
						}
						if isConnCtx == nil {
							undecided = sprintf("the constructor %s does not store a cancel function that can be traced to a context.With* call", fname(k))
						}
					case *ssa.Parameter:
						// the insert sits in a registering helper: the handler is whoever hands it the record
						idx := -1
						for i, q := range holder.Params {
							if q == r {
								idx = i
							}
						}
						nc := 0
						for _, e := range ir.Callers(c.G, holder) {
							site, ok := e.Site.(*ssa.Call)
							if !ok || !c.P.IsLib(e.Caller.Func) || idx < 0 || depth >= 2 {
								continue
							}
							ai := idx
							if site.Call.IsInvoke() {
								ai--
							}
							if ai < 0 || ai >= len(site.Call.Args) {
								continue
							}
							nc++
							endsOnCancel(e.Caller.Func, ir.Unwrap(site.Call.Args[ai]), site, depth+1)
						}
						if nc == 0 {
							undecided = "the record is a parameter of a function that no library function calls"
						} else {
							return
						}
					default:
						undecided = "the registered record is neither allocated by the handler nor returned by a constructor"
					}
					if undecided != "" {
						c.R.Violate("R-ends-on-cancel", "cancelled context of the record registered by "+fname(holder), c.Pos(ins.Pos),
							sprintf("cannot identify the context that the cancel function of the record registered by %s cancels (%s): whether the handler ends when DELETE, a replacing stream or shutdown call that function is undecided", fname(holder), undecided))
					}
					if isConnCtx != nil {
						targets = append(targets, waitTarget{holder, isConnCtx, after})
					}
					if len(targets) > 0 {
						doneOf := func(ch ssa.Value, is func(ssa.Value) bool) bool {
							oc := originCall(ch)
							return oc != nil && ir.CallName(oc) == "(context.Context).Done" && is(oc.Call.Value)
						}
						var waits func(f *ssa.Function, ctxv func(ssa.Value) bool, from ssa.Instruction, d int)
						nWait := 0
						waits = func(f *ssa.Function, ctxv func(ssa.Value) bool, from ssa.Instruction, d int) {
							ir.EachInstr(f, func(_ *ssa.BasicBlock, _ int, in ssa.Instruction) {
								if from != nil && !flow.Reaches(from, in) {
									return
								}
								switch x := in.(type) {
								case *ssa.UnOp:
									if x.Op != token.ARROW {
										return
									}
									nWait++
									c.R.Check(ctxv != nil && doneOf(x.X, ctxv), "R-ends-on-cancel", sprintf("wait #%d after registering in %s", nWait, fname(f)), c.Pos(x.Pos()),
										"waits for the context the record's cancel function cancels",
										sprintf("%s, after the stream was registered by %s, blocks on something other than the Done() of the context that the registered cancel function cancels: DELETE, a replacing stream or shutdown call that function, and the stream stays open", fname(f), fname(holder)))
								case *ssa.Select:
									if !x.Blocking {
										return
									}
									nWait++
									has := false
									for _, st := range x.States {
										if ctxv != nil && doneOf(st.Chan, ctxv) {
											has = true
										}
									}
									c.R.Check(has, "R-ends-on-cancel", sprintf("wait #%d after registering in %s", nWait, fname(f)), c.Pos(x.Pos()),
										"has an arm on the context the record's cancel function cancels",
										sprintf("%s, after the stream was registered by %s, waits in a select that has no arm on the Done() of the context that the registered cancel function cancels: DELETE, a replacing stream or shutdown call that function, and the stream stays open", fname(f), fname(holder)))
								case *ssa.Call:
									if d >= 1 {
										return
									}
									sc := ir.StaticCallee(x)
									if sc == nil || !c.P.IsLib(sc) || sc == f {
										return
									}
									// only helpers that wait themselves (not senders: a write is bounded by the peer, not by us)
									blocks := false
									ir.EachInstr(sc, func(_ *ssa.BasicBlock, _ int, in2 ssa.Instruction) {
										if u, ok := in2.(*ssa.UnOp); ok && u.Op == token.ARROW {
											blocks = true
										}
										if sel, ok := in2.(*ssa.Select); ok && sel.Blocking {
											blocks = true
										}
									})
									if !blocks {
										return
									}
									var inner ssa.Value
									for i, a := range x.Call.Args {
										if ctxv != nil && ctxv(a) && i < len(sc.Params) {
											inner = sc.Params[i]
										}
									}
									if inner == nil && ctxMember != "" {
										// the helper is handed the record itself and waits on the context kept in it
										for i, a := range x.Call.Args {
											if sameValue(ir.Unwrap(a), rec) && i < len(sc.Params) {
												recParam := sc.Params[i]
												waits(sc, func(v ssa.Value) bool {
													f, base, ok := ir.LoadedField(unspill(v))
													return ok && f.Name == ctxMember && ir.Unwrap(base) == ssa.Value(recParam)
												}, nil, d+1)
												return
											}
										}
									}
									if inner == nil {
										waits(sc, nil, nil, d+1)
									} else {
										waits(sc, func(v ssa.Value) bool { return unspill(v) == inner }, nil, d+1)
									}
								}
							})
						}
						for _, t := range targets {
							holder = t.h
							waits(t.h, t.is, t.after, 0)
						}
					}
				}
				endsOnCancel(fn, rec, ins.Instr, 0)
				// self tear-down deletes
				for _, del := range fi.deletes {
					nSelf++
					construct := "self-removal in " + fname(fn)
					ok, why := deleteGuardedByIdentity(c, fn, del, rec, table, guard)
					c.R.Check(ok, "R-remove-self-only", construct, c.Pos(del.Pos), why,
						sprintf("%s registers a stream record in %s and on exit deletes the table entry %s: a stream replaced by a newer one evicts the newer one when it ends", fname(fn), table, why))
				}
			}
			continue
		}
		for _, del := range fi.deletes {
			// a removal helper extracted from the registering handler: deletes only when the table still maps the key
			// to the record it was handed, and every caller hands it a record it registered itself
			if p, ok, why := deleteGuardedByParam(c, fn, del, table, guard); p != nil {
				nSelf++
				construct := "self-removal in " + fname(fn)
				idx := -1
				for i, q := range fn.Params {
					if q == p {
						idx = i
					}
				}
				callersOK, nCallers := true, 0
				for _, e := range ir.Callers(c.G, fn) {
					if e.Site == nil || !c.P.IsLib(e.Caller.Func) || idx >= len(e.Site.Common().Args) {
						continue
					}
					nCallers++
					if !registeredByCaller(c, e.Caller.Func, ir.Unwrap(e.Site.Common().Args[idx]), table, byFnInserts(byFn)) {
						callersOK = false
						why = sprintf("%s, but %s passes it a record it did not register itself", why, fname(e.Caller.Func))
					}
				}
				c.R.Check(ok && callersOK && nCallers > 0, "R-remove-self-only", construct, c.Pos(del.Pos), why,
					sprintf("%s deletes the table entry of %s %s: a stream replaced by a newer one evicts the newer one when it ends", fname(fn), table, why))
				continue
			}
			nForeign++
			construct := "foreign delete in " + fname(fn)
			// the deleting function must cancel the record it looked up under the same lock acquisition
			site := del.Locks[guard].Site
			cancels := false
			ir.EachInstr(fn, func(_ *ssa.BasicBlock, _ int, in ssa.Instruction) {
				call, ok := in.(*ssa.Call)
				if !ok || call.Call.IsInvoke() {
					return
				}
				f, base, ok := ir.LoadedField(call.Call.Value)
				if !ok || !isCancelFunc(f.Type) || !fromTableLookup(base, table) {
					return
				}
				if h, ok := c.Locks().At(call)[guard]; ok && h.Site == site && site != nil && flow.Dominates(call, del.Instr) {
					cancels = true
				}
			})
			// and it must be a session-termination path, not a send path: its callers must not be send primitives
			c.R.Check(cancels, "R-foreign-delete", construct, c.Pos(del.Pos), "cancels the record it removes, same critical section",
				sprintf("%s deletes an entry of %s without cancelling the record it removes in the same critical section", fname(fn), table))
			for _, e := range ir.Callers(c.G, fn) {
				caller := e.Caller.Func
				if !c.P.IsLib(caller) {
					continue
				}
				writes := false
				ir.EachInstr(caller, func(_ *ssa.BasicBlock, _ int, in ssa.Instruction) {
					u, ok := in.(*ssa.UnOp)
					if !ok {
						return
					}
					if fa, ok := u.X.(*ssa.FieldAddr); ok {
						if _, _, typ, _ := ir.FullField(fa); typ != nil && isWriterType(typ) {
							writes = true
						}
					}
				})
				c.R.Check(!writes, "R-foreign-delete", "caller "+fname(caller)+" of "+fname(fn), c.Pos(e.Site.Pos()),
					"caller is not a stream writer",
					sprintf("%s writes to a stream record and also tears the session's table entry down via %s: a failed write on an old stream evicts the session's current stream", fname(caller), fname(fn)))
			}
		}
	}
	c.R.Min("R-replace-atomic", 1)
	c.R.Min("R-remove-self-only", 1)
	c.R.Min("R-foreign-delete", 1)
	nFirst := 0
	for _, o := range c.R.Obls {
		if o.Rule == "R-register-first" {
			nFirst++
		}
	}
	if nFirst == 0 {
		// (the insert sites themselves are counted by R-replace-atomic / R-remove-self-only above)
		c.R.Hold("R-register-first", "the registering handler sends nothing to the session through the table", "", "no send found on either side of the registration")
	}
	c11SlotOwner(c)
	c11OnceScope(c)
	// "notifications sent afterwards arrive on the newer stream": whatever is written to a stream record's writer is
	// written under that record's write lock, and every acquisition of it is released on every path
	streamWriteLocked(c, "R-stream-locked", true)
	c.R.Min("R-stream-locked", 2)
	lockBalancedServer(c, "R-lock-balanced")
	// re-opening the client's listening stream must complete: nothing waits for the old stream's goroutine while
	// holding the mutex that goroutine needs on its way out
	{
		var cfns []*ssa.Function
		for _, f := range c.P.LibFns {
			if clientSide(c, f) {
				cfns = append(cfns, f)
			}
		}
		c08NoLockAcrossWait(c, cfns)
	}
	_ = nSelf
	_ = nReplace
	_ = nForeign
}

func sortedFuncsKeys[T any](m map[*ssa.Function]T) []*ssa.Function {
	s := map[*ssa.Function]bool{}
	for k := range m {
		s[k] = true
	}
	return sortedFuncs(s)
}

// fromTableLookup: v is (derived from) a lookup in the given table field.
func fromTableLookup(v ssa.Value, table string) bool {
	for i := 0; i < 6; i++ {
		switch x := v.(type) {
		case *ssa.Extract:
			v = x.Tuple
		case *ssa.Lookup:
			if u, ok := x.X.(*ssa.UnOp); ok {
				if fa, ok := u.X.(*ssa.FieldAddr); ok {
					key, _, _, _ := ir.FullField(fa)
					return key == table
				}
			}
			return false
		case *ssa.Phi:
			for _, e := range x.Edges {
				if fromTableLookup(e, table) {
					return true
				}
			}
			return false
		default:
			return false
		}
	}
	return false
}

// deleteGuardedByIdentity: del is reachable only through the true edge of `lookup(table) == rec`
// (or the false edge of !=), and the comparison's lookup happens under the same lock acquisition.
func deleteGuardedByIdentity(c *Ctx, fn *ssa.Function, del Access, rec ssa.Value, table, guard string) (bool, string) {
	site := del.Locks[guard].Site
	for _, g := range flow.Guards(fn, del.Instr.Block()) {
		bin, ok := g.If.Cond.(*ssa.BinOp)
		if !ok {
			continue
		}
		var want bool
		switch bin.Op {
		case token.EQL:
			want = true
		case token.NEQ:
			want = false
		default:
			continue
		}
		if g.Branch != want {
			continue
		}
		x, y := ir.Unwrap(bin.X), ir.Unwrap(bin.Y)
		var other ssa.Value
		if sameValue(x, rec) {
			other = y
		} else if sameValue(y, rec) {
			other = x
		} else {
			continue
		}
		if !fromTableLookup(other, table) {
			continue
		}
		// the lookup must be in the same critical section as the delete
		var lk ssa.Instruction
		switch o := other.(type) {
		case *ssa.Extract:
			lk, _ = o.Tuple.(ssa.Instruction)
		case ssa.Instruction:
			lk = o
		}
		if lk == nil {
			continue
		}
		if h, ok := c.Locks().At(lk)[guard]; ok && h.Site == site && site != nil {
			return true, "only when the table still maps the key to this very record (identity test inside the same critical section)"
		}
		return false, "with an identity test that is evaluated outside the critical section of the delete"
	}
	return false, "unconditionally (no identity comparison with its own record guards the delete)"
}

// deleteGuardedByParam: the delete is controlled by `table[key] == p` for a parameter p of fn, evaluated in the same
// critical section. Returns the parameter (nil when there is no such comparison).
func deleteGuardedByParam(c *Ctx, fn *ssa.Function, del Access, table, guard string) (*ssa.Parameter, bool, string) {
	for _, p := range fn.Params {
		if _, isPtr := p.Type().Underlying().(*types.Pointer); !isPtr {
			continue
		}
		ok, why := deleteGuardedByIdentity(c, fn, del, p, table, guard)
		if ok || !strings.HasPrefix(why, "unconditionally") {
			return p, ok, why
		}
	}
	return nil, false, ""
}

func byFnInserts[T any](m map[*ssa.Function]T) map[*ssa.Function]bool {
	out := map[*ssa.Function]bool{}
	for f := range m {
		out[f] = true
	}
	return out
}

// registeredByCaller: v is a record that caller stored into the table itself, or that a function storing into the table
// returned to it.
func registeredByCaller(c *Ctx, caller *ssa.Function, v ssa.Value, table string, tableFns map[*ssa.Function]bool) bool {
	inserts := func(f *ssa.Function, val ssa.Value) bool {
		found := false
		ir.EachInstr(f, func(_ *ssa.BasicBlock, _ int, in ssa.Instruction) {
			mu, ok := in.(*ssa.MapUpdate)
			if !ok {
				return
			}
			if fl, _, ok := ir.LoadedField(mu.Map); !ok || fl.Key() != table {
				return
			}
			if val == nil || sameValue(ir.Unwrap(mu.Value), val) {
				found = true
			}
		})
		return found
	}
	if inserts(caller, v) {
		return true
	}
	// handed by the caller to a helper that stores that very argument into the table
	handed := false
	ir.EachInstr(caller, func(_ *ssa.BasicBlock, _ int, in ssa.Instruction) {
		call, ok := in.(*ssa.Call)
		if !ok {
			return
		}
		sc := ir.StaticCallee(call)
		if sc == nil || !c.P.IsLib(sc) {
			return
		}
		for i, a := range call.Call.Args {
			if sameValue(ir.Unwrap(a), v) && i < len(sc.Params) && inserts(sc, sc.Params[i]) {
				handed = true
			}
		}
	})
	if handed {
		return true
	}
	var call *ssa.Call
	switch x := v.(type) {
	case *ssa.Call:
		call = x
	case *ssa.Extract:
		call, _ = x.Tuple.(*ssa.Call)
	}
	if call != nil {
		if sc := ir.StaticCallee(call); sc != nil && c.P.IsLib(sc) && inserts(sc, nil) {
			return true
		}
	}
	return false
}

func sameValue(a, b ssa.Value) bool {
	if a == b {
		return true
	}
	// the record may be held in a local cell: compare through loads of one Alloc
	la, oka := a.(*ssa.UnOp)
	lb, okb := b.(*ssa.UnOp)
	if oka && okb && la.X == lb.X {
		return true
	}
	return false
}

// ---------------------------------------------------------------- R-slot-owner (client side)
// The Streamable client keeps its listening stream in a single slot (a nested struct holding the stream's context,
// its cancel function and a state flag). Re-opening the stream replaces the slot's content. A goroutine serving one
// stream must touch the slot when it exits only if the slot is still its own: every write to a slot member, and every
// call through the slot's cancel function, made by a goroutine body or its deferred closures must be controlled by a
// comparison of a slot member with a value the goroutine captured when it was started.
func c11SlotOwner(c *Ctx) {
	n := 0
	// functions that belong to a goroutine: started with `go` (closure or method), declared inside such a function, or
	// called / deferred only by such functions (the goroutine's body split into methods)
	goRooted := map[*ssa.Function]bool{}
	for _, fn := range c.P.LibFns {
		for _, e := range ir.Callers(c.G, fn) {
			if _, ok := e.Site.(*ssa.Go); ok {
				goRooted[fn] = true
			}
		}
	}
	for iter := 0; iter < 3; iter++ {
		for _, fn := range c.P.LibFns {
			if goRooted[fn] {
				continue
			}
			if p := fn.Parent(); p != nil && goRooted[p] {
				goRooted[fn] = true
				continue
			}
			nLib, all := 0, true
			for _, e := range ir.Callers(c.G, fn) {
				if e.Site == nil || !c.P.IsLib(e.Caller.Func) {
					continue
				}
				nLib++
				if !goRooted[e.Caller.Func] {
					all = false
				}
			}
			if nLib > 0 && all {
				goRooted[fn] = true
			}
		}
	}
	for _, fn := range c.P.LibFns {
		if !clientSide(c, fn) || !goRooted[fn] {
			continue
		}
		// the function that opens a stream installs a context it has just created into the slot: that is the
		// replacement itself (done under the slot's lock), not a stream's exit
		opener := false
		ir.EachInstr(fn, func(_ *ssa.BasicBlock, _ int, in ssa.Instruction) {
			if st, ok := in.(*ssa.Store); ok {
				if fa, ok := st.Addr.(*ssa.FieldAddr); ok && slotOf(fa) != "" {
					if oc := originCall(st.Val); oc != nil && strings.HasPrefix(ir.CallName(oc), "context.With") {
						opener = true
					}
				}
			}
		})
		if opener {
			continue
		}
		ir.EachInstr(fn, func(_ *ssa.BasicBlock, _ int, in ssa.Instruction) {
			var slotKey string
			var what string
			switch x := in.(type) {
			case *ssa.Store:
				fa, ok := x.Addr.(*ssa.FieldAddr)
				if !ok {
					return
				}
				key, _, _, _ := ir.FullField(fa)
				if slotOf(fa) == "" {
					return
				}
				slotKey, what = slotOf(fa), "writes "+key
			case *ssa.Call:
				f, _, ok := ir.LoadedField(x.Call.Value)
				if !ok || !isCancelFunc(f.Type) {
					return
				}
				u, _ := x.Call.Value.(*ssa.UnOp)
				if u == nil {
					return
				}
				fa, ok := u.X.(*ssa.FieldAddr)
				if !ok || slotOf(fa) == "" {
					return
				}
				slotKey, what = slotOf(fa), "calls the slot's cancel function"
			default:
				return
			}
			n++
			guarded := false
			for _, g := range flow.Guards(fn, in.Block()) {
				bin, ok := g.If.Cond.(*ssa.BinOp)
				if !ok || (bin.Op != token.EQL && bin.Op != token.NEQ) {
					continue
				}
				if (bin.Op == token.EQL) != g.Branch {
					continue
				}
				isSlot := func(v ssa.Value) bool {
					u, ok := v.(*ssa.UnOp)
					if !ok {
						return false
					}
					fa, ok := u.X.(*ssa.FieldAddr)
					return ok && slotOf(fa) == slotKey
				}
				isCaptured := func(v ssa.Value) bool {
					switch y := v.(type) {
					case *ssa.FreeVar:
						return true
					case *ssa.Parameter:
						return true // handed to the goroutine's function when it was started
					case *ssa.UnOp:
						_, fv := y.X.(*ssa.FreeVar)
						return fv
					}
					return false
				}
				if (isSlot(bin.X) && isCaptured(bin.Y)) || (isSlot(bin.Y) && isCaptured(bin.X)) {
					guarded = true
				}
			}
			c.R.Check(guarded, "R-slot-owner", sprintf("%s %s", fname(fn), what), c.Pos(in.Pos()), "only while the slot still holds this goroutine's own stream (identity test)",
				sprintf("%s, part of a goroutine serving one listening stream, %s of the shared slot %s without first checking that the slot is still its own: when a newer stream has replaced it, the old stream's exit clobbers (or cancels) the newer one", fname(fn), what, slotKey))
		})
	}
	c.R.Min("R-slot-owner", 1)
	_ = n
}

// slotOf: fa addresses a member of a nested (anonymous) struct member that also holds a context.CancelFunc — the
// "current connection" slot of a transport. Returns the slot's key ("T.slot") or "".
func slotOf(fa *ssa.FieldAddr) string {
	inner, ok := fa.X.(*ssa.FieldAddr)
	if !ok {
		// the slot as a type of its own whose methods take its mutex themselves: a named struct holding a
		// context.CancelFunc and a mutex, addressed through a method's receiver
		if p, isParam := fa.X.(*ssa.Parameter); isParam && p.Parent() != nil && len(p.Parent().Params) > 0 && p.Parent().Params[0] == p && p.Parent().Signature.Recv() != nil {
			if pt, ok := p.Type().(*types.Pointer); ok {
				if nt, ok := pt.Elem().(*types.Named); ok && ir.InLibrary(nt) {
					if st, ok := nt.Underlying().(*types.Struct); ok {
						hasCancel, hasMu, hasCtx := false, false, false
						for i := 0; i < st.NumFields(); i++ {
							if isCancelFunc(st.Field(i).Type()) {
								hasCancel = true
							}
							if ir.IsSyncType(st.Field(i).Type()) {
								hasMu = true
							}
							if ir.TypeStr(st.Field(i).Type()) == "context.Context" {
								hasCtx = true
							}
						}
						if hasCancel && hasMu && hasCtx && st.NumFields() <= 6 { // (a slot, not a whole transport)
							return ir.TypeKey(nt)
						}
					}
				}
			}
		}
		return ""
	}
	pt, ok := inner.Type().(*types.Pointer)
	if !ok {
		return ""
	}
	st, ok := pt.Elem().Underlying().(*types.Struct)
	if !ok {
		return ""
	}
	if _, named := pt.Elem().(*types.Named); named {
		return ""
	}
	has := false
	for i := 0; i < st.NumFields(); i++ {
		if isCancelFunc(st.Field(i).Type()) {
			has = true
		}
	}
	if !has {
		return ""
	}
	key, _, _, _ := ir.FullField(inner)
	return key
}

// streamTableAndGuard discovers the listening-stream table (map member whose values point to a record holding a
// context.CancelFunc) and the mutex guarding it.
func streamTableAndGuard(c *Ctx) (table, guard string) {
	accs := CollectAccesses(c)
	for _, a := range accs {
		m, ok := a.Type.Underlying().(*types.Map)
		if !ok {
			continue
		}
		pt, ok := m.Elem().(*types.Pointer)
		if !ok {
			continue
		}
		st, ok := pt.Elem().Underlying().(*types.Struct)
		if !ok {
			continue
		}
		for i := 0; i < st.NumFields(); i++ {
			if isCancelFunc(st.Field(i).Type()) {
				table = a.Field
			}
		}
	}
	if table == "" {
		return "", ""
	}
	for _, g := range GuardTable(c, accs) {
		if g.Field == table {
			guard = g.Guard
		}
	}
	return table, guard
}
