package rules

import (
	"go/token"
	"go/types"
	"sort"
	"strings"

	"golang.org/x/tools/go/ssa"

	"verif/checker/flow"
	"verif/checker/ir"
)

// C06 — servers survive arbitrary peer input.
//
//		R-assert            no single-value type assertion on a value decoded from the peer unless a comma-ok test
//		                    of the same access path and type dominates it (directly or through a validator that
//		                    returns non-nil exactly on the failing edges and makes the caller return)
//		R-panic-sites       no explicit panic on server paths except named, reasoned exceptions; no bare send on a
//		                    shared channel; field channels are closed at most once (Once / CAS / recover)
//		R-lock-balanced     every mutex acquired on a server path is released on every path to the function's exit
//		R-lock-order        the lock-order graph of the server code is acyclic; no library lock is held while
//		                    user code (handlers, filters, middlewares, callbacks) runs
//		R-nonblocking-send  every channel send on a request path can give up (default arm, ctx/done arm)
//		R-per-request-growth every server-lifetime collection a request path inserts into has a removal that
//		                    request paths (or a background sweeper) can reach
//	  R-watcher-ends     a goroutine started to cancel a context also ends when a context ends
//	  R-hashable-key     maps keyed by an interface type are indexed only with values boxed from hashable types
//	  R-unbounded-input  no length-limited scanner on peer input
//	  (R-lock-order also reports re-entrant acquisition of one mutex through callees)
func init() { Registry["C06"] = checkC06 }

// panicException: explicit panics the peer cannot provoke, recognised by what controls them (not by where they are):
// a panic on the failure edge of crypto/rand.Read, and a panic on the nil edge of a context.Context parameter.
func panicException(fn *ssa.Function, p *ssa.Panic) string {
	for _, g := range flow.Guards(fn, p.Block()) {
		v, _, ok := nilCompare(g.If.Cond)
		if !ok {
			continue
		}
		if oc := originCall(v); oc != nil && ir.CallName(oc) == "crypto/rand.Read" {
			return "panics only when the OS entropy source fails — not influenced by the peer"
		}
		if prm, ok := v.(*ssa.Parameter); ok && ir.TypeStr(prm.Type()) == "context.Context" {
			return "panics only for a nil parent context — callers pass the request's context, which net/http never leaves nil"
		}
	}
	return ""
}

func checkC06(c *Ctx) {
	c.R.Explanation = "Static robustness check of everything reachable from the server entry points (two ServeHTTP, the stdio line loop): taint-based type-assertion safety with validator summaries, inventory of explicit panics, " +
		"lock pairing on all paths, acyclic lock order and no lock across user callbacks, give-up arms on every channel send, close-once guards, and paired insertion/removal of server-lifetime collections."
	c.R.NotDecided = "nil-dereference freedom in general, memory use of giant bodies (no size limit exists), panics inside user handlers (legacy SSE and stdio run them on bare goroutines)"
	c.R.Assumptions = []string{"peer-derived data = members of JSONRPCRequest.Params and targets of json.Unmarshal/Decode", "net/http recovers handler panics per connection (Streamable path only)"}
	entries := serverEntries(c)
	if len(entries) < 3 {
		c.R.Break("server entry points not found (%d)", len(entries))
		return
	}
	reach := c.Reach(entries...)
	var fns []*ssa.Function
	for _, f := range sortedFuncs(reach) {
		if !clientSide(c, f) {
			fns = append(fns, f)
		}
	}
	c.R.Extra["server_path_functions"] = len(fns)

	// ---- R-assert
	all, bad := unguardedAssertions(c, fns)
	for _, ta := range bad {
		c.R.Violate("R-assert", "unguarded assertion "+assertKey(ta)+" in "+fname(ta.Parent()), c.Pos(ta.Pos()),
			sprintf("%s asserts peer-controlled data (%s) to %s with the single-value form and no dominating comma-ok test or validator covers it: a wrong JSON type panics (on legacy SSE / stdio this kills the process)", fname(ta.Parent()), assertPath(ta.X, 0), ir.TypeStr(ta.AssertedType)))
	}
	if len(bad) == 0 {
		c.R.Hold("R-assert", "single-value assertions on peer data are guarded", "", sprintf("%d single-value assertions on peer-derived values, all covered", all))
	}
	// comma-ok assertions on Params count as instances too (vacuity)
	nOK := 0
	for _, fn := range fns {
		ir.EachInstr(fn, func(_ *ssa.BasicBlock, _ int, in ssa.Instruction) {
			if ta, ok := in.(*ssa.TypeAssert); ok && ta.CommaOk && peerDerived(ta.X, 0) {
				nOK++
			}
		})
	}
	c.R.Extra["comma_ok_assertions_on_peer_data"] = nOK
	if nOK < 10 {
		c.R.Break("R-assert saw %d comma-ok and %d single-value assertions on peer data (expected >= 10 comma-ok)", nOK, all)
	}

	// ---- R-panic-sites: explicit panics
	nPanic := 0
	for _, fn := range fns {
		ir.EachInstr(fn, func(_ *ssa.BasicBlock, _ int, in ssa.Instruction) {
			p, ok := in.(*ssa.Panic)
			if !ok || !p.Pos().IsValid() {
				return
			}
			nPanic++
			name := fname(fn)
			if why := panicException(fn, p); why != "" {
				c.R.Hold("R-panic-sites", "panic in "+name, c.Pos(p.Pos()), "exception: "+why)
				return
			}
			c.R.Violate("R-panic-sites", "panic in "+name, c.Pos(p.Pos()), sprintf("%s contains an explicit panic on a path reachable from a server entry point", name))
		})
	}
	serverSendsGiveUp(c, fns, "R-nonblocking-send")
	watcherGoroutinesEnd(c, fns, "R-watcher-ends")
	interfaceKeysHashable(c, fns, "R-hashable-key")
	nilableMembers(c, fns, "R-nil-member")
	lookupOKConsulted(c, fns, "R-ok-consulted")
	poolResetRule(c, "R-pool-reset") // one peer's truncated input must not be what the next request is parsed from
	c06IndexGuard(c, fns, "R-index-guard")
	c06NilMapWrite(c)
	c06DeliverNonNil(c)
	c06DisconnectObserved(c)
	c06ReaderNotThrottled(c)
	c06TerminateOnRequest(c)
	// a lock shared by all sessions held across a write that the peer paces stalls every other client
	if _, guard := streamTableAndGuard(c); guard != "" {
		streamWriteNotUnder(c, "R-table-lock-free-write", guard, "listening-stream table")
	} else {
		c.R.Break("R-table-lock-free-write: listening-stream table or its guard not discovered")
	}
	c.R.Min("R-nonblocking-send", 10)
	// close-once
	for _, cs := range closeSites(c, fns) {
		if cs.field == "" {
			continue
		}
		c.R.Check(cs.guarded != "", "R-panic-sites", "close of "+cs.field+" in "+fname(cs.fn), c.Pos(cs.call.Pos()), "closed at most once ("+cs.guarded+")",
			sprintf("%s closes the shared channel %s without a once/CAS/recover guard: a second close panics", fname(cs.fn), cs.field))
	}
	c.R.Min("R-panic-sites", 2)

	// ---- R-lock-balanced
	leaks := append(lockLeaks(c, fns), mayLeaks(c, fns)...)
	seenLeak := map[string]bool{}
	for _, l := range leaks {
		k := l.key + " in " + fname(l.fn)
		if seenLeak[k] {
			continue
		}
		seenLeak[k] = true
		c.R.Violate("R-lock-balanced", k, c.Pos(l.at.Pos()), sprintf("%s acquires %s (at %s) and can return (near %s) without releasing it: every later request needing the lock blocks forever", fname(l.fn), l.key, c.Pos(l.at.Pos()), ipos(c, l.ret)))
	}
	nAcq := 0
	for _, fn := range fns {
		ir.EachInstr(fn, func(_ *ssa.BasicBlock, _ int, in ssa.Instruction) {
			if op, ok := c.Locks().Classify(in); ok && op.Acquire {
				nAcq++
			}
		})
	}
	if len(seenLeak) == 0 {
		c.R.Hold("R-lock-balanced", "every acquisition is released on all paths", "", sprintf("%d lock acquisitions on server paths examined", nAcq))
	}
	if nAcq < 15 {
		c.R.Break("R-lock-balanced examined only %d acquisitions", nAcq)
	}

	// ---- R-unbounded-input: a server-side reader of peer input must not give up on a long line
	nSc := 0
	for _, fn := range fns {
		ir.EachInstr(fn, func(_ *ssa.BasicBlock, _ int, in ssa.Instruction) {
			call, ok := in.(*ssa.Call)
			if !ok || ir.CallName(call) != "bufio.NewScanner" {
				return
			}
			nSc++
			unlimited := false
			for _, r := range *call.Referrers() {
				if rc, ok := r.(*ssa.Call); ok && ir.CallName(rc) == "(*bufio.Scanner).Buffer" {
					if max, ok := ir.ConstInt(rc.Call.Args[2]); ok && max >= 1<<30 {
						unlimited = true
					}
				}
			}
			c.R.Check(unlimited, "R-unbounded-input", "scanner in "+fname(fn), c.Pos(call.Pos()), "token limit of at least 1 GiB",
				sprintf("%s reads the peer's input with a length-limited bufio.Scanner: one line longer than the limit makes Scan fail with ErrTooLong for good, the serve loop ends and no later request is answered", fname(fn)))
		})
	}
	if nSc == 0 {
		c.R.Hold("R-unbounded-input", "no length-limited scanner on peer input", "", "server-side readers use bufio.Reader")
	}

	// ---- R-lock-order
	edges := lockOrderEdges(c, fns)
	nested, reentries := nestedThroughCallees(c, fns)
	edges = append(edges, nested...)
	for _, r := range reentries {
		c.R.Violate("R-lock-order", sprintf("%s calls %s while holding %s", fname(r.fn), fname(r.callee), r.key), c.Pos(r.call.Pos()),
			sprintf("%s calls %s while it holds %s, and %s (or a function it calls) locks the same mutex of the same object again: Go mutexes are not re-entrant (nor may a read lock be taken twice while writers exist), the request deadlocks and takes every later request that needs the lock with it", fname(r.fn), fname(r.callee), r.key, fname(r.callee)))
	}
	cyc := lockCycles(edges)
	seenE := map[string]bool{}
	for _, e := range edges {
		k := e.from + " -> " + e.to
		if !seenE[k] {
			seenE[k] = true
		}
	}
	var es []string
	for k := range seenE {
		es = append(es, k)
	}
	sort.Strings(es)
	c.R.Extra["lock_order_edges"] = es
	c.R.Check(len(cyc) == 0, "R-lock-order", "lock-order graph", "", sprintf("acyclic (%d nesting edges: %s)", len(es), strings.Join(es, "; ")),
		sprintf("the lock-order graph has a cycle through %v: two request paths can deadlock", cyc))
	nCb := 0
	for _, fn := range fns {
		ir.EachCall(fn, func(call ssa.CallInstruction) {
			cb := userCallbackCall(c, call)
			if cb == "" {
				return
			}
			if _, isGo := call.(*ssa.Go); isGo {
				return
			}
			nCb++
			st := c.Locks().At(call.(ssa.Instruction))
			var held []string
			for k := range st {
				if !strings.HasPrefix(k, "path:") {
					held = append(held, k)
				}
			}
			sort.Strings(held)
			c.R.Check(len(held) == 0, "R-lock-order", sprintf("user callback %s in %s #%d", cb, fname(fn), nCb), c.Pos(call.Pos()), "no library lock held while user code runs",
				sprintf("%s calls user code (%s) while holding %v: a callback that re-enters the library (e.g. registers a tool) deadlocks, and a slow one stalls every request needing the lock", fname(fn), cb, held))
		})
	}
	c.R.Min("R-lock-order", 8)

	c06Growth(c, reach)
}

// c06Growth: request-path insertions into server-lifetime collections need a reachable removal.
func c06Growth(c *Ctx, reach map[*ssa.Function]bool) {
	accs := CollectAccesses(c)
	// sweepers: goroutines started by constructors
	sweep := map[*ssa.Function]bool{}
	for _, fn := range c.P.LibFns {
		if !ir.IsConstructor(ir.Outer(fn)) {
			continue
		}
		ir.EachInstr(fn, func(_ *ssa.BasicBlock, _ int, in ssa.Instruction) {
			if g, ok := in.(*ssa.Go); ok {
				for _, cal := range ir.Callees(c.G, g) {
					for f := range c.Reach(cal) {
						sweep[f] = true
					}
				}
			}
		})
	}
	type info struct {
		inserts, removals []Access
	}
	by := map[string]*info{}
	for _, a := range accs {
		if a.Local || a.Init || clientSide(c, a.Fn) {
			continue
		}
		_, isMap := a.Type.Underlying().(*types.Map)
		_, isSlice := a.Type.Underlying().(*types.Slice)
		if !isMap && !isSlice {
			continue
		}
		// per-session key/value stores live and die with their session record
		if sess := c.P.RootNamed("Session"); sess != nil && a.OwnerT != nil {
			if si, ok := sess.Underlying().(*types.Interface); ok && (types.Implements(types.NewPointer(a.OwnerT), si) || types.Implements(a.OwnerT, si)) {
				continue
			}
		}
		inf := by[a.Field]
		if inf == nil {
			inf = &info{}
			by[a.Field] = inf
		}
		switch {
		case a.Kind == "map-update" && reach[a.Fn]:
			inf.inserts = append(inf.inserts, a)
		case a.Kind == "map-delete" && (reach[a.Fn] || sweep[a.Fn]):
			inf.removals = append(inf.removals, a)
		case a.Kind == "store" && isSlice:
			// append-store = insertion; any other store (reslice / new slice) = removal
			if st, ok := a.Instr.(*ssa.Store); ok {
				if call, ok := st.Val.(*ssa.Call); ok {
					if b, ok := call.Call.Value.(*ssa.Builtin); ok && b.Name() == "append" {
						// append(s[:i], s[i+1:]...) is a removal
						if _, isReslice := call.Call.Args[0].(*ssa.Slice); isReslice {
							if reach[a.Fn] || sweep[a.Fn] {
								inf.removals = append(inf.removals, a)
							}
						} else if reach[a.Fn] {
							inf.inserts = append(inf.inserts, a)
						}
						continue
					}
				}
				if reach[a.Fn] || sweep[a.Fn] {
					inf.removals = append(inf.removals, a)
				}
			}
		}
	}
	// map values that are slices appended to (subscribers[uri] = append(...)) are map-updates: covered above
	var fields []string
	for f, inf := range by {
		if len(inf.inserts) > 0 {
			fields = append(fields, f)
		}
	}
	sort.Strings(fields)
	for _, f := range fields {
		inf := by[f]
		// registries grow by API calls of the embedding program, not by peer requests: skip fields only inserted by Register* paths
		peer := false
		for _, a := range inf.inserts {
			if !c.ReachSync(registrationAPI(c)...)[a.Fn] || requestPathOnly(c, a.Fn) {
				peer = true
			}
		}
		if !peer {
			continue
		}
		where := fname(inf.inserts[0].Fn)
		c.R.Check(len(inf.removals) > 0, "R-per-request-growth", f, c.Pos(inf.inserts[0].Pos), sprintf("%d insertion site(s), %d reachable removal site(s)", len(inf.inserts), len(inf.removals)),
			sprintf("%s (in %s) inserts into the server-lifetime collection %s for each request/session, and no removal from it is reachable from any request path or background sweeper: memory grows without bound under peer traffic", where, where, f))
	}
	c.R.Min("R-per-request-growth", 4)
}

var regAPICache []*ssa.Function

func registrationAPI(c *Ctx) []*ssa.Function {
	if regAPICache != nil {
		return regAPICache
	}
	for _, T := range c.serverTypes() {
		regAPICache = append(regAPICache, c.methodsWithPrefix(T, "Register", "Unregister")...)
	}
	return regAPICache
}

var reqOnlyCache map[*ssa.Function]bool

// requestPathOnly: fn is reachable from the server entries but not from the registration API.
func requestPathOnly(c *Ctx, fn *ssa.Function) bool {
	if reqOnlyCache == nil {
		reqOnlyCache = map[*ssa.Function]bool{}
		reg := c.ReachSync(registrationAPI(c)...)
		for f := range c.Reach(serverEntries(c)...) {
			if !reg[f] {
				reqOnlyCache[f] = true
			}
		}
	}
	return reqOnlyCache[fn]
}

// serverSendsGiveUp: every send on a shared channel made on a server path can give up — it is an arm of a select that
// also has a receive arm (done / ctx / timer) or a default. A bare or send-only select blocks its goroutine for as long
// as nobody reads: when the peer is gone, that is forever.
func serverSendsGiveUp(c *Ctx, fns []*ssa.Function, rule string) {
	// bare sends
	for _, fn := range fns {
		ir.EachInstr(fn, func(_ *ssa.BasicBlock, _ int, in ssa.Instruction) {
			if s, ok := in.(*ssa.Send); ok {
				if _, isField, _ := ir.LoadedField(s.Chan); isField != nil {
					c.R.Violate(rule, "bare send in "+fname(fn), c.Pos(s.Pos()), sprintf("%s sends on a shared channel outside a select: an absent or slow reader wedges the request path", fname(fn)))
				}
			}
		})
	}
	nSel := 0
	for _, fn := range fns {
		ir.EachInstr(fn, func(_ *ssa.BasicBlock, _ int, in ssa.Instruction) {
			sel, ok := in.(*ssa.Select)
			if !ok {
				return
			}
			hasSend, hasExit := false, !sel.Blocking
			for _, st := range sel.States {
				if st.Dir == types.SendOnly {
					hasSend = true
				} else {
					hasExit = true // a receive arm (done / ctx / timer)
				}
			}
			if !hasSend {
				return
			}
			nSel++
			c.R.Check(hasExit, rule, sprintf("send in %s #%d", fname(fn), nSel), c.Pos(sel.Pos()), "the send can give up (default arm or a done/ctx/timer arm)",
				sprintf("%s has a select that only sends: a full queue blocks the request path forever", fname(fn)))
		})
	}
}

// ---------------------------------------------------------------- R-index-guard
// strings.Split / SplitN / SplitAfter return at least one element, strings.Fields possibly none. Indexing such a
// result (peer-controlled text: header values, lines) at a constant position beyond what is guaranteed must be
// dominated by a length test; otherwise one malformed value ("q" where "q=0.5" was expected) panics the request.
func c06IndexGuard(c *Ctx, fns []*ssa.Function, rule string) {
	n := 0
	for _, fn := range fns {
		ir.EachInstr(fn, func(_ *ssa.BasicBlock, _ int, in ssa.Instruction) {
			var coll, idx ssa.Value
			switch x := in.(type) {
			case *ssa.IndexAddr:
				coll, idx = x.X, x.Index
			case *ssa.Index:
				coll, idx = x.X, x.Index
			default:
				return
			}
			k, ok := ir.ConstInt(idx)
			if !ok {
				return
			}
			oc := originCall(coll)
			if oc == nil {
				return
			}
			guaranteed := int64(-1)
			switch ir.CallName(oc) {
			case "strings.Split", "strings.SplitN", "strings.SplitAfter", "strings.SplitAfterN":
				guaranteed = 1
			case "strings.Fields", "strings.FieldsFunc":
				guaranteed = 0
			default:
				return
			}
			if k < guaranteed {
				return
			}
			n++
			guarded := false
			for _, g := range flow.Guards(fn, in.Block()) {
				bin, ok := g.If.Cond.(*ssa.BinOp)
				if !ok {
					continue
				}
				isLen := func(v ssa.Value) bool {
					lc, ok := v.(*ssa.Call)
					if !ok {
						return false
					}
					b, ok := lc.Call.Value.(*ssa.Builtin)
					return ok && b.Name() == "len" && originCall(lc.Call.Args[0]) == oc
				}
				if isLen(bin.X) || isLen(bin.Y) {
					guarded = true // some test of the length controls the access
				}
			}
			c.R.Check(guarded, rule, sprintf("element %d of a split in %s", k, fname(fn)), c.Pos(in.Pos()), "controlled by a test of the result's length",
				sprintf("%s takes element %d of the result of %s without testing its length: input without the expected separator makes it panic with 'index out of range'", fname(fn), k, ir.CallName(oc)))
		})
	}
	if n == 0 {
		c.R.Hold(rule, "no unguarded constant index into a split result", "", "")
	}
}

// watcherGoroutinesEnd (R-watcher-ends): a goroutine started to cancel a context when something longer-lived ends
// (`go func() { <-session.done; cancel() }()`) must itself end when that context ends — otherwise every request that
// derives such a context leaves one goroutine parked until the session, connection or server goes away. Every blocking
// wait of such a goroutine that precedes its cancel call therefore has an arm on the Done() channel of a context.
// Watchers are recognised by what they do: the goroutine's function calls a context.CancelFunc it did not create.
func watcherGoroutinesEnd(c *Ctx, fns []*ssa.Function, rule string) {
	n := 0
	for _, fn := range fns {
		ir.EachInstr(fn, func(_ *ssa.BasicBlock, _ int, in ssa.Instruction) {
			g, ok := in.(*ssa.Go)
			if !ok {
				return
			}
			var body *ssa.Function
			switch v := g.Call.Value.(type) {
			case *ssa.MakeClosure:
				body, _ = v.Fn.(*ssa.Function)
			case *ssa.Function:
				body = v
			}
			if body == nil || len(body.Blocks) == 0 {
				return
			}
			// does it call a cancel function it was given (free variable or parameter)?
			var cancelCall ssa.Instruction
			ir.EachCall(body, func(call ssa.CallInstruction) {
				cc := call.Common()
				if cc.IsInvoke() || ir.TypeStr(cc.Value.Type()) != "context.CancelFunc" {
					return
				}
				switch unspill(cc.Value).(type) {
				case *ssa.FreeVar, *ssa.Parameter:
					cancelCall = call
				default:
					if u, ok := cc.Value.(*ssa.UnOp); ok {
						if _, isFV := u.X.(*ssa.FreeVar); isFV {
							cancelCall = call
						}
					}
				}
			})
			if cancelCall == nil {
				return
			}
			isDone := func(ch ssa.Value) bool {
				oc := originCall(ch)
				return oc != nil && ir.CallName(oc) == "(context.Context).Done"
			}
			ir.EachInstr(body, func(_ *ssa.BasicBlock, _ int, w ssa.Instruction) {
				bare, okWait := "", true
				switch x := w.(type) {
				case *ssa.UnOp:
					if x.Op != token.ARROW {
						return
					}
					okWait = isDone(x.X)
					bare = "a bare receive"
				case *ssa.Select:
					if !x.Blocking {
						return
					}
					okWait = false
					for _, st := range x.States {
						if st.Dir == types.RecvOnly && isDone(st.Chan) {
							okWait = true
						}
					}
					bare = "a select without a ctx.Done() arm"
				default:
					return
				}
				n++
				c.R.Check(okWait, rule, sprintf("wait of the context watcher started by %s", fname(fn)), c.Pos(w.Pos()), "the watcher also ends when a context ends",
					sprintf("%s starts a goroutine that waits (%s) for something that outlives the call and then cancels a context; nothing ends that goroutine when the context itself is cancelled by its owner, so every call leaves one goroutine parked until then", fname(fn), bare))
			})
		})
	}
	if n == 0 {
		c.R.Hold(rule, "no context-watcher goroutines", "", "no goroutine of the examined code calls a cancel function it was handed")
	}
}

// interfaceKeysHashable (R-hashable-key): indexing a map whose key type is an interface panics ("hash of unhashable
// type") when the dynamic type of the key is a map or slice — which is what a JSON object or array decoded into an
// interface{} is. On server paths every key of such a map is therefore a value the code boxed itself from a hashable
// concrete type (or a constant), never an interface value taken from a decoded message.
func interfaceKeysHashable(c *Ctx, fns []*ssa.Function, rule string) {
	var hashable func(fn *ssa.Function, v ssa.Value, d int) bool
	concreteOK := func(t types.Type) bool {
		if _, isIface := t.Underlying().(*types.Interface); isIface {
			return false
		}
		return types.Comparable(t)
	}
	hashable = func(fn *ssa.Function, v ssa.Value, d int) bool {
		if d > 8 {
			return false
		}
		switch x := v.(type) {
		case *ssa.Const:
			return true
		case *ssa.UnOp:
			// a key record built in place: every interface-typed member it is given is hashable
			al, ok := x.X.(*ssa.Alloc)
			if !ok || x.Op != token.MUL {
				return false
			}
			if _, isStruct := x.Type().Underlying().(*types.Struct); !isStruct {
				return false
			}
			for _, r := range *al.Referrers() {
				fa, ok := r.(*ssa.FieldAddr)
				if !ok {
					continue
				}
				for _, u := range *fa.Referrers() {
					if st, ok := u.(*ssa.Store); ok && st.Addr == ssa.Value(fa) && keyHasInterface(st.Val.Type()) {
						if !hashable(fn, st.Val, d+1) {
							return false
						}
					}
				}
			}
			return true
		case *ssa.Call:
			// a library function that makes the key (or canonicalises an id): every value it returns is hashable
			sc := ir.StaticCallee(x)
			if sc == nil || !c.P.IsLib(sc) || sc.Blocks == nil || sc.Signature.Results().Len() != 1 {
				return false
			}
			for _, b := range sc.Blocks {
				if ret, ok := b.Instrs[len(b.Instrs)-1].(*ssa.Return); ok {
					for _, res := range ir.Results(ret) {
						if !hashable(sc, res, d+1) {
							return false
						}
					}
				}
			}
			return true
		case *ssa.MakeInterface:
			return concreteOK(x.X.Type())
		case *ssa.ChangeInterface:
			return hashable(fn, x.X, d+1)
		case *ssa.Phi:
			for _, e := range x.Edges {
				if !hashable(fn, e, d+1) {
					return false
				}
			}
			return true
		case *ssa.Parameter:
			idx := -1
			for i, p := range fn.Params {
				if p == x {
					idx = i
				}
			}
			callers := 0
			for _, e := range ir.Callers(c.G, fn) {
				if e.Site == nil || !c.P.IsLib(e.Caller.Func) {
					continue
				}
				args := e.Site.Common().Args
				off := 0
				if e.Site.Common().IsInvoke() {
					off = 1
				}
				if idx-off < 0 || idx-off >= len(args) {
					return false
				}
				callers++
				if !hashable(e.Caller.Func, args[idx-off], d+1) {
					return false
				}
			}
			return callers > 0
		}
		return false
	}
	n := 0
	for _, fn := range fns {
		cnt := 0
		ir.EachInstr(fn, func(_ *ssa.BasicBlock, _ int, in ssa.Instruction) {
			var m, key ssa.Value
			what := ""
			switch x := in.(type) {
			case *ssa.Lookup:
				m, key, what = x.X, x.Index, "lookup"
			case *ssa.MapUpdate:
				m, key, what = x.Map, x.Key, "update"
			case *ssa.Call:
				if b, ok := x.Call.Value.(*ssa.Builtin); ok && b.Name() == "delete" && len(x.Call.Args) == 2 {
					m, key, what = x.Call.Args[0], x.Call.Args[1], "delete"
				}
			}
			if m == nil {
				return
			}
			mt, ok := m.Type().Underlying().(*types.Map)
			if !ok {
				return
			}
			if !keyHasInterface(mt.Key()) {
				return
			}
			n++
			cnt++
			c.R.Check(hashable(fn, key, 0), rule, sprintf("%s #%d on a map keyed by an interface in %s", what, cnt, fname(fn)), c.Pos(in.Pos()),
				"the key is boxed from a hashable concrete type",
				sprintf("%s indexes a map whose key type is an interface (%s) with a value that is not known to be hashable: a JSON array or object decoded into that interface (an id, a requestId) makes the runtime panic with 'hash of unhashable type'", fname(fn), ir.TypeStr(mt.Key())))
		})
	}
	if n == 0 {
		c.R.Hold(rule, "no map keyed by an interface type on server paths", "", "")
	}
}

// keyHasInterface: a map key of this type is hashed through a dynamic type — an interface, or a record/array holding one.
func keyHasInterface(t types.Type) bool {
	switch u := t.Underlying().(type) {
	case *types.Interface:
		return true
	case *types.Struct:
		for i := 0; i < u.NumFields(); i++ {
			if keyHasInterface(u.Field(i).Type()) {
				return true
			}
		}
	case *types.Array:
		return keyHasInterface(u.Elem())
	}
	return false
}

// nilableMembers (R-nil-member): a member of interface or pointer type that some function explicitly sets to nil after
// construction (an option such as "without sessions") is nil in a supported configuration. On server paths every method
// call through such a member is therefore (a) control dependent on a nil test of the member, or on a boolean member
// that every nil-setting function switches off alongside, or (b) preceded in the same function by another call through
// the member (which would have failed first), or (c) in a function all of whose library call sites satisfy (a)/(b).
// A request that reaches an unguarded call panics the handler goroutine (net/http aborts the connection; the legacy
// SSE and stdio servers die).
func nilableMembers(c *Ctx, fns []*ssa.Function, rule string) {
	// F -> flags switched off together with it
	nilled := map[string]map[string]bool{}
	for _, fn := range c.P.LibFns {
		var nilKeys, falseKeys []string
		ir.EachInstr(fn, func(_ *ssa.BasicBlock, _ int, in ssa.Instruction) {
			st, ok := in.(*ssa.Store)
			if !ok {
				return
			}
			fa, ok := st.Addr.(*ssa.FieldAddr)
			if !ok {
				return
			}
			key, _, typ, base := ir.FullField(fa)
			if key == "" || ir.BaseAlloc(base) {
				return
			}
			if ir.IsNilConst(st.Val) {
				switch typ.Underlying().(type) {
				case *types.Interface, *types.Pointer:
					nilKeys = append(nilKeys, key)
				}
			}
			if cst, ok := st.Val.(*ssa.Const); ok && cst.Value != nil && cst.Value.String() == "false" {
				falseKeys = append(falseKeys, key)
			}
		})
		for _, k := range nilKeys {
			fl := map[string]bool{}
			for _, f := range falseKeys {
				fl[f] = true
			}
			if prev, ok := nilled[k]; ok {
				for f := range prev {
					if !fl[f] {
						delete(prev, f)
					}
				}
			} else {
				nilled[k] = fl
			}
		}
	}
	derefs := func(fn *ssa.Function) []ssa.CallInstruction {
		var out []ssa.CallInstruction
		ir.EachCall(fn, func(call ssa.CallInstruction) {
			cc := call.Common()
			var recv ssa.Value
			if cc.IsInvoke() {
				recv = cc.Value
			} else if sc := ir.StaticCallee(call); sc != nil && sc.Signature.Recv() != nil && len(cc.Args) > 0 {
				recv = cc.Args[0]
			}
			if recv == nil {
				return
			}
			if u, ok := recv.(*ssa.UnOp); ok {
				if fa, ok := u.X.(*ssa.FieldAddr); ok {
					if key, _, _, _ := ir.FullField(fa); nilled[key] != nil {
						out = append(out, call)
					}
				}
			}
		})
		return out
	}
	keyOf := func(call ssa.CallInstruction) string {
		cc := call.Common()
		recv := cc.Value
		if !cc.IsInvoke() {
			recv = cc.Args[0]
		}
		key, _, _, _ := ir.FullField(recv.(*ssa.UnOp).X.(*ssa.FieldAddr))
		return key
	}
	pds := map[*ssa.Function]*flow.PostDom{}
	var guardedAt func(fn *ssa.Function, at ssa.Instruction, key string, d int) bool
	guardedAt = func(fn *ssa.Function, at ssa.Instruction, key string, d int) bool {
		if pds[fn] == nil {
			pds[fn] = flow.NewPostDom(fn)
		}
		for _, g := range pds[fn].ControlDepsTransitive(at.Block()) {
			cond, want := g.If.Cond, g.Branch
			for {
				if u, ok := cond.(*ssa.UnOp); ok && u.Op == token.NOT {
					cond, want = u.X, !want
					continue
				}
				break
			}
			if bin, ok := cond.(*ssa.BinOp); ok {
				v, other := bin.X, bin.Y
				if ir.IsNilConst(v) {
					v, other = other, v
				}
				if f, _, ok := ir.LoadedField(v); ok && ir.IsNilConst(other) && f.Key() == key {
					if bin.Op == token.NEQ && want || bin.Op == token.EQL && !want {
						return true
					}
				}
			}
			if f, _, ok := ir.LoadedField(cond); ok && nilled[key][f.Key()] && want {
				return true
			}
		}
		// ... or on the ok-edge of a check-and-report helper that establishes the flag
		for _, ff := range boolFieldFacts(c, fn, at.Block(), 0) {
			if ff.Value && nilled[key][ff.Field] {
				return true
			}
		}
		// an earlier call through the same member on every path to here
		for _, dc := range derefs(fn) {
			if dc != at.(ssa.CallInstruction) && keyOf(dc) == key && flow.Dominates(dc.(ssa.Instruction), at) {
				return true
			}
		}
		if d >= 2 {
			return false
		}
		nCallers := 0
		for _, e := range ir.Callers(c.G, fn) {
			if e.Site == nil || !c.P.IsLib(e.Caller.Func) {
				continue
			}
			nCallers++
			if !guardedAt(e.Caller.Func, e.Site, key, d+1) {
				return false
			}
		}
		return nCallers > 0
	}
	n := 0
	for _, fn := range fns {
		if c.InitOnly()[fn] {
			continue
		}
		cnt := map[string]int{}
		for _, call := range derefs(fn) {
			key := keyOf(call)
			n++
			cnt[key]++
			ok := guardedAt(fn, call.(ssa.Instruction), key, 0)
			var flags []string
			for f := range nilled[key] {
				flags = append(flags, f)
			}
			sort.Strings(flags)
			c.R.Check(ok, rule, sprintf("call #%d through %s in %s", cnt[key], key, fname(fn)), c.Pos(call.Pos()),
				"guarded by a nil test, the accompanying flag, or an earlier call through the member",
				sprintf("%s calls a method through %s, which a supported configuration sets to nil, without testing it (or %v, switched off with it): a request that reaches this call panics with a nil dereference instead of being answered with an HTTP error", fname(fn), key, flags))
		}
	}
	var ks []string
	for k := range nilled {
		ks = append(ks, k)
	}
	sort.Strings(ks)
	c.R.Extra["members_set_to_nil_by_configuration"] = ks
	if n == 0 {
		c.R.Hold(rule, "no calls through members that a configuration sets to nil", "", sprintf("%v", ks))
	}
}

// lookupOKConsulted (R-ok-consulted): a library lookup reports absence through its boolean result. Where the value is
// used and the boolean is thrown away (`v, _ := lookup(k)`), absence is judged by `v == nil` — which is false for an
// interface that holds a typed nil pointer, as the session managers return for an unknown id: the handler goes on with
// a nil session and panics instead of answering 404. On server paths the boolean of such a call is never discarded
// while the value is used.
func lookupOKConsulted(c *Ctx, fns []*ssa.Function, rule string) {
	n := 0
	for _, fn := range fns {
		cnt := 0
		ir.EachInstr(fn, func(_ *ssa.BasicBlock, _ int, in ssa.Instruction) {
			call, ok := in.(*ssa.Call)
			if !ok || call.Referrers() == nil {
				return
			}
			sig := call.Call.Signature()
			if sig == nil || sig.Results().Len() != 2 || ir.TypeStr(sig.Results().At(1).Type()) != "bool" {
				return
			}
			switch sig.Results().At(0).Type().Underlying().(type) {
			case *types.Interface, *types.Pointer:
			default:
				return
			}
			// library lookups only (interface methods declared in the library, or library functions)
			lib := false
			if call.Call.IsInvoke() {
				lib = call.Call.Method.Pkg() != nil && strings.HasPrefix(call.Call.Method.Pkg().Path(), ir.RootPath)
			} else if sc := ir.StaticCallee(call); sc != nil {
				lib = c.P.IsLib(sc)
			}
			if !lib {
				return
			}
			valUsed, okUsed := false, false
			for _, r := range *call.Referrers() {
				if ex, ok := r.(*ssa.Extract); ok && ex.Referrers() != nil && len(*ex.Referrers()) > 0 {
					if ex.Index == 0 {
						valUsed = true
					} else {
						okUsed = true
					}
				}
			}
			if !valUsed {
				return
			}
			n++
			cnt++
			c.R.Check(okUsed, rule, sprintf("found-flag of lookup #%d in %s", cnt, fname(fn)), c.Pos(call.Pos()), "the boolean result is consulted",
				sprintf("%s uses the value of a library lookup (%s) but discards its found-flag: absence can then only be judged by comparing the value with nil, which is false for an interface holding a typed nil pointer — an unknown id is taken for a hit and the handler dereferences nil", fname(fn), ir.CallName(call)))
		})
	}
	c.R.Min(rule, 3)
}

// ---------------------------------------------------------------- R-nil-map-write
// Writing into a nil map panics. On the server a map that comes out of a peer's message is nil whenever the peer left
// the member out ("arguments" absent or null), and a panic in a request goroutine of the legacy SSE or stdio server
// takes the whole process down. Every map update on the server side must therefore be made on a map that cannot be nil
// there: one the function made, a member of a long-lived object, or a value whose nil-ness was tested — not the zero
// value of a member of a request-local struct that is only assigned on some paths, nor the unchecked result of a type
// assertion. A function that writes into a map parameter hands the obligation to its callers.
func c06NilMapWrite(c *Ctx) {
	var mayBeNil func(fn *ssa.Function, v ssa.Value, at ssa.Instruction, d int) string
	mayBeNil = func(fn *ssa.Function, v ssa.Value, at ssa.Instruction, d int) string {
		if d > 3 || v == nil {
			return ""
		}
		// a dominating nil test of this very value clears it
		for _, g := range flow.Guards(fn, at.Block()) {
			if x, op, ok := nilCompare(g.If.Cond); ok && (x == v || sameValue(x, v) || samePath(x, v, 0)) {
				if (op == token.NEQ && g.Branch) || (op == token.EQL && !g.Branch) {
					return ""
				}
			}
		}
		switch x := v.(type) {
		case *ssa.Const:
			if x.IsNil() {
				return "a nil map"
			}
		case *ssa.Phi:
			for _, e := range x.Edges {
				if w := mayBeNil(fn, e, at, d+1); w != "" {
					return w
				}
			}
		case *ssa.Extract:
			if ta, ok := x.Tuple.(*ssa.TypeAssert); ok && ta.CommaOk && x.Index == 0 {
				// the asserted value is nil when the assertion failed: the use must be on the ok edge
				var okv ssa.Value
				for _, r := range *ta.Referrers() {
					if ex, ok := r.(*ssa.Extract); ok && ex.Index == 1 {
						okv = ex
					}
				}
				for _, g := range flow.Guards(fn, at.Block()) {
					if okv != nil && g.If.Cond == okv && g.Branch {
						return ""
					}
				}
				return "the result of a type assertion that may have failed"
			}
		case *ssa.UnOp:
			if x.Op != token.MUL {
				return ""
			}
			fa, ok := x.X.(*ssa.FieldAddr)
			if !ok {
				return ""
			}
			root := rootOf(fa.X)
			var al ssa.Value
			if a, ok := root.(*ssa.Alloc); ok {
				al = a
			} else if p, ok := root.(*ssa.Parameter); ok && fn.Name() == "UnmarshalJSON" && fn.Signature.Recv() != nil && len(fn.Params) > 0 && p == fn.Params[0] {
				// the receiver of a json.Unmarshaler is a value the decoder has just allocated: its members are what
				// this very method makes of them
				al = p
			} else {
				return "" // a member of an object that outlives the call: initialised by its constructor
			}
			// a member of a struct local to this function: some store to that member must dominate the use
			fr, _, _ := ir.FieldOf(fa)
			stored := false
			ir.EachInstr(fn, func(_ *ssa.BasicBlock, _ int, in ssa.Instruction) {
				st, ok := in.(*ssa.Store)
				if !ok {
					return
				}
				if fa2, ok := st.Addr.(*ssa.FieldAddr); ok && rootOf(fa2.X) == al {
					if fr2, _, _ := ir.FieldOf(fa2); fr2.Name == fr.Name && flow.Dominates(st, at) {
						if k, isConst := st.Val.(*ssa.Const); !isConst || !k.IsNil() {
							stored = true
						}
					}
					// `if x.m == nil { x.m = make(…) }` before the use: non-nil on both edges
					if fr2, _, _ := ir.FieldOf(fa2); fr2.Name == fr.Name {
						if k, isConst := st.Val.(*ssa.Const); !isConst || !k.IsNil() {
							for _, g := range flow.Guards(fn, st.Block()) {
								gv, op, ok := nilCompare(g.If.Cond)
								if !ok || (op == token.EQL) != g.Branch || !flow.Dominates(g.If, at) {
									continue
								}
								if gl, ok := gv.(*ssa.UnOp); ok {
									if gfa, ok := gl.X.(*ssa.FieldAddr); ok && rootOf(gfa.X) == al {
										if gfr, _, _ := ir.FieldOf(gfa); gfr.Name == fr.Name {
											stored = true
										}
									}
								}
							}
						}
					}
				}
				// the whole struct stored at once (composite literal / copy)
				if st.Addr == al && flow.Dominates(st, at) {
					if _, isAlloc := st.Val.(*ssa.Alloc); !isAlloc {
						stored = true
					}
				}
			})
			// … or a helper method of the record, called before the use, allocates the member (ensureMaps())
			if !stored {
				ir.EachInstr(fn, func(_ *ssa.BasicBlock, _ int, in ssa.Instruction) {
					cl, ok := in.(*ssa.Call)
					if !ok || stored || !flow.Dominates(cl, at) {
						return
					}
					sc := ir.StaticCallee(cl)
					if sc == nil || !c.P.IsLib(sc) || sc.Blocks == nil {
						return
					}
					for ai, a := range cl.Call.Args {
						if rootOf(a) != al || ai >= len(sc.Params) {
							continue
						}
						p := sc.Params[ai]
						ir.EachInstr(sc, func(_ *ssa.BasicBlock, _ int, hin ssa.Instruction) {
							hs, ok := hin.(*ssa.Store)
							if !ok {
								return
							}
							hfa, ok := hs.Addr.(*ssa.FieldAddr)
							if !ok || rootOf(hfa.X) != ssa.Value(p) {
								return
							}
							if hfr, _, _ := ir.FieldOf(hfa); hfr.Name != fr.Name {
								return
							}
							if k, isConst := hs.Val.(*ssa.Const); isConst && k.IsNil() {
								return
							}
							if hs.Block() == sc.Blocks[0] {
								stored = true
								return
							}
							// `if p.m == nil { p.m = make(…) }` with nothing else deciding
							gs := flow.Guards(sc, hs.Block())
							if len(gs) == 1 {
								if gv, op, ok := nilCompare(gs[0].If.Cond); ok && (op == token.EQL) == gs[0].Branch {
									if gl, ok := gv.(*ssa.UnOp); ok {
										if gfa, ok := gl.X.(*ssa.FieldAddr); ok && rootOf(gfa.X) == ssa.Value(p) {
											if gfr, _, _ := ir.FieldOf(gfa); gfr.Name == fr.Name {
												stored = true
											}
										}
									}
								}
							}
						})
					}
				})
			}
			if !stored {
				return sprintf("the member %s of a local value, which is assigned only on some paths (it stays nil when the peer leaves the member out)", fr.Name)
			}
		case *ssa.Parameter:
			idx := -1
			for i, q := range fn.Params {
				if q == x {
					idx = i
				}
			}
			for _, e := range ir.Callers(c.G, fn) {
				if e.Site == nil || !c.P.IsLib(e.Caller.Func) || clientSide(c, e.Caller.Func) {
					continue
				}
				cc := e.Site.Common()
				ai := idx
				if cc.IsInvoke() {
					ai--
				}
				if ai < 0 || ai >= len(cc.Args) {
					continue
				}
				if w := mayBeNil(e.Caller.Func, cc.Args[ai], e.Site, d+1); w != "" {
					return w + " (handed in by " + fname(e.Caller.Func) + ")"
				}
			}
		}
		return ""
	}
	n := 0
	for _, fn := range c.P.LibFns {
		if clientSide(c, fn) || c.InitOnly()[fn] {
			continue
		}
		cnt := 0
		ir.EachInstr(fn, func(_ *ssa.BasicBlock, _ int, in ssa.Instruction) {
			mu, ok := in.(*ssa.MapUpdate)
			if !ok {
				return
			}
			if _, isMake := mu.Map.(*ssa.MakeMap); isMake {
				return
			}
			n++
			cnt++
			why := mayBeNil(fn, mu.Map, in, 0)
			c.R.Check(why == "", "R-nil-map-write", sprintf("map update #%d in %s", cnt, fname(fn)), c.Pos(mu.Pos()), "the map cannot be nil here",
				sprintf("%s writes into a map that may be nil — %s: `assignment to entry in nil map` panics, and a panic in a request goroutine of the legacy SSE or stdio server ends the process for every client", fname(fn), why))
		})
	}
	c.R.Min("R-nil-map-write", 10)
	if n == 0 {
		c.R.Break("R-nil-map-write: no map update found on the server side")
	}
}

// ---------------------------------------------------------------- R-deliver-nonnil
// What a peer's message makes the server hand to a goroutine waiting for an answer is dereferenced there
// (`json.Unmarshal(*response, …)`). A pointer delivered on such a channel (chan *json.RawMessage) must therefore be
// non-nil whatever the peer sent: the address of a local, or a value whose nil-ness was tested — not the result of a
// helper that returns nil for an answer with neither result nor error.
func c06DeliverNonNil(c *Ctx) {
	var mayBeNil func(fn *ssa.Function, v ssa.Value, at ssa.Instruction, d int, seen map[ssa.Value]bool) string
	mayBeNil = func(fn *ssa.Function, v ssa.Value, at ssa.Instruction, d int, seen map[ssa.Value]bool) string {
		if v == nil || d > 5 || seen[v] {
			return ""
		}
		seen[v] = true
		if at != nil {
			for _, g := range flow.Guards(fn, at.Block()) {
				if x, op, ok := nilCompare(g.If.Cond); ok && (x == v || sameValue(x, v)) {
					if (op == token.NEQ && g.Branch) || (op == token.EQL && !g.Branch) {
						return ""
					}
				}
			}
		}
		switch x := v.(type) {
		case *ssa.Const:
			if x.IsNil() {
				return "nil"
			}
		case *ssa.Alloc:
			return ""
		case *ssa.Phi:
			for _, e := range x.Edges {
				if w := mayBeNil(fn, e, nil, d+1, seen); w != "" {
					return w
				}
			}
		case *ssa.Extract:
			return mayBeNil(fn, x.Tuple, at, d+1, seen)
		case *ssa.UnOp:
			if u := unspill(x); u != ssa.Value(x) {
				return mayBeNil(fn, u, at, d+1, seen)
			}
		case *ssa.Call:
			sc := ir.StaticCallee(x)
			if sc == nil || !c.P.IsLib(sc) || sc.Blocks == nil {
				return ""
			}
			for _, b := range sc.Blocks {
				ret, ok := b.Instrs[len(b.Instrs)-1].(*ssa.Return)
				if !ok || b == sc.Recover || len(ret.Results) == 0 {
					continue
				}
				rs := ir.Results(ret)
				// a nil pointer returned together with a non-nil error is the failure exit; (nil, nil) is not
				if len(rs) == 2 && ir.TypeStr(rs[1].Type()) == "error" && !ir.IsNilConst(rs[1]) {
					continue
				}
				// ... and so is nil returned together with ok == false
				if len(rs) == 2 {
					if k, ok := rs[1].(*ssa.Const); ok && k.Value != nil && k.Value.String() == "false" {
						continue
					}
				}
				if w := mayBeNil(sc, rs[0], ret, d+1, seen); w != "" {
					return "the result of " + fname(sc) + ", which can return nil without an error"
				}
			}
		case *ssa.Parameter:
			idx := -1
			for i, q := range fn.Params {
				if q == x {
					idx = i
				}
			}
			for _, e := range ir.Callers(c.G, fn) {
				if e.Site == nil || !c.P.IsLib(e.Caller.Func) || clientSide(c, e.Caller.Func) {
					continue
				}
				cc := e.Site.Common()
				ai := idx
				if cc.IsInvoke() {
					ai--
				}
				if ai >= 0 && ai < len(cc.Args) {
					if w := mayBeNil(e.Caller.Func, cc.Args[ai], e.Site, d+1, seen); w != "" {
						return w + " (handed in by " + fname(e.Caller.Func) + ")"
					}
				}
			}
		}
		return ""
	}
	n := 0
	for _, fn := range c.P.LibFns {
		if clientSide(c, fn) {
			continue
		}
		ir.EachInstr(fn, func(_ *ssa.BasicBlock, _ int, in ssa.Instruction) {
			var sent []ssa.Value
			switch x := in.(type) {
			case *ssa.Send:
				sent = append(sent, x.X)
			case *ssa.Select:
				for _, st := range x.States {
					if st.Dir == types.SendOnly {
						sent = append(sent, st.Send)
					}
				}
			}
			for _, v := range sent {
				if ir.TypeStr(v.Type()) != "*encoding/json.RawMessage" {
					continue
				}
				n++
				why := mayBeNil(fn, v, in, 0, map[ssa.Value]bool{})
				c.R.Check(why == "", "R-deliver-nonnil", sprintf("answer delivered by %s", fname(fn)), c.Pos(in.Pos()), "the delivered pointer cannot be nil",
					sprintf("%s delivers to a waiting goroutine a *json.RawMessage that may be %s: the waiter dereferences it, and a nil-pointer panic in a request goroutine of the stdio or legacy SSE server ends the process — a peer answering a server request with neither result nor error is enough", fname(fn), why))
			}
		})
	}
	if n < 2 {
		c.R.Break("R-deliver-nonnil: only %d deliveries of an answer pointer found on the server side", n)
	}
}

// ---------------------------------------------------------------- R-disconnect-observed
// A handler that keeps a connection open waits for its end; the peer going away ends the REQUEST's context. The wait
// of an HTTP handler (a receive or blocking select on some context's Done() in a function that has the *http.Request)
// must therefore include the Done() of a context that is r.Context() or derived from it by library code alone. A
// context that a user-supplied function returned need not be a child of the request's context: waiting only on that
// leaves the handler, its writer goroutines and the session behind after every disconnect.
func c06DisconnectObserved(c *Ctx) {
	w := &ctxWalker{c: c, strict: true, pass: func(call *ssa.Call) bool { return ir.CallName(call) == "(*net/http.Request).Context" }}
	n := 0
	for _, fn := range c.P.LibFns {
		if clientSide(c, fn) {
			continue
		}
		hasReq := false
		for _, p := range fn.Params {
			if ir.TypeStr(p.Type()) == "*net/http.Request" {
				hasReq = true
			}
		}
		if !hasReq {
			continue
		}
		ir.EachInstr(fn, func(_ *ssa.BasicBlock, _ int, in ssa.Instruction) {
			var dones []ssa.Value
			switch x := in.(type) {
			case *ssa.UnOp:
				if x.Op == token.ARROW {
					if oc := originCall(x.X); oc != nil && ir.CallName(oc) == "(context.Context).Done" {
						dones = append(dones, oc.Call.Value)
					}
				}
			case *ssa.Select:
				if !x.Blocking {
					return
				}
				for _, st := range x.States {
					if oc := originCall(st.Chan); oc != nil && ir.CallName(oc) == "(context.Context).Done" {
						dones = append(dones, oc.Call.Value)
					}
				}
			}
			if len(dones) == 0 {
				return
			}
			n++
			ok, why := false, ""
			for _, d := range dones {
				if good, wy := w.descends(fn, d, 0, map[ctxKey]bool{}); good {
					ok = true
				} else {
					why = wy
				}
			}
			c.R.Check(ok, "R-disconnect-observed", sprintf("wait of the handler %s", fname(fn)), c.Pos(in.Pos()), "one arm is the Done() of the request's own context (or of a library-made child of it)",
				sprintf("%s waits for the end of its connection only on contexts that are not known to end with the request (%s): when the peer disconnects the handler stays blocked, and the goroutines and the session it owns are never released", fname(fn), why))
		})
	}
	if n < 1 {
		c.R.Break("R-disconnect-observed: no wait on a context found in HTTP handlers")
	}
}
