package rules

import (
	"go/token"
	"go/types"
	"sort"
	"strings"

	"golang.org/x/tools/go/ssa"

	"verif/checker/flow"
	"verif/checker/ir"
)

// C05 — server-initiated traffic reaches exactly the addressed session.
//
//   R-route            in a send primitive addressed by a session-id parameter, the stream written to / the queue
//                      sent on is obtained from the table lookup keyed by that very parameter
//   R-count            broadcast / filtered send count a session as reached only on the nil-error edge of its send,
//                      as failed only on the other edge, send once per iteration and return the success counter
//   R-answer-session   where a client's posted answer is matched with a pending server request, the posting
//                      session takes part in the match (in the key or in a comparison guarding delivery)
//   R-guard-settable   a per-session flag that gates delivery has a setter some entry point reaches
//   R-single-consumer  each per-session outbound channel is received from in exactly one function, which is
//                      started once per session with `go`
//   R-pending-pair     a pending-request entry is registered before the request is transmitted and is removed on
//                      every path to the registering function's exit
func init() { Registry["C05"] = checkC05 }

// pendingTables: map fields whose values are channels (or interface{} holding them) registered per server->client request.
func pendingInserts(c *Ctx, serverOnly bool) map[string][]*ssa.MapUpdate {
	out := map[string][]*ssa.MapUpdate{}
	for _, fn := range c.P.LibFns {
		if serverOnly && clientSide(c, fn) {
			continue
		}
		ir.EachInstr(fn, func(_ *ssa.BasicBlock, _ int, in ssa.Instruction) {
			mu, ok := in.(*ssa.MapUpdate)
			if !ok {
				return
			}
			f, base, ok := ir.LoadedField(mu.Map)
			if !ok || ir.BaseAlloc(base) {
				return
			}
			v := ir.Unwrap(mu.Value)
			_, isChan := v.Type().Underlying().(*types.Chan)
			// a record holding the channel
			if !isChan {
				if al, ok := v.(*ssa.Alloc); ok {
					if st, ok := al.Type().(*types.Pointer).Elem().Underlying().(*types.Struct); ok {
						for i := 0; i < st.NumFields(); i++ {
							if _, c2 := st.Field(i).Type().Underlying().(*types.Chan); c2 {
								isChan = true
							}
						}
					}
				}
			}
			if isChan {
				out[f.Key()] = append(out[f.Key()], mu)
			}
		})
	}
	return out
}

func checkC05(c *Ctx) {
	c.R.Explanation = "Static check of the server-initiated traffic paths of the three servers: provenance of the stream/queue a send primitive uses (must come from the lookup keyed by the addressed session id), " +
		"counter discipline of broadcast/filtered sends (control dependence on the send's error), participation of the posting session in matching an answer to a pending request, reachability of delivery-gating flags' setters, " +
		"single consumer per outbound channel, and pending-entry pairing on all paths."
	c.R.NotDecided = "exactly-once delivery over a real network; payload-size effects; ordering beyond 'one FIFO channel, one consumer'"
	c.R.Assumptions = []string{"Go channels are FIFO; a single consumer goroutine preserves the sending order"}
	c05Route(c)
	c05Count(c)
	c05Answer(c)
	c05Settable(c)
	c05Consumer(c)
	c05Pending(c)
	// delivered "once, in sending order": concurrent sends to one session must not interleave on its stream
	streamWriteLocked(c, "R-stream-locked", true)
	c.R.Min("R-stream-locked", 2)
	// "exactly the addressed session": a per-session goroutine must work on its own iteration's session
	c05LoopCapture(c, "R-loop-capture")
	c05PendingKey(c)
}

// ---------------------------------------------------------------- R-route
// deliveryTargets: the delivery actions of fn — sends on a channel field of a record, calls handing a writer field of a
// record to a callee — as (instruction, record, kind). Calls to library helpers that deliver on one of their own
// parameters (one level) count as delivering on the argument.
type delivery struct {
	at     ssa.Instruction
	target ssa.Value
	what   string
}

func deliveriesOf(c *Ctx, fn *ssa.Function, depth int) []delivery {
	var out []delivery
	ir.EachInstr(fn, func(_ *ssa.BasicBlock, _ int, in ssa.Instruction) {
		switch x := in.(type) {
		case *ssa.Select:
			for _, st := range x.States {
				if st.Dir == types.SendOnly {
					if _, base, ok := ir.LoadedField(st.Chan); ok {
						out = append(out, delivery{in, base, "queue"})
					}
				}
			}
		case *ssa.Call:
			direct := false
			for _, a := range x.Call.Args {
				if f, base, ok := ir.LoadedField(a); ok && isWriterType(f.Type) {
					out = append(out, delivery{in, base, "stream"})
					direct = true
				}
			}
			if direct || depth > 0 {
				return
			}
			sc := ir.StaticCallee(x)
			if sc == nil || !c.P.IsLib(sc) || sc == fn {
				return
			}
			for _, d := range deliveriesOf(c, sc, depth+1) {
				for i, p := range sc.Params {
					if derivesFromAny(d.target, []ssa.Value{p}, 0) && i < len(x.Call.Args) {
						out = append(out, delivery{in, x.Call.Args[i], d.what})
					}
				}
			}
		}
	})
	return out
}

// keyedLookups: values of fn obtained from a table lookup keyed by parameter p — directly, or through a library helper
// that is handed p, looks it up in a table field and returns what it found.
func keyedLookups(c *Ctx, fn *ssa.Function, p *ssa.Parameter, depth int) []ssa.Value {
	var lookups []ssa.Value
	ir.EachInstr(fn, func(_ *ssa.BasicBlock, _ int, in ssa.Instruction) {
		switch x := in.(type) {
		case *ssa.Lookup:
			if x.Index == ssa.Value(p) {
				if _, _, ok := ir.LoadedField(x.X); ok {
					lookups = append(lookups, x)
				}
			}
		case *ssa.Call:
			if ir.CallName(x) == "(*sync.Map).Load" && len(x.Call.Args) == 2 && ir.Unwrap(x.Call.Args[1]) == ssa.Value(p) {
				lookups = append(lookups, x)
				return
			}
			if depth > 0 {
				return
			}
			sc := ir.StaticCallee(x)
			if sc == nil || !c.P.IsLib(sc) || sc == fn {
				return
			}
			for i, a := range x.Call.Args {
				if a != ssa.Value(p) || i >= len(sc.Params) {
					continue
				}
				inner := keyedLookups(c, sc, sc.Params[i], depth+1)
				if len(inner) == 0 {
					continue
				}
				returnsIt := false
				ir.EachInstr(sc, func(_ *ssa.BasicBlock, _ int, in2 ssa.Instruction) {
					if r, ok := in2.(*ssa.Return); ok {
						for _, rv := range ir.Results(r) {
							if derivesFromAny(rv, inner, 0) {
								returnsIt = true
							}
						}
					}
				})
				if returnsIt {
					lookups = append(lookups, x)
				}
			}
		}
	})
	return lookups
}

func c05Route(c *Ctx) {
	n := 0
	for _, fn := range c.P.LibFns {
		if clientSide(c, fn) {
			continue
		}
		// a string parameter used as the key of a table lookup
		for _, p := range fn.Params {
			if b, ok := p.Type().Underlying().(*types.Basic); !ok || b.Kind() != types.String {
				continue
			}
			lookups := keyedLookups(c, fn, p, 0)
			if len(lookups) == 0 {
				continue
			}
			for _, d := range deliveriesOf(c, fn, 0) {
				n++
				from := derivesFromAny(d.target, lookups, 0)
				key := sprintf("%s of %s addressed by %s #%d", d.what, fname(fn), p.Name(), n)
				c.R.Check(from, "R-route", key, c.Pos(d.at.Pos()), "obtained from the lookup keyed by the addressed session id",
					sprintf("%s delivers on a %s that does not come from the table lookup keyed by its session-id parameter %q: traffic can reach another session", fname(fn), d.what, p.Name()))
			}
		}
	}
	c.R.Min("R-route", 4)
}

func derivesFromAny(v ssa.Value, srcs []ssa.Value, d int) bool {
	if d > 8 || v == nil {
		return false
	}
	for _, s := range srcs {
		if v == s {
			return true
		}
	}
	switch x := v.(type) {
	case *ssa.Extract:
		return derivesFromAny(x.Tuple, srcs, d+1)
	case *ssa.TypeAssert:
		return derivesFromAny(x.X, srcs, d+1)
	case *ssa.UnOp:
		return derivesFromAny(x.X, srcs, d+1)
	case *ssa.FieldAddr:
		return derivesFromAny(x.X, srcs, d+1)
	case *ssa.Phi:
		for _, e := range x.Edges {
			if derivesFromAny(e, srcs, d+1) {
				return true
			}
		}
	case *ssa.MakeInterface:
		return derivesFromAny(x.X, srcs, d+1)
	}
	return false
}

// ---------------------------------------------------------------- R-count
func c05Count(c *Ctx) {
	n := 0
	for _, fn := range c.P.LibFns {
		res := fn.Signature.Results()
		if res.Len() != 3 || ir.TypeStr(res.At(0).Type()) != "int" || ir.TypeStr(res.At(1).Type()) != "int" || ir.TypeStr(res.At(2).Type()) != "error" {
			continue
		}
		// the per-session send inside a loop
		var sends []*ssa.Call
		ir.EachInstr(fn, func(_ *ssa.BasicBlock, _ int, in ssa.Instruction) {
			call, ok := in.(*ssa.Call)
			if !ok || !flow.InCycle(call.Block()) {
				return
			}
			if ir.TypeStr(call.Type()) == "error" {
				if sc := ir.StaticCallee(call); sc != nil && c.P.IsLib(sc) {
					sends = append(sends, call)
				}
			}
		})
		if len(sends) == 0 {
			continue
		}
		n++
		fnm := fname(fn)
		c.R.Check(len(sends) == 1, "R-count", fnm+": one send per iteration", c.Pos(fn.Pos()), "one send call in the loop", sprintf("%s sends %d times per iteration", fnm, len(sends)))
		send := sends[0]
		pd := flow.NewPostDom(fn)
		// counters: int phis incremented by 1; classify by the edge of `send != nil`
		type ctr struct {
			phi        *ssa.Phi
			onOK, onNG bool
		}
		var ctrs []ctr
		ir.EachInstr(fn, func(_ *ssa.BasicBlock, _ int, in ssa.Instruction) {
			bin, ok := in.(*ssa.BinOp)
			if !ok || bin.Op != token.ADD || !isOne(bin.Y) {
				return
			}
			phi, ok := bin.X.(*ssa.Phi)
			if !ok || ir.TypeStr(phi.Type()) != "int" {
				return
			}
			cc := ctr{phi: phi}
			for _, g := range pd.ControlDeps(bin.Block()) {
				if v, op, ok := nilCompare(g.If.Cond); ok && v == ssa.Value(send) {
					errEdge := (op == token.NEQ) == g.Branch
					if errEdge {
						cc.onNG = true
					} else {
						cc.onOK = true
					}
				}
			}
			if cc.onOK || cc.onNG {
				ctrs = append(ctrs, cc)
			}
		})
		var okCtr, ngCtr *ssa.Phi
		bad := ""
		for _, cc := range ctrs {
			switch {
			case cc.onOK && !cc.onNG:
				okCtr = cc.phi
			case cc.onNG && !cc.onOK:
				ngCtr = cc.phi
			default:
				bad = "a counter is incremented on both edges of the send's error test"
			}
		}
		if okCtr == nil || ngCtr == nil {
			bad = "success/failure counters controlled by the send's error were not found"
		}
		// returned values
		if bad == "" {
			ir.EachInstr(fn, func(_ *ssa.BasicBlock, _ int, in ssa.Instruction) {
				r, ok := in.(*ssa.Return)
				if !ok || len(ir.Results(r)) != 3 {
					return
				}
				if unspill(ir.Results(r)[0]) != ssa.Value(okCtr) && !phiOf(unspill(ir.Results(r)[0]), okCtr) {
					bad = "the first result (sessions reached) is not the counter incremented on the send's success edge"
				}
				if unspill(ir.Results(r)[1]) != ssa.Value(ngCtr) && !phiOf(unspill(ir.Results(r)[1]), ngCtr) {
					bad = "the second result (sessions failed) is not the counter incremented on the send's failure edge"
				}
			})
		}
		c.R.Check(bad == "", "R-count", fnm+": counters", c.Pos(send.Pos()), "success counted on the nil-error edge, failure on the other, returned in that order", sprintf("%s: %s", fnm, bad))
	}
	c.R.Min("R-count", 4)
	// the exported broadcast returns the helper's success counter
	if T := c.P.RootNamed("Server"); T != nil {
		for _, name := range []string{"BroadcastNotification", "SendFilteredNotification"} {
			m := c.P.Method(T, name)
			if m == nil {
				c.R.Break("anchor not found: Server.%s", name)
				continue
			}
			okRet := false
			ir.EachInstr(m, func(_ *ssa.BasicBlock, _ int, in ssa.Instruction) {
				r, ok := in.(*ssa.Return)
				if !ok || len(ir.Results(r)) < 2 {
					return
				}
				if ex, ok := ir.Results(r)[0].(*ssa.Extract); ok && ex.Index == 0 {
					if call, ok := ex.Tuple.(*ssa.Call); ok && ir.StaticCallee(call) != nil {
						okRet = true
					}
				}
			})
			c.R.Check(okRet, "R-count", "Server."+name+": reported count", c.Pos(m.Pos()), "returns the number of sessions actually reached", sprintf("Server.%s does not return the success counter of its send loop", name))
		}
	}
}

func phiOf(v ssa.Value, target *ssa.Phi) bool {
	return v == ssa.Value(target)
}

// ---------------------------------------------------------------- R-answer-session
func c05Answer(c *Ctx) {
	pend := pendingInserts(c, true)
	if len(pend) < 3 {
		c.R.Break("expected three server-side pending tables, found %d", len(pend))
	}
	var tables []string
	for t := range pend {
		tables = append(tables, t)
	}
	sort.Strings(tables)
	sessI := c.P.RootNamed("Session")
	n := 0
	for _, fn := range c.P.LibFns {
		if clientSide(c, fn) {
			continue
		}
		// a delivery site: lookup in a pending table (in fn or in a callee it hands the key to)
		for _, tbl := range tables {
			var lk *ssa.Lookup
			ir.EachInstr(fn, func(_ *ssa.BasicBlock, _ int, in ssa.Instruction) {
				if l, ok := in.(*ssa.Lookup); ok && fromTableLookup(l, tbl) {
					lk = l
				}
			})
			if lk == nil {
				continue
			}
			// is fn (or its single caller chain) handling a message posted by a session? find the session value
			holder, sess := sessionInScope(c, fn, sessI, 0)
			if sess == nil {
				continue // e.g. the stdio server: one session
			}
			n++
			uses := false
			// (a) the session id flows into the key of the lookup (directly or through the key argument at the call site)
			if valueDependsOnSession(lk.Index, sess, 0) {
				uses = true
			}
			if holder != fn {
				// key computed in the holder and passed down
				ir.EachInstr(holder, func(_ *ssa.BasicBlock, _ int, in ssa.Instruction) {
					if call, ok := in.(*ssa.Call); ok {
						for _, cal := range ir.Callees(c.G, call) {
							if cal == fn {
								for _, a := range call.Call.Args {
									if valueDependsOnSession(a, sess, 0) && ir.TypeStr(a.Type()) == "string" {
										uses = true
									}
								}
							}
						}
					}
				})
			}
			// (b) a comparison involving the session id guards the delivery send
			for _, f := range []*ssa.Function{fn, holder} {
				ir.EachInstr(f, func(_ *ssa.BasicBlock, _ int, in ssa.Instruction) {
					bin, ok := in.(*ssa.BinOp)
					if !ok || (bin.Op != token.EQL && bin.Op != token.NEQ) {
						return
					}
					if valueDependsOnSession(bin.X, sess, 0) || valueDependsOnSession(bin.Y, sess, 0) {
						if ir.TypeStr(bin.X.Type()) == "string" {
							uses = true
						}
					}
				})
			}
			c.R.Check(uses, "R-answer-session", "answers matched in "+fname(fn)+" ("+tbl+")", c.Pos(lk.Pos()),
				"the posting session takes part in matching the answer with the pending request",
				sprintf("%s matches a posted answer with a pending server request of %s by the request id alone; the posting session (available in %s) is not consulted, and ids come from a server-wide counter: any session can answer another session's request", fname(fn), tbl, fname(holder)))
		}
	}
	c.R.Min("R-answer-session", 2)
	_ = n
}

// sessionInScope finds a value of the Session interface type (or a session record implementing it) that is a
// parameter of fn or of a (unique-chain) caller.
func sessionInScope(c *Ctx, fn *ssa.Function, sessI *types.Named, depth int) (*ssa.Function, ssa.Value) {
	if depth > 3 || sessI == nil {
		return nil, nil
	}
	iface := sessI.Underlying().(*types.Interface)
	for _, p := range fn.Params {
		if types.Identical(p.Type(), sessI) || (types.Implements(p.Type(), iface) && !types.IsInterface(p.Type()) && p != fn.Params[0]) {
			return fn, p
		}
	}
	for _, e := range ir.Callers(c.G, fn) {
		if e.Site == nil || !c.P.IsLib(e.Caller.Func) {
			continue
		}
		if h, s := sessionInScope(c, e.Caller.Func, sessI, depth+1); s != nil {
			return h, s
		}
	}
	return nil, nil
}

func valueDependsOnSession(v, sess ssa.Value, d int) bool {
	if d > 8 || v == nil {
		return false
	}
	if v == sess {
		return true
	}
	switch x := v.(type) {
	case *ssa.Call:
		if x.Call.IsInvoke() && x.Call.Value == sess {
			return true
		}
		for _, a := range x.Call.Args {
			if valueDependsOnSession(a, sess, d+1) {
				return true
			}
		}
	case *ssa.BinOp:
		return valueDependsOnSession(x.X, sess, d+1) || valueDependsOnSession(x.Y, sess, d+1)
	case *ssa.UnOp:
		return valueDependsOnSession(x.X, sess, d+1)
	case *ssa.FieldAddr:
		return valueDependsOnSession(x.X, sess, d+1)
	case *ssa.MakeInterface:
		return valueDependsOnSession(x.X, sess, d+1)
	case *ssa.Phi:
		for _, e := range x.Edges {
			if valueDependsOnSession(e, sess, d+1) {
				return true
			}
		}
	case *ssa.Slice:
		return valueDependsOnSession(x.X, sess, d+1)
	case *ssa.Alloc:
		for _, r := range *x.Referrers() {
			if ia, ok := r.(*ssa.IndexAddr); ok {
				for _, rr := range *ia.Referrers() {
					if st, ok := rr.(*ssa.Store); ok && valueDependsOnSession(st.Val, sess, d+1) {
						return true
					}
				}
			}
		}
	}
	return false
}

// ---------------------------------------------------------------- R-guard-settable
func c05Settable(c *Ctx) {
	// delivery API: exported Send*/Broadcast* of the servers
	var api []*ssa.Function
	for _, T := range c.serverTypes() {
		api = append(api, c.methodsWithPrefix(T, "Send", "Broadcast", "ListRoots")...)
	}
	deliver := c.ReachSync(api...)
	entries := append(serverEntries(c), api...)
	reachAll := c.Reach(entries...)
	type flag struct{ read, set bool }
	flags := map[string]*flag{}
	for _, fn := range c.P.LibFns {
		ir.EachInstr(fn, func(_ *ssa.BasicBlock, _ int, in ssa.Instruction) {
			call, ok := in.(*ssa.Call)
			if !ok || len(call.Call.Args) == 0 {
				return
			}
			n := ir.CallName(call)
			fa, ok := call.Call.Args[0].(*ssa.FieldAddr)
			if !ok {
				return
			}
			key, _, _, _ := ir.FullField(fa)
			if key == "" {
				return
			}
			switch n {
			case "(*sync/atomic.Bool).Load":
				// read on a delivery path (through a getter counts: the getter is reachable from the API)
				if deliver[fn] {
					if flags[key] == nil {
						flags[key] = &flag{}
					}
					flags[key].read = true
				}
			case "(*sync/atomic.Bool).Store":
				if cst, ok := call.Call.Args[1].(*ssa.Const); ok && cst.Value != nil && cst.Value.String() == "true" && reachAll[fn] {
					if flags[key] == nil {
						flags[key] = &flag{}
					}
					flags[key].set = true
				}
			}
		})
	}
	var keys []string
	for k, f := range flags {
		if f.read {
			keys = append(keys, k)
		}
	}
	sort.Strings(keys)
	for _, k := range keys {
		c.R.Check(flags[k].set, "R-guard-settable", k, "", "a setter is reachable from an entry point",
			sprintf("the delivery path tests the per-session flag %s, but no code reachable from any entry point ever sets it: every send gated by it fails (e.g. SendNotification always answers 'session not initialized')", k))
	}
	c.R.Min("R-guard-settable", 1)
}

// ---------------------------------------------------------------- R-single-consumer
func c05Consumer(c *Ctx) {
	sessI := c.P.RootNamed("Session")
	if sessI == nil {
		return
	}
	iface := sessI.Underlying().(*types.Interface)
	consumers := map[string]map[*ssa.Function]bool{}
	for _, fn := range c.P.LibFns {
		ir.EachInstr(fn, func(_ *ssa.BasicBlock, _ int, in ssa.Instruction) {
			note := func(ch ssa.Value) {
				u, ok := ch.(*ssa.UnOp)
				if !ok {
					return
				}
				fa, ok := u.X.(*ssa.FieldAddr)
				if !ok {
					return
				}
				key, _, typ, _ := ir.FullField(fa)
				owner := ir.FullFieldOwner(fa)
				if key == "" || owner == nil {
					return
				}
				if _, isChan := typ.Underlying().(*types.Chan); !isChan {
					return
				}
				if !types.Implements(types.NewPointer(owner), iface) {
					return
				}
				if strings.Contains(strings.ToLower(key), "done") {
					return
				}
				if consumers[key] == nil {
					consumers[key] = map[*ssa.Function]bool{}
				}
				consumers[key][fn] = true
			}
			switch x := in.(type) {
			case *ssa.Select:
				for _, st := range x.States {
					if st.Dir == types.RecvOnly {
						note(st.Chan)
					}
				}
			case *ssa.UnOp:
				if x.Op == token.ARROW {
					note(x.X)
				}
			}
		})
	}
	var keys []string
	for k := range consumers {
		keys = append(keys, k)
	}
	sort.Strings(keys)
	for _, k := range keys {
		fns := sortedFuncs(consumers[k])
		names := []string{}
		for _, f := range fns {
			names = append(names, fname(f))
		}
		okOne := len(fns) == 1
		started := 0
		if okOne {
			for _, e := range ir.Callers(c.G, fns[0]) {
				if g, ok := e.Site.(*ssa.Go); ok {
					started++
					if flow.InCycle(g.Block()) {
						started += 10
					}
				}
			}
		}
		c.R.Check(okOne && started == 1, "R-single-consumer", k, "", "one consumer function ("+strings.Join(names, ",")+"), started once per session",
			sprintf("the per-session outbound channel %s is received from in %v (started %d time(s) per session): with more than one consumer frames of one session can overtake each other", k, names, started))
	}
	c.R.Min("R-single-consumer", 3)
}

// ---------------------------------------------------------------- R-pending-pair
func c05Pending(c *Ctx) {
	pend := pendingInserts(c, false)
	n := 0
	var tables []string
	for t := range pend {
		tables = append(tables, t)
	}
	sort.Strings(tables)
	for _, tbl := range tables {
		for _, mu := range pend[tbl] {
			fn := mu.Parent()
			// registration helpers (insert only, called by the sender): judge the caller
			holder, at := fn, ssa.Instruction(mu)
			hasRemoval := func(f *ssa.Function) bool {
				found := false
				for _, g := range ir.WithClosures(f) {
					ir.EachCall(g, func(call ssa.CallInstruction) {
						if b, ok := call.Common().Value.(*ssa.Builtin); ok && b.Name() == "delete" {
							if fl, _, ok := ir.LoadedField(call.Common().Args[0]); ok && fl.Key() == tbl {
								found = true
							}
						}
						if sc := ir.StaticCallee(call); sc != nil && c.P.IsLib(sc) {
							ir.EachCall(sc, func(c2 ssa.CallInstruction) {
								if b, ok := c2.Common().Value.(*ssa.Builtin); ok && b.Name() == "delete" {
									if fl, _, ok := ir.LoadedField(c2.Common().Args[0]); ok && fl.Key() == tbl {
										found = true
									}
								}
							})
						}
					})
				}
				return found
			}
			if !hasRemoval(fn) {
				callers := ir.Callers(c.G, fn)
				if len(callers) == 1 && callers[0].Site != nil && c.P.IsLib(callers[0].Caller.Func) {
					holder, at = callers[0].Caller.Func, callers[0].Site
				}
			}
			n++
			removes := func(x ssa.Instruction) bool {
				check := func(cc *ssa.CallCommon, callee *ssa.Function, mc *ssa.MakeClosure) bool {
					if b, ok := cc.Value.(*ssa.Builtin); ok && b.Name() == "delete" {
						if fl, _, ok := ir.LoadedField(cc.Args[0]); ok && fl.Key() == tbl {
							return true
						}
					}
					var body *ssa.Function
					if mc != nil {
						body, _ = mc.Fn.(*ssa.Function)
					} else {
						body = callee
					}
					found := false
					if body != nil && c.P.IsLib(body) {
						ir.EachCall(body, func(c2 ssa.CallInstruction) {
							if b, ok := c2.Common().Value.(*ssa.Builtin); ok && b.Name() == "delete" {
								if fl, _, ok := ir.LoadedField(c2.Common().Args[0]); ok && fl.Key() == tbl {
									found = true
								}
							}
						})
					}
					return found
				}
				switch y := x.(type) {
				case *ssa.Call:
					mc, _ := y.Call.Value.(*ssa.MakeClosure)
					return check(&y.Call, ir.StaticCallee(y), mc)
				case *ssa.Defer:
					mc, _ := y.Call.Value.(*ssa.MakeClosure)
					return check(&y.Call, ir.StaticCallee(y), mc)
				}
				return false
			}
			esc := flow.ExitsAvoiding(holder, at, removes, false)
			c.R.Check(esc == nil, "R-pending-pair", "entry of "+tbl+" registered by "+fname(holder), c.Pos(at.Pos()),
				"removed (or its removal deferred) on every path from registration to exit",
				sprintf("%s registers a pending request in %s and can return (near %s) without removing it and before a deferred removal is registered: a request that fails before transmission, times out or is cancelled stays pending forever", fname(holder), tbl, iposEsc(c, esc)))
			// registered before transmission: the insert dominates the transmit (send on queue / write to stream / encode)
		}
	}
	c.R.Min("R-pending-pair", 5)
	_ = n
}

// ---------------------------------------------------------------- R-loop-capture
func c05LoopCapture(c *Ctx, rule string) {
	var fns []*ssa.Function
	for _, fn := range c.P.LibFns {
		fns = append(fns, fn)
	}
	caps, nGo := loopVarCaptures(c, fns)
	for _, lc := range caps {
		c.R.Violate(rule, sprintf("goroutine in a loop of %s shares the iteration variable %s", fname(lc.fn), lc.v.Comment), c.Pos(lc.goAt.Pos()),
			sprintf("%s starts a goroutine per iteration whose closure captures the loop variable %q by reference; the module's language version shares one variable across iterations, so the goroutines act on whichever element the loop has reached (several on the same one, none on the others) and race with the loop", fname(lc.fn), lc.v.Comment))
	}
	c.R.Hold(rule, "goroutines started inside loops", "", sprintf("%d go statements inside loops examined; none captures its loop's iteration variable by reference", nGo-len(caps)))
}

// ---------------------------------------------------------------- R-pending-key
// The key under which a server registers a pending server-to-client request must be unique among all requests that
// share the table: it must come from a counter that lives in the same object as the table (one counter per table). A
// per-session counter with a table shared by all sessions makes two sessions register the same key; the second
// registration overwrites the first and the first session's answer is lost.
func c05PendingKey(c *Ctx) {
	pend := pendingInserts(c, true)
	var tables []string
	for t := range pend {
		tables = append(tables, t)
	}
	sort.Strings(tables)
	n := 0
	for _, tbl := range tables {
		for _, mu := range pend[tbl] {
			f, _, ok := ir.LoadedField(mu.Map)
			if !ok || f.Struct == nil {
				continue
			}
			owner := ir.TypeKey(f.Struct)
			owners := map[string]bool{}
			counterOwners(c, mu.Parent(), mu.Key, 0, map[ssa.Value]bool{}, owners)
			if len(owners) == 0 {
				continue // the key is not generated by the library (caller supplied)
			}
			n++
			var foreign []string
			for o := range owners {
				if o != owner {
					foreign = append(foreign, o)
				}
			}
			sort.Strings(foreign)
			c.R.Check(len(foreign) == 0, "R-pending-key", "key of "+tbl+" registered by "+fname(mu.Parent()), c.Pos(mu.Pos()),
				"generated by a counter of "+owner+", the object that holds the table",
				sprintf("%s registers pending requests in %s (one table per %s) under a key generated by a counter of %s: two of those can issue the same key, the later registration overwrites the earlier one and the earlier request never receives its answer", fname(mu.Parent()), tbl, owner, strings.Join(foreign, ", ")))
		}
	}
	c.R.Min("R-pending-key", 3)
	_ = n
}

// counterOwners collects the struct types holding the atomic counters a value is generated from.
func counterOwners(c *Ctx, fn *ssa.Function, v ssa.Value, depth int, seen map[ssa.Value]bool, out map[string]bool) {
	if v == nil || depth > 8 || seen[v] {
		return
	}
	seen[v] = true
	switch x := v.(type) {
	case *ssa.Call:
		n := ir.CallName(x)
		if strings.Contains(n, "sync/atomic") && strings.HasSuffix(n, ".Add") && len(x.Call.Args) > 0 {
			if f, _, ok := ir.FieldOf(x.Call.Args[0]); ok && f.Struct != nil {
				out[ir.TypeKey(f.Struct)] = true
			}
			return
		}
		if n == "fmt.Sprintf" || n == "fmt.Sprint" {
			for _, a := range x.Call.Args {
				for _, e := range variadicElems(a) {
					if e != nil {
						counterOwners(c, fn, e, depth+1, seen, out)
					}
				}
			}
			return
		}
		sc := ir.StaticCallee(x)
		if sc == nil || !c.P.IsLib(sc) {
			return
		}
		// what the callee returns: its own counters, or something derived from its parameters
		ir.EachInstr(sc, func(_ *ssa.BasicBlock, _ int, in ssa.Instruction) {
			r, ok := in.(*ssa.Return)
			if !ok {
				return
			}
			for _, rv := range ir.Results(r) {
				sub := map[ssa.Value]bool{}
				counterOwners(c, sc, rv, depth+1, sub, out)
				for pv := range sub {
					if p, ok := pv.(*ssa.Parameter); ok {
						for i, q := range sc.Params {
							if q == p && i < len(x.Call.Args) {
								counterOwners(c, fn, x.Call.Args[i], depth+1, seen, out)
							}
						}
					}
				}
			}
		})
	case *ssa.Extract:
		counterOwners(c, fn, x.Tuple, depth+1, seen, out)
	case *ssa.Convert:
		counterOwners(c, fn, x.X, depth+1, seen, out)
	case *ssa.ChangeType:
		counterOwners(c, fn, x.X, depth+1, seen, out)
	case *ssa.MakeInterface:
		counterOwners(c, fn, x.X, depth+1, seen, out)
	case *ssa.TypeAssert:
		counterOwners(c, fn, x.X, depth+1, seen, out)
	case *ssa.BinOp:
		counterOwners(c, fn, x.X, depth+1, seen, out)
		counterOwners(c, fn, x.Y, depth+1, seen, out)
	case *ssa.Phi:
		for _, e := range x.Edges {
			counterOwners(c, fn, e, depth+1, seen, out)
		}
	case *ssa.UnOp:
		if fa, ok := x.X.(*ssa.FieldAddr); ok {
			// a member of a message: whatever this function (or, for a parameter, its callers) stored there
			fl, base, _ := ir.FieldOf(fa)
			ir.EachInstr(fn, func(_ *ssa.BasicBlock, _ int, in ssa.Instruction) {
				st, ok := in.(*ssa.Store)
				if !ok {
					return
				}
				sfa, ok := st.Addr.(*ssa.FieldAddr)
				if !ok {
					return
				}
				sf, sbase, _ := ir.FieldOf(sfa)
				if sf.Name == fl.Name && sf.Struct == fl.Struct && (sbase == base || sameValue(sbase, base)) {
					counterOwners(c, fn, st.Val, depth+1, seen, out)
				}
			})
			if p, ok := base.(*ssa.Parameter); ok {
				idx := -1
				for i, q := range fn.Params {
					if q == p {
						idx = i
					}
				}
				for _, e := range ir.Callers(c.G, fn) {
					if e.Site == nil || !c.P.IsLib(e.Caller.Func) || idx < 0 || idx >= len(e.Site.Common().Args) {
						continue
					}
					// the caller built the message: stores into the same member of what it passes
					arg := e.Site.Common().Args[idx]
					ir.EachInstr(e.Caller.Func, func(_ *ssa.BasicBlock, _ int, in ssa.Instruction) {
						st, ok := in.(*ssa.Store)
						if !ok {
							return
						}
						sfa, ok := st.Addr.(*ssa.FieldAddr)
						if !ok {
							return
						}
						sf, sbase, _ := ir.FieldOf(sfa)
						if sf.Name == fl.Name && sf.Struct == fl.Struct && (sbase == arg || sameValue(sbase, arg)) {
							counterOwners(c, e.Caller.Func, st.Val, depth+1, seen, out)
						}
					})
				}
			}
			return
		}
		if al, ok := x.X.(*ssa.Alloc); ok {
			// a local captured by a closure: every value stored into the cell
			for _, r := range *al.Referrers() {
				if st, ok := r.(*ssa.Store); ok && st.Addr == ssa.Value(al) {
					counterOwners(c, fn, st.Val, depth+1, seen, out)
				}
			}
			return
		}
		counterOwners(c, fn, x.X, depth+1, seen, out)
	case *ssa.Parameter:
		idx := -1
		for i, q := range fn.Params {
			if q == x {
				idx = i
			}
		}
		for _, e := range ir.Callers(c.G, fn) {
			if e.Site == nil || !c.P.IsLib(e.Caller.Func) || idx < 0 || idx >= len(e.Site.Common().Args) {
				continue
			}
			counterOwners(c, e.Caller.Func, e.Site.Common().Args[idx], depth+1, seen, out)
		}
	}
}
