package rules

import (
	"go/token"
	"go/types"
	"sort"
	"strings"

	"golang.org/x/tools/go/ssa"

	"verif/checker/ir"
)

// Reach returns the library functions reachable from roots over the call graph (all edge kinds),
// including the roots and closures created by reachable functions that are called from them.
func (c *Ctx) Reach(roots ...*ssa.Function) map[*ssa.Function]bool {
	seen := map[*ssa.Function]bool{}
	var stack []*ssa.Function
	for _, r := range roots {
		if r != nil && !seen[r] {
			seen[r] = true
			stack = append(stack, r)
		}
	}
	for len(stack) > 0 {
		f := stack[len(stack)-1]
		stack = stack[:len(stack)-1]
		n := c.G.Nodes[f]
		if n == nil {
			continue
		}
		for _, e := range n.Out {
			cal := e.Callee.Func
			if seen[cal] {
				continue
			}
			seen[cal] = true
			stack = append(stack, cal)
		}
	}
	out := map[*ssa.Function]bool{}
	for f := range seen {
		if c.P.IsLib(f) {
			out[f] = true
		}
	}
	return out
}

// ReachSync is Reach restricted to synchronous edges (no `go` statements).
func (c *Ctx) ReachSync(roots ...*ssa.Function) map[*ssa.Function]bool {
	seen := map[*ssa.Function]bool{}
	var stack []*ssa.Function
	for _, r := range roots {
		if r != nil && !seen[r] {
			seen[r] = true
			stack = append(stack, r)
		}
	}
	for len(stack) > 0 {
		f := stack[len(stack)-1]
		stack = stack[:len(stack)-1]
		n := c.G.Nodes[f]
		if n == nil {
			continue
		}
		for _, e := range n.Out {
			if _, isGo := e.Site.(*ssa.Go); isGo {
				continue
			}
			cal := e.Callee.Func
			if seen[cal] {
				continue
			}
			seen[cal] = true
			stack = append(stack, cal)
		}
	}
	out := map[*ssa.Function]bool{}
	for f := range seen {
		if c.P.IsLib(f) {
			out[f] = true
		}
	}
	return out
}

// unbound resolves a bound-method wrapper / thunk to the declared method it forwards to.
func unbound(f *ssa.Function) *ssa.Function {
	for i := 0; i < 3 && f != nil && f.Synthetic != ""; i++ {
		var next *ssa.Function
		ir.EachCall(f, func(c ssa.CallInstruction) {
			if sc := ir.StaticCallee(c); sc != nil {
				next = sc
			}
		})
		if next == nil {
			break
		}
		f = next
	}
	return f
}

// funcValue resolves an SSA value used as a function to the declared function(s) it denotes.
func funcValue(v ssa.Value) *ssa.Function {
	switch x := v.(type) {
	case *ssa.Function:
		return unbound(x)
	case *ssa.MakeClosure:
		if f, ok := x.Fn.(*ssa.Function); ok {
			return unbound(f)
		}
	case *ssa.ChangeType:
		return funcValue(x.X)
	case *ssa.MakeInterface:
		return funcValue(x.X)
	}
	return nil
}

// DispatchEntry is one row of a method dispatch table.
type DispatchEntry struct {
	Method string
	Target *ssa.Function
	In     *ssa.Function // function that builds / contains the table
	Pos    token.Pos
}

// MapLiteralDispatch finds map literals (MakeMap + MapUpdate with constant string keys) in the
// library whose values are functions: the dispatch tables. Returned per containing function.
func (c *Ctx) MapLiteralDispatch() map[*ssa.Function][]DispatchEntry {
	out := map[*ssa.Function][]DispatchEntry{}
	for _, fn := range c.P.LibFns {
		ir.EachInstr(fn, func(_ *ssa.BasicBlock, _ int, in ssa.Instruction) {
			mu, ok := in.(*ssa.MapUpdate)
			if !ok {
				return
			}
			if _, isMake := mu.Map.(*ssa.MakeMap); !isMake {
				return
			}
			k, ok := ir.ConstStr(mu.Key)
			if !ok {
				return
			}
			if _, isSig := mu.Value.Type().Underlying().(*types.Signature); !isSig {
				return
			}
			t := funcValue(mu.Value)
			if t == nil {
				return
			}
			out[fn] = append(out[fn], DispatchEntry{Method: k, Target: t, In: fn, Pos: mu.Pos()})
		})
	}
	return out
}

// methodsNamed returns the declared methods of named library type T whose name has the prefix.
func (c *Ctx) methodsWithPrefix(T *types.Named, prefixes ...string) []*ssa.Function {
	var out []*ssa.Function
	if T == nil {
		return nil
	}
	for i := 0; i < T.NumMethods(); i++ {
		m := T.Method(i)
		for _, p := range prefixes {
			if strings.HasPrefix(m.Name(), p) {
				if f := c.P.SSA.FuncValue(m); f != nil {
					out = append(out, f)
				}
			}
		}
	}
	sort.Slice(out, func(i, j int) bool { return out[i].String() < out[j].String() })
	return out
}

// serverTypes are the three public server types.
func (c *Ctx) serverTypes() []*types.Named {
	var out []*types.Named
	for _, n := range []string{"Server", "SSEServer", "StdioServer"} {
		if t := c.P.RootNamed(n); t != nil {
			out = append(out, t)
		} else {
			c.R.Break("anchor not found: exported type %s", n)
		}
	}
	return out
}

func sortedFuncs(m map[*ssa.Function]bool) []*ssa.Function {
	out := make([]*ssa.Function, 0, len(m))
	for f := range m {
		out = append(out, f)
	}
	sort.Slice(out, func(i, j int) bool {
		if out[i].String() != out[j].String() {
			return out[i].String() < out[j].String()
		}
		return out[i].Pos() < out[j].Pos()
	})
	return out
}

// dispatcherFns: the functions holding the wire-method dispatch table (a map literal from method names to functions
// that includes "tools/call"), and everything from which such a function is reachable is "above" it.
func (c *Ctx) dispatchReach() map[*ssa.Function]bool {
	if c.dispReach != nil {
		return c.dispReach
	}
	targets := map[*ssa.Function]bool{}
	for fn, rows := range c.MapLiteralDispatch() {
		for _, r := range rows {
			if r.Method == "tools/call" {
				targets[fn] = true
			}
		}
	}
	// backward reachability over the call graph
	seen := map[*ssa.Function]bool{}
	var stack []*ssa.Function
	for t := range targets {
		seen[t] = true
		stack = append(stack, t)
	}
	for len(stack) > 0 {
		f := stack[len(stack)-1]
		stack = stack[:len(stack)-1]
		n := c.G.Nodes[f]
		if n == nil {
			continue
		}
		for _, e := range n.In {
			if cf := e.Caller.Func; !seen[cf] {
				seen[cf] = true
				stack = append(stack, cf)
			}
		}
	}
	c.dispReach = seen
	return seen
}

// isDispatchCall: the call hands a decoded request (*JSONRPCRequest argument, no http.ResponseWriter) to a function
// from which the wire-method dispatch table is reachable — "the request is dispatched here", whatever the
// dispatcher's interface or method is called.
func (c *Ctx) isDispatchCall(call ssa.CallInstruction) bool {
	cc := call.Common()
	hasReq := false
	for _, a := range cc.Args {
		switch ir.TypeStr(a.Type()) {
		case "*mcp.JSONRPCRequest":
			hasReq = true
		case "net/http.ResponseWriter":
			return false
		}
	}
	if !hasReq {
		return false
	}
	dr := c.dispatchReach()
	for _, cal := range ir.Callees(c.G, call) {
		if dr[cal] && c.P.IsLib(cal) {
			return true
		}
	}
	return false
}

// isRespondCall: the call hands the HTTP ResponseWriter to a method of a library-declared interface (the responder
// abstraction that writes the answer in JSON or SSE form) — through the interface or directly on an implementing
// type — whatever the interface and method are called.
func isRespondCall(c *Ctx, call ssa.CallInstruction) bool {
	if !passesWriter(call) {
		return false
	}
	cc := call.Common()
	if cc.IsInvoke() {
		return cc.Method != nil && cc.Method.Pkg() != nil && strings.HasPrefix(cc.Method.Pkg().Path(), ir.RootPath)
	}
	sc := ir.StaticCallee(call)
	if sc == nil || !c.P.IsLib(sc) || sc.Signature.Recv() == nil {
		return false
	}
	recv := sc.Signature.Recv().Type()
	for _, pk := range c.P.Pkgs {
		sc2 := pk.Types.Scope()
		for _, name := range sc2.Names() {
			tn, ok := sc2.Lookup(name).(*types.TypeName)
			if !ok {
				continue
			}
			it, ok := tn.Type().Underlying().(*types.Interface)
			if !ok || it.NumMethods() == 0 || !types.Implements(recv, it) {
				continue
			}
			for i := 0; i < it.NumMethods(); i++ {
				if it.Method(i).Name() == sc.Name() {
					return true
				}
			}
		}
	}
	return false
}
