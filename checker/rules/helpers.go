package rules

import (
	"go/token"
	"go/types"
	"sort"
	"strings"

	"golang.org/x/tools/go/ssa"

	"verif/checker/flow"
	"verif/checker/ir"
)

// Reach returns the library functions reachable from roots over the call graph (all edge kinds),
// including the roots and closures created by reachable functions that are called from them.
func (c *Ctx) Reach(roots ...*ssa.Function) map[*ssa.Function]bool {
	seen := map[*ssa.Function]bool{}
	var stack []*ssa.Function
	for _, r := range roots {
		if r != nil && !seen[r] {
			seen[r] = true
			stack = append(stack, r)
		}
	}
	for len(stack) > 0 {
		f := stack[len(stack)-1]
		stack = stack[:len(stack)-1]
		n := c.G.Nodes[f]
		if n == nil {
			continue
		}
		for _, e := range n.Out {
			cal := e.Callee.Func
			if seen[cal] {
				continue
			}
			seen[cal] = true
			stack = append(stack, cal)
		}
	}
	out := map[*ssa.Function]bool{}
	for f := range seen {
		if c.P.IsLib(f) {
			out[f] = true
		}
	}
	return out
}

// ReachSync is Reach restricted to synchronous edges (no `go` statements).
func (c *Ctx) ReachSync(roots ...*ssa.Function) map[*ssa.Function]bool {
	seen := map[*ssa.Function]bool{}
	var stack []*ssa.Function
	for _, r := range roots {
		if r != nil && !seen[r] {
			seen[r] = true
			stack = append(stack, r)
		}
	}
	for len(stack) > 0 {
		f := stack[len(stack)-1]
		stack = stack[:len(stack)-1]
		n := c.G.Nodes[f]
		if n == nil {
			continue
		}
		for _, e := range n.Out {
			if _, isGo := e.Site.(*ssa.Go); isGo {
				continue
			}
			cal := e.Callee.Func
			if seen[cal] {
				continue
			}
			seen[cal] = true
			stack = append(stack, cal)
		}
	}
	out := map[*ssa.Function]bool{}
	for f := range seen {
		if c.P.IsLib(f) {
			out[f] = true
		}
	}
	return out
}

// unbound resolves a bound-method wrapper / thunk to the declared method it forwards to.
func unbound(f *ssa.Function) *ssa.Function {
	for i := 0; i < 3 && f != nil && f.Synthetic != ""; i++ {
		var next *ssa.Function
		ir.EachCall(f, func(c ssa.CallInstruction) {
			if sc := ir.StaticCallee(c); sc != nil {
				next = sc
			}
		})
		if next == nil {
			break
		}
		f = next
	}
	return f
}

// funcValue resolves an SSA value used as a function to the declared function(s) it denotes.
func funcValue(v ssa.Value) *ssa.Function {
	switch x := v.(type) {
	case *ssa.Function:
		return unbound(x)
	case *ssa.MakeClosure:
		if f, ok := x.Fn.(*ssa.Function); ok {
			return unbound(f)
		}
	case *ssa.ChangeType:
		return funcValue(x.X)
	case *ssa.MakeInterface:
		return funcValue(x.X)
	case *ssa.Call:
		// an adapter: a function with exactly one function-typed parameter that returns a function (a closure around
		// that parameter which fits it to another signature — sessionless(h)): the row is the adapted function
		sc := ir.StaticCallee(x)
		if sc == nil || sc.Blocks == nil || sc.Signature.Results().Len() != 1 {
			return nil
		}
		if _, isFn := sc.Signature.Results().At(0).Type().Underlying().(*types.Signature); !isFn {
			return nil
		}
		idx, n := -1, 0
		for i, p := range sc.Params {
			if _, isFn := p.Type().Underlying().(*types.Signature); isFn {
				idx = i
				n++
			}
		}
		if n == 1 && idx < len(x.Call.Args) {
			return funcValue(x.Call.Args[idx])
		}
	}
	return nil
}

// DispatchEntry is one row of a method dispatch table.
type DispatchEntry struct {
	Method string
	Target *ssa.Function
	In     *ssa.Function // function that builds / contains the table
	Pos    token.Pos
	At     ssa.Instruction // the map update that installs the row (nil for a row of a lookup function)
}

// MapLiteralDispatch finds map literals (MakeMap + MapUpdate with constant string keys) in the
// library whose values are functions: the dispatch tables. Returned per containing function.
func (c *Ctx) MapLiteralDispatch() map[*ssa.Function][]DispatchEntry {
	if c.dispatchRows != nil {
		return c.dispatchRows
	}
	out := map[*ssa.Function][]DispatchEntry{}
	c.dispatchRows = out
	// function-typed members and the functions stored into them (a table kept as a struct of handlers)
	memberFn := map[string]*ssa.Function{}
	memberAmbiguous := map[string]bool{}
	for _, fn := range c.P.LibFns {
		ir.EachInstr(fn, func(_ *ssa.BasicBlock, _ int, in ssa.Instruction) {
			st, ok := in.(*ssa.Store)
			if !ok {
				return
			}
			fa, ok := st.Addr.(*ssa.FieldAddr)
			if !ok {
				return
			}
			if _, isSig := st.Val.Type().Underlying().(*types.Signature); !isSig {
				return
			}
			key, _, _, _ := ir.FullField(fa)
			t := funcValue(st.Val)
			if key == "" || t == nil {
				return
			}
			if prev, ok := memberFn[key]; ok && prev != t {
				memberAmbiguous[key] = true
			}
			memberFn[key] = t
		})
	}
	// a lookup function: compares a string parameter with constants and returns, per case, a function value (a
	// function, a bound method, or a function-typed member that is assigned exactly one function in the library)
	for _, fn := range c.P.LibFns {
		if fn.Signature.Results().Len() == 0 {
			continue
		}
		if _, isSig := fn.Signature.Results().At(0).Type().Underlying().(*types.Signature); !isSig {
			continue
		}
		for _, b := range fn.Blocks {
			if len(b.Instrs) == 0 {
				continue
			}
			ifi, ok := b.Instrs[len(b.Instrs)-1].(*ssa.If)
			if !ok {
				continue
			}
			bin, ok := ifi.Cond.(*ssa.BinOp)
			if !ok || bin.Op != token.EQL {
				continue
			}
			k, isC := ir.ConstStr(bin.Y)
			if _, isParam := bin.X.(*ssa.Parameter); !isC || !isParam {
				continue
			}
			tb := b.Succs[0]
			ret, ok := tb.Instrs[len(tb.Instrs)-1].(*ssa.Return)
			if !ok || len(ret.Results) == 0 {
				continue
			}
			v := ret.Results[0]
			t := funcValue(v)
			if t == nil {
				if f, _, ok := ir.LoadedField(v); ok && !memberAmbiguous[f.Key()] {
					t = memberFn[f.Key()]
				}
			}
			if t == nil {
				continue
			}
			out[fn] = append(out[fn], DispatchEntry{Method: k, Target: t, In: fn, Pos: tb.Instrs[0].Pos()})
		}
	}
	// (package-level tables are built by the package initialiser, which is not among the library functions proper)
	scan := append([]*ssa.Function{}, c.P.LibFns...)
	for path, sp := range c.P.SSAPkg {
		if !strings.HasPrefix(path, ir.RootPath) {
			continue
		}
		if init := sp.Func("init"); init != nil {
			scan = append(scan, init)
		}
	}
	for _, fn := range scan {
		ir.EachInstr(fn, func(_ *ssa.BasicBlock, _ int, in ssa.Instruction) {
			mu, ok := in.(*ssa.MapUpdate)
			if !ok {
				return
			}
			if _, isMake := mu.Map.(*ssa.MakeMap); !isMake {
				return
			}
			k, ok := ir.ConstStr(mu.Key)
			if !ok {
				return
			}
			if _, isSig := mu.Value.Type().Underlying().(*types.Signature); !isSig {
				return
			}
			t := funcValue(mu.Value)
			if t == nil {
				return
			}
			out[fn] = append(out[fn], DispatchEntry{Method: k, Target: t, In: fn, Pos: mu.Pos(), At: mu})
		})
	}
	return out
}

// methodsNamed returns the declared methods of named library type T whose name has the prefix.
func (c *Ctx) methodsWithPrefix(T *types.Named, prefixes ...string) []*ssa.Function {
	var out []*ssa.Function
	if T == nil {
		return nil
	}
	for i := 0; i < T.NumMethods(); i++ {
		m := T.Method(i)
		for _, p := range prefixes {
			if strings.HasPrefix(m.Name(), p) {
				if f := c.P.SSA.FuncValue(m); f != nil {
					out = append(out, f)
				}
			}
		}
	}
	sort.Slice(out, func(i, j int) bool { return out[i].String() < out[j].String() })
	return out
}

// serverTypes are the three public server types.
func (c *Ctx) serverTypes() []*types.Named {
	var out []*types.Named
	for _, n := range []string{"Server", "SSEServer", "StdioServer"} {
		if t := c.P.RootNamed(n); t != nil {
			out = append(out, t)
		} else {
			c.R.Break("anchor not found: exported type %s", n)
		}
	}
	return out
}

func sortedFuncs(m map[*ssa.Function]bool) []*ssa.Function {
	out := make([]*ssa.Function, 0, len(m))
	for f := range m {
		out = append(out, f)
	}
	sort.Slice(out, func(i, j int) bool {
		if out[i].String() != out[j].String() {
			return out[i].String() < out[j].String()
		}
		return out[i].Pos() < out[j].Pos()
	})
	return out
}

// dispatcherFns: the functions holding the wire-method dispatch table (a map literal from method names to functions
// that includes "tools/call"), and everything from which such a function is reachable is "above" it.
func (c *Ctx) dispatchReach() map[*ssa.Function]bool {
	if c.dispReach != nil {
		return c.dispReach
	}
	targets := map[*ssa.Function]bool{}
	for fn, rows := range c.MapLiteralDispatch() {
		for _, r := range rows {
			if r.Method == "tools/call" {
				targets[fn] = true
			}
		}
	}
	// a function that looks a request handler up in a table built elsewhere (a constructor) dispatches as well
	for _, rl := range c.routeLookups() {
		if rl.fn != nil && rl.call != nil {
			targets[rl.fn] = true
		}
	}
	// backward reachability over the call graph
	seen := map[*ssa.Function]bool{}
	var stack []*ssa.Function
	for t := range targets {
		seen[t] = true
		stack = append(stack, t)
	}
	for len(stack) > 0 {
		f := stack[len(stack)-1]
		stack = stack[:len(stack)-1]
		n := c.G.Nodes[f]
		if n == nil {
			continue
		}
		for _, e := range n.In {
			if cf := e.Caller.Func; !seen[cf] {
				seen[cf] = true
				stack = append(stack, cf)
			}
		}
	}
	c.dispReach = seen
	return seen
}

// isDispatchCall: the call hands a decoded request (*JSONRPCRequest argument, no http.ResponseWriter) to a function
// from which the wire-method dispatch table is reachable — "the request is dispatched here", whatever the
// dispatcher's interface or method is called.
func (c *Ctx) isDispatchCall(call ssa.CallInstruction) bool {
	cc := call.Common()
	hasReq := false
	for _, a := range cc.Args {
		switch ir.TypeStr(a.Type()) {
		case "*mcp.JSONRPCRequest":
			hasReq = true
		case "net/http.ResponseWriter":
			return false
		}
	}
	if !hasReq {
		return false
	}
	dr := c.dispatchReach()
	for _, cal := range ir.Callees(c.G, call) {
		if dr[cal] && c.P.IsLib(cal) {
			return true
		}
	}
	return false
}

// isRespondCall: the call hands the HTTP ResponseWriter to a method of a library-declared interface (the responder
// abstraction that writes the answer in JSON or SSE form) — through the interface or directly on an implementing
// type — whatever the interface and method are called.
func isRespondCall(c *Ctx, call ssa.CallInstruction) bool {
	if !passesWriter(call) {
		return false
	}
	cc := call.Common()
	if cc.IsInvoke() {
		return cc.Method != nil && cc.Method.Pkg() != nil && strings.HasPrefix(cc.Method.Pkg().Path(), ir.RootPath)
	}
	sc := ir.StaticCallee(call)
	if sc == nil || !c.P.IsLib(sc) || sc.Signature.Recv() == nil {
		return false
	}
	recv := sc.Signature.Recv().Type()
	for _, pk := range c.P.Pkgs {
		sc2 := pk.Types.Scope()
		for _, name := range sc2.Names() {
			tn, ok := sc2.Lookup(name).(*types.TypeName)
			if !ok {
				continue
			}
			it, ok := tn.Type().Underlying().(*types.Interface)
			if !ok || it.NumMethods() == 0 || !types.Implements(recv, it) {
				continue
			}
			for i := 0; i < it.NumMethods(); i++ {
				if it.Method(i).Name() == sc.Name() {
					return true
				}
			}
		}
	}
	return false
}

// ---- discovery of the library's internal abstractions by shape, not by name ---------------------

// libInterfaces: the named interface types declared in the library's packages.
func (c *Ctx) libInterfaces() []*types.Named {
	var out []*types.Named
	for _, pk := range c.P.Pkgs {
		sc := pk.Types.Scope()
		for _, name := range sc.Names() {
			tn, ok := sc.Lookup(name).(*types.TypeName)
			if !ok {
				continue
			}
			if n, ok := tn.Type().(*types.Named); ok {
				if it, ok := n.Underlying().(*types.Interface); ok && it.NumMethods() > 0 {
					out = append(out, n)
				}
			}
		}
	}
	return out
}

// ifaceMethodTaking: the name of the interface's method that has a parameter of the given type ("" if none).
func ifaceMethodTaking(it *types.Interface, paramType string) string {
	for i := 0; i < it.NumMethods(); i++ {
		sig := it.Method(i).Type().(*types.Signature)
		for j := 0; j < sig.Params().Len(); j++ {
			if ir.TypeStr(sig.Params().At(j).Type()) == paramType {
				return it.Method(i).Name()
			}
		}
	}
	return ""
}

// dispatcherIface: the unexported interface through which transports hand decoded requests and notifications to the
// protocol layer: it has a method taking *JSONRPCRequest and one taking *JSONRPCNotification, and an implementer whose
// request method reaches the wire-method dispatch table.
func (c *Ctx) dispatcherIface() *types.Named {
	dr := c.dispatchReach()
	for _, n := range c.libInterfaces() {
		it := n.Underlying().(*types.Interface)
		rm := ifaceMethodTaking(it, "*mcp.JSONRPCRequest")
		nm := ifaceMethodTaking(it, "*mcp.JSONRPCNotification")
		if rm == "" || nm == "" || n.Obj().Exported() {
			continue
		}
		for _, T := range c.P.Implementers(it) {
			if f := c.P.Method(T, rm); f != nil && dr[f] {
				return n
			}
		}
	}
	return nil
}

// senderIface: the interface handlers use to push notifications to the peer during a call — the result type of the
// exported accessor GetNotificationSender(ctx) (public API, stable).
func (c *Ctx) senderIface() *types.Named {
	for _, fn := range c.P.LibFns {
		if fn.Name() != "GetNotificationSender" || fn.Signature.Recv() != nil || fn.Signature.Results().Len() == 0 {
			continue
		}
		if n, ok := fn.Signature.Results().At(0).Type().(*types.Named); ok {
			if _, isI := n.Underlying().(*types.Interface); isI {
				return n
			}
		}
	}
	return nil
}

// transportIface: the interface type of the member through which the Connector implementers talk to the wire: a
// library-declared interface, implemented by at least two library structs, held in a field of a Connector implementer.
func (c *Ctx) transportIface() *types.Named {
	conn := c.P.RootNamed("Connector")
	if conn == nil {
		return nil
	}
	for _, T := range c.P.Implementers(conn.Underlying().(*types.Interface)) {
		st, ok := T.Underlying().(*types.Struct)
		if !ok {
			continue
		}
		for i := 0; i < st.NumFields(); i++ {
			n, ok := st.Field(i).Type().(*types.Named)
			if !ok || !ir.InLibrary(n) {
				continue
			}
			it, ok := n.Underlying().(*types.Interface)
			if !ok || it.NumMethods() < 3 {
				continue
			}
			if ifaceMethodTaking(it, "*mcp.JSONRPCRequest") != "" && len(c.P.Implementers(it)) >= 2 {
				return n
			}
		}
	}
	return nil
}

// transportCloseMethod: the transport method without parameters returning only an error that the Connector's
// exported Close reaches.
func (c *Ctx) transportCloseMethod(tr *types.Named) string {
	it := tr.Underlying().(*types.Interface)
	cands := map[string]bool{}
	for i := 0; i < it.NumMethods(); i++ {
		sig := it.Method(i).Type().(*types.Signature)
		if sig.Params().Len() == 0 && sig.Results().Len() == 1 && ir.TypeStr(sig.Results().At(0).Type()) == "error" {
			cands[it.Method(i).Name()] = true
		}
	}
	conn := c.P.RootNamed("Connector")
	if conn == nil {
		return ""
	}
	found := ""
	for _, T := range c.P.Implementers(conn.Underlying().(*types.Interface)) {
		cl := c.P.Method(T, "Close")
		if cl == nil {
			continue
		}
		for f := range c.ReachSync(cl) {
			ir.EachCall(f, func(call ssa.CallInstruction) {
				cc := call.Common()
				if cc.IsInvoke() && cands[cc.Method.Name()] && types.Identical(cc.Value.Type(), tr) {
					found = cc.Method.Name()
				}
			})
		}
	}
	return found
}

// getterField: call invokes a library accessor that does nothing but return one member of its receiver (possibly under
// a lock): the key of that member, or "".
func getterField(c *Ctx, v ssa.Value) string {
	call, ok := v.(*ssa.Call)
	if !ok {
		return ""
	}
	sc := ir.StaticCallee(call)
	if sc == nil || !c.P.IsLib(sc) || sc.Signature.Recv() == nil || len(sc.Params) != 1 {
		return ""
	}
	key := ""
	nRet := 0
	ir.EachInstr(sc, func(blk *ssa.BasicBlock, _ int, in ssa.Instruction) {
		r, ok := in.(*ssa.Return)
		if !ok || blk == sc.Recover {
			return
		}
		nRet++
		res := ir.Results(r)
		if len(res) != 1 {
			return
		}
		if f, base, ok := ir.LoadedField(res[0]); ok && base == ssa.Value(sc.Params[0]) {
			key = f.Key()
		}
	})
	if nRet != 1 {
		return ""
	}
	return key
}

// ---- facts established by boolean helpers -------------------------------------------------------

// fieldFact: the bool member `Field` is known to have value `Value` (or, for a test of another shape, the If and edge).
type fieldFact struct {
	Field string
	Value bool
}

// boolFieldFacts: the bool members whose value is known when control reaches block b of fn: from the Ifs that control
// b directly, and from Ifs on the result of library helpers of the form "check and report ok" — a helper whose every
// `return true` lies behind `member == v` establishes that fact for the caller's ok-edge (two levels).
func boolFieldFacts(c *Ctx, fn *ssa.Function, b *ssa.BasicBlock, depth int) []fieldFact {
	var out []fieldFact
	for _, g := range flow.Guards(fn, b) {
		cond := g.If.Cond
		if f, _, ok := ir.LoadedField(cond); ok {
			if bt, isB := f.Type.Underlying().(*types.Basic); isB && bt.Kind() == types.Bool {
				out = append(out, fieldFact{f.Key(), g.Branch})
				continue
			}
		}
		// a bool parameter that every library caller fills from one and the same bool member
		// (setSessionHeader(w, r.isStateless, session))
		if prm, ok := cond.(*ssa.Parameter); ok {
			if bt, isB := prm.Type().Underlying().(*types.Basic); isB && bt.Kind() == types.Bool {
				idx := -1
				for i, q := range fn.Params {
					if q == prm {
						idx = i
					}
				}
				var keys []string
				nCallers, all := 0, true
				for _, e := range ir.Callers(c.G, fn) {
					if e.Site == nil || !c.P.IsLib(e.Caller.Func) {
						continue
					}
					args := e.Site.Common().Args
					nCallers++
					if idx < 0 || idx >= len(args) {
						all = false
						continue
					}
					if f, _, ok := ir.LoadedField(args[idx]); ok {
						keys = append(keys, f.Key())
					} else {
						all = false
					}
				}
				if nCallers > 0 && all {
					// (one fact per caller's member: in each caller's context it is that member the test is about)
					seenK := map[string]bool{}
					for _, k := range keys {
						if !seenK[k] {
							seenK[k] = true
							out = append(out, fieldFact{k, g.Branch})
						}
					}
					continue
				}
			}
		}
		if depth >= 2 {
			continue
		}
		var hc *ssa.Call
		switch x := cond.(type) {
		case *ssa.Call:
			hc = x
		case *ssa.Extract:
			if cl, ok := x.Tuple.(*ssa.Call); ok && x.Index == cl.Call.Signature().Results().Len()-1 {
				hc = cl
			}
		}
		if hc == nil || !g.Branch {
			continue
		}
		sc := ir.StaticCallee(hc)
		if sc == nil || !c.P.IsLib(sc) {
			continue
		}
		out = append(out, helperOKFacts(c, sc, depth+1)...)
	}
	return out
}

// helperOKFacts: facts that hold on every path on which the bool-returning helper returns true (as its last result).
func helperOKFacts(c *Ctx, sc *ssa.Function, depth int) []fieldFact {
	res := sc.Signature.Results()
	if res.Len() == 0 || ir.TypeStr(res.At(res.Len()-1).Type()) != "bool" {
		return nil
	}
	var common map[fieldFact]bool
	first := true
	ir.EachInstr(sc, func(blk *ssa.BasicBlock, _ int, in ssa.Instruction) {
		r, ok := in.(*ssa.Return)
		if !ok || blk == sc.Recover {
			return
		}
		rs := ir.Results(r)
		last := rs[len(rs)-1]
		if cst, ok := last.(*ssa.Const); ok && cst.Value != nil && cst.Value.String() == "false" {
			return // not an ok-return
		}
		facts := map[fieldFact]bool{}
		for _, f := range boolFieldFacts(c, sc, blk, depth) {
			facts[f] = true
		}
		if first {
			common, first = facts, false
			return
		}
		for f := range common {
			if !facts[f] {
				delete(common, f)
			}
		}
	})
	var out []fieldFact
	for f := range common {
		out = append(out, f)
	}
	sort.Slice(out, func(i, j int) bool { return out[i].Field < out[j].Field })
	return out
}

// routeLookup is a place where a handler function is obtained for the method of a request, together with an ok flag:
// a comma-ok lookup in a map of handler functions keyed by the request's method, or a call of a lookup function (one of
// the functions MapLiteralDispatch attributes rows to) with the request's method as argument.
type routeLookup struct {
	fn   *ssa.Function
	at   ssa.Instruction
	val  ssa.Value // the handler function value
	ok   ssa.Value // the found flag
	call *ssa.Call // the dynamic call of val in fn (nil if none)
}

func (c *Ctx) routeLookups() []routeLookup {
	var out []routeLookup
	takesReq := func(t types.Type) bool {
		sig, ok := t.Underlying().(*types.Signature)
		if !ok {
			return false
		}
		for i := 0; i < sig.Params().Len(); i++ {
			if ir.TypeStr(sig.Params().At(i).Type()) == "*mcp.JSONRPCRequest" {
				return true
			}
		}
		return false
	}
	rows := c.MapLiteralDispatch()
	for _, fn := range c.P.LibFns {
		ir.EachInstr(fn, func(_ *ssa.BasicBlock, _ int, in ssa.Instruction) {
			var tuple ssa.Value
			switch x := in.(type) {
			case *ssa.Lookup:
				m, ok := x.X.Type().Underlying().(*types.Map)
				if !ok || !x.CommaOk || !derivesFromMethod(x.Index) || !takesReq(m.Elem()) {
					return
				}
				tuple = x
			case *ssa.Call:
				sc := ir.StaticCallee(x)
				if sc == nil || len(rows[sc]) == 0 || sc.Signature.Results().Len() != 2 || !takesReq(sc.Signature.Results().At(0).Type()) {
					return
				}
				byMethod := false
				for _, a := range x.Call.Args {
					if derivesFromMethod(a) {
						byMethod = true
					}
				}
				if !byMethod {
					return
				}
				tuple = x
			default:
				return
			}
			rl := routeLookup{fn: fn, at: in}
			if tuple.Referrers() != nil {
				for _, r := range *tuple.Referrers() {
					if ex, ok := r.(*ssa.Extract); ok {
						if ex.Index == 0 {
							rl.val = ex
						} else {
							rl.ok = ex
						}
					}
				}
			}
			if rl.val == nil || rl.ok == nil {
				return
			}
			if rl.val.Referrers() != nil {
				for _, r := range *rl.val.Referrers() {
					if call, ok := r.(*ssa.Call); ok && call.Call.Value == rl.val {
						rl.call = call
					}
				}
			}
			out = append(out, rl)
		})
	}
	return out
}
