package rules

import (
	"go/token"
	"go/types"
	"sort"
	"strings"

	"golang.org/x/tools/go/ssa"

	"verif/checker/flow"
	"verif/checker/ir"
)

// C16 — handshake: version negotiation, advertised capabilities, client state machine.
//
//	R-cap-wired         every object computing the advertised capabilities has its registry pointers set
//	(R-flag-typestate also requires Close to clear the flag on every path after the transport was closed)
func init() { Registry["C16"] = checkC16 }

func checkC16(c *Ctx) {
	c.R.Explanation = "Static check of the handshake: the negotiation function (found as the origin of InitializeResult.ProtocolVersion) returns only an operand of a successful equality test with a supported-list element, or the default, and the default is a member of the supported list; " +
		"the capability map is recomputed before the answer is built, 'tools' unconditionally and 'resources'/'prompts' exactly under len(registry listing) > 0, and keys map to like-named fields; " +
		"every Connector operation that reaches the transport is guarded by the initialized flag (discovered as what Initialize sets), the flag is set only after both the request and the initialized notification succeeded, " +
		"error returns leave the client disconnected, Close clears the flag."
	c.R.NotDecided = "what the peer answers; the content of capabilities a user configures as 'experimental'"
	c.R.Assumptions = []string{"Connector implementations keep their handshake state in one boolean/atomic field written by Initialize (true today for Client and StdioClient)"}
	c16Version(c)
	c16Caps(c)
	c16Clients(c)
	// "capabilities follow registration": a listing cache that a sibling registration entry point forgets to invalidate
	// makes the recomputation see the old (empty) listing
	{
		accs := CollectAccesses(c)
		c12DerivedCache(c, discoverRegistries(c, accs), accs)
	}
	// a rejected initialize must reach the client as a failure: the error envelope is handed on whole
	c02ErrorEnvelope(c)
	c16CtorState(c)
}

// ---------------------------------------------------------------- version
func c16Version(c *Ctx) {
	initRes := c.P.RootNamed("InitializeResult")
	if initRes == nil {
		c.R.Break("anchor not found: InitializeResult")
		return
	}
	// where ProtocolVersion is stored on the server side: follow the stored value to the negotiating call
	var negotiators []*ssa.Function
	var builders []*ssa.Function
	fromMember := false
	for _, fn := range c.P.LibFns {
		ir.EachInstr(fn, func(_ *ssa.BasicBlock, _ int, in ssa.Instruction) {
			st, ok := in.(*ssa.Store)
			if !ok {
				return
			}
			f, _, ok := ir.FieldOf(st.Addr)
			if !ok || f.Struct != initRes || f.Name != "ProtocolVersion" {
				return
			}
			builders = append(builders, fn)
			// the version that is answered is computed for this request: a value read back from a member of an object
			// that serves every request (the lifecycle manager) may be the one another client's initialize left there
			if lf, base, ok := ir.LoadedField(unspill(st.Val)); ok && lf.Struct != nil && ir.InLibrary(lf.Struct) && !ir.BaseAlloc(base) && lf.Struct != initRes {
				fromMember = true
				c.R.Violate("R-version-select", "answered version in "+fname(fn), c.Pos(st.Pos()),
					sprintf("%s answers initialize with a protocol version read from %s, a member of an object shared by all requests, instead of the value negotiated for this request: with clients initializing concurrently one client's answer carries the version another client asked for", fname(fn), lf.Key()))
			}
			for _, src := range traceToCalls(c, fn, st.Val, 0) {
				if sc := ir.StaticCallee(src); sc != nil && c.P.IsLib(sc) {
					negotiators = append(negotiators, sc)
				}
			}
		})
	}
	seen := map[*ssa.Function]bool{}
	n := 0
	for _, neg := range negotiators {
		if seen[neg] {
			continue
		}
		seen[neg] = true
		// skip non-negotiators (e.g. a public constructor taking the version verbatim)
		if len(neg.Params) == 0 {
			continue
		}
		hasLoop := false
		scan := []*ssa.Function{neg}
		ir.EachCall(neg, func(call ssa.CallInstruction) {
			if sc := ir.StaticCallee(call); sc != nil && c.P.IsLib(sc) {
				scan = append(scan, sc) // the list may be walked by a predicate helper (supportsVersion(v))
			}
		})
		for _, f := range scan {
			ir.EachInstr(f, func(_ *ssa.BasicBlock, _ int, in ssa.Instruction) {
				if _, ok := in.(*ssa.Range); ok {
					hasLoop = true
				}
				if _, ok := in.(*ssa.IndexAddr); ok {
					hasLoop = true
				}
			})
		}
		if !hasLoop {
			c.R.Violate("R-version-select", "negotiation in "+fname(neg), c.Pos(neg.Pos()), sprintf("%s, which decides the answered protocol version, never consults a list of supported versions", fname(neg)))
			continue
		}
		n++
		checkNegotiator(c, neg)
	}
	if fromMember {
		return // reported above: the negotiation is no longer what the answer is built from
	}
	if n == 0 {
		c.R.Break("no version negotiation function found behind InitializeResult.ProtocolVersion (builders: %d)", len(builders))
	}
	c.R.Min("R-version-select", 3)
}

// traceToCalls follows v backwards (through parameters to the library call sites' arguments) to the calls producing it.
func traceToCalls(c *Ctx, fn *ssa.Function, v ssa.Value, depth int) []*ssa.Call {
	if depth > 4 {
		return nil
	}
	switch x := v.(type) {
	case *ssa.Call:
		return []*ssa.Call{x}
	case *ssa.Field:
		// a member of a per-request record handed down by value (negotiation{version: …}.version)
		return traceRecordField(c, fn, x.X, x.Field, depth+1)
	case *ssa.UnOp:
		if fa, ok := x.X.(*ssa.FieldAddr); ok && x.Op == token.MUL {
			if al, ok := fa.X.(*ssa.Alloc); ok {
				// a local record: what was stored into the member, or into the whole record
				var out []*ssa.Call
				for _, r := range *al.Referrers() {
					if fa2, ok := r.(*ssa.FieldAddr); ok && fa2.Field == fa.Field {
						for _, u := range *fa2.Referrers() {
							if st, ok := u.(*ssa.Store); ok && st.Addr == ssa.Value(fa2) {
								out = append(out, traceToCalls(c, fn, st.Val, depth+1)...)
							}
						}
					}
					if st, ok := r.(*ssa.Store); ok && st.Addr == ssa.Value(al) {
						out = append(out, traceRecordField(c, fn, st.Val, fa.Field, depth+1)...)
					}
				}
				return out
			}
		}
		return nil
	case *ssa.Extract:
		return traceToCalls(c, fn, x.Tuple, depth+1)
	case *ssa.Phi:
		var out []*ssa.Call
		for _, e := range x.Edges {
			out = append(out, traceToCalls(c, fn, e, depth+1)...)
		}
		return out
	case *ssa.Parameter:
		idx := -1
		for i, p := range fn.Params {
			if p == x {
				idx = i
			}
		}
		var out []*ssa.Call
		for _, e := range ir.Callers(c.G, fn) {
			if e.Site == nil || !c.P.IsLib(e.Caller.Func) {
				continue
			}
			args := e.Site.Common().Args
			if idx >= 0 && idx < len(args) {
				out = append(out, traceToCalls(c, e.Caller.Func, args[idx], depth+1)...)
			}
		}
		return out
	}
	return nil
}

func checkNegotiator(c *Ctx, neg *ssa.Function) {
	construct := "negotiation in " + fname(neg)
	var defField, listField string
	pd := flow.NewPostDom(neg)
	okAll := true
	nRet := 0
	ir.EachInstr(neg, func(_ *ssa.BasicBlock, _ int, in ssa.Instruction) {
		r, ok := in.(*ssa.Return)
		if !ok || len(ir.Results(r)) != 1 {
			return
		}
		nRet++
		res := ir.Results(r)[0]
		// default: a load of a string field of the receiver
		if f, _, ok := ir.LoadedField(res); ok {
			defField = f.Key()
			return
		}
		// match path: control dependent on an equality one operand of which is a list element, and the result is an operand
		matched := false
		for _, g := range pd.ControlDepsTransitive(r.Block()) {
			bin, ok := g.If.Cond.(*ssa.BinOp)
			if !ok || bin.Op != token.EQL || !g.Branch {
				continue
			}
			elemX, lfX := listElement(bin.X)
			elemY, lfY := listElement(bin.Y)
			if !elemX && !elemY {
				continue
			}
			if elemX {
				listField = lfX
			} else {
				listField = lfY
			}
			if res == bin.X || res == bin.Y {
				matched = true
			}
		}
		// ... or on the true edge of a predicate helper that returns true only after such a test of its argument
		for _, g := range pd.ControlDepsTransitive(r.Block()) {
			hc, ok := g.If.Cond.(*ssa.Call)
			if !ok || !g.Branch || matched {
				continue
			}
			sc := ir.StaticCallee(hc)
			if sc == nil || !c.P.IsLib(sc) {
				continue
			}
			pj := -1
			for j, a := range hc.Call.Args {
				if a == res && j < len(sc.Params) {
					pj = j
				}
			}
			if pj < 0 {
				continue
			}
			hpd := flow.NewPostDom(sc)
			allTrue, nTrue := true, 0
			ir.EachInstr(sc, func(b *ssa.BasicBlock, _ int, in2 ssa.Instruction) {
				hr, ok := in2.(*ssa.Return)
				if !ok || b == sc.Recover || len(ir.Results(hr)) != 1 {
					return
				}
				if cst, ok := ir.Results(hr)[0].(*ssa.Const); ok && cst.Value != nil && cst.Value.String() == "false" {
					return
				}
				nTrue++
				okRet := false
				for _, hg := range hpd.ControlDepsTransitive(b) {
					hb, ok := hg.If.Cond.(*ssa.BinOp)
					if !ok || hb.Op != token.EQL || !hg.Branch {
						continue
					}
					ex, lfx := listElement(hb.X)
					ey, lfy := listElement(hb.Y)
					if ex && hb.Y == ssa.Value(sc.Params[pj]) {
						okRet, listField = true, lfx
					}
					if ey && hb.X == ssa.Value(sc.Params[pj]) {
						okRet, listField = true, lfy
					}
				}
				if !okRet {
					allTrue = false
				}
			})
			if allTrue && nTrue > 0 {
				matched = true
			}
		}
		if !matched {
			okAll = false
			c.R.Violate("R-version-select", construct+": returned value", ipos(c, r),
				sprintf("%s can return a value that is neither the default nor an operand of a successful equality test against a supported-list element: an unsupported version string can be answered", fname(neg)))
		}
	})
	if okAll && nRet > 0 {
		c.R.Hold("R-version-select", construct+": returned value", c.Pos(neg.Pos()), "returns the matched operand or the default")
	}
	c.R.Check(defField != "", "R-version-select", construct+": default", c.Pos(neg.Pos()), "falls back to the configured default "+defField, "no fallback to a configured default version")
	// default ∈ supported list, from the constructor's stores
	if defField == "" || listField == "" {
		c.R.Add(reportUndecided("R-version-select", construct+": default is supported", c.Pos(neg.Pos()), "default/list fields not identified"))
		return
	}
	defaults := map[string]bool{}
	where := map[string]string{}
	listed := map[string]bool{}
	for _, fn := range c.P.LibFns {
		if !c.InitOnly()[fn] {
			continue
		}
		ir.EachInstr(fn, func(_ *ssa.BasicBlock, _ int, in ssa.Instruction) {
			st, ok := in.(*ssa.Store)
			if !ok {
				return
			}
			f, _, ok := ir.FieldOf(st.Addr)
			if !ok {
				return
			}
			if f.Key() == defField {
				if s, ok := ir.ConstStr(st.Val); ok {
					defaults[s] = true
				}
			}
			if f.Key() == listField {
				lv := st.Val
				// the list may come from a function that returns the literal (serverProtocolVersions())
				if lc, ok := lv.(*ssa.Call); ok {
					if sc := ir.StaticCallee(lc); sc != nil && c.P.IsLib(sc) {
						ir.EachInstr(sc, func(b *ssa.BasicBlock, _ int, in3 ssa.Instruction) {
							if r, ok := in3.(*ssa.Return); ok && b != sc.Recover && len(ir.Results(r)) == 1 {
								lv = ir.Results(r)[0]
							}
						})
					}
				}
				if sl, ok := lv.(*ssa.Slice); ok {
					if al, ok := sl.X.(*ssa.Alloc); ok {
						for _, r := range *al.Referrers() {
							if ia, ok := r.(*ssa.IndexAddr); ok {
								for _, rr := range *ia.Referrers() {
									if s2, ok := rr.(*ssa.Store); ok {
										if s, ok := ir.ConstStr(s2.Val); ok {
											listed[s] = true
										}
									}
								}
							}
						}
					}
				}
			}
		})
	}
	// values that reach the default through a setter (withProtocolVersion(v)): constants at its library call sites
	for _, fn := range c.P.LibFns {
		ir.EachInstr(fn, func(_ *ssa.BasicBlock, _ int, in ssa.Instruction) {
			st, ok := in.(*ssa.Store)
			if !ok {
				return
			}
			f, _, ok := ir.FieldOf(st.Addr)
			if !ok || f.Key() != defField {
				return
			}
			p, isParam := st.Val.(*ssa.Parameter)
			if !isParam {
				return
			}
			idx := -1
			for i, q := range fn.Params {
				if q == p {
					idx = i
				}
			}
			for _, e := range ir.Callers(c.G, fn) {
				if e.Site == nil || !c.P.IsLib(e.Caller.Func) || idx < 0 || idx >= len(e.Site.Common().Args) {
					continue
				}
				if sv, ok := ir.ConstStr(e.Site.Common().Args[idx]); ok {
					defaults[sv] = true
					if where[sv] == "" {
						where[sv] = fname(e.Caller.Func)
					}
				}
			}
		})
	}
	okDef := len(defaults) > 0
	var ds []string
	for d := range defaults {
		ds = append(ds, d)
		if !listed[d] {
			okDef = false
		}
	}
	sort.Strings(ds)
	c.R.Check(okDef, "R-version-select", construct+": default is supported", c.Pos(neg.Pos()), sprintf("default %v is in the supported list (%d entries)", ds, len(listed)),
		sprintf("the default protocol version %v is not a member of the supported-version list: the server can answer a version it does not support", ds))
	// "otherwise with its own latest version": protocol versions are dates, the latest is the greatest listed one
	latest := ""
	for v := range listed {
		if v > latest {
			latest = v
		}
	}
	okLatest := latest != ""
	older := ""
	for _, d := range ds {
		if d != latest {
			okLatest = false
			older = d
			if where[d] != "" {
				older = d + " (set by " + where[d] + ")"
			}
		}
	}
	c.R.Check(okLatest, "R-version-select", construct+": default is the latest", c.Pos(neg.Pos()), sprintf("every server falls back to %s, the latest supported version", latest),
		sprintf("a server falls back to protocol version %s although it supports %s: a client that asks for an unknown version is answered with an old version instead of the server's latest, and differently from the other servers", older, latest))
}

// listElement: v is an element of a slice loaded from a struct field (range or index).
func listElement(v ssa.Value) (bool, string) {
	switch x := v.(type) {
	case *ssa.UnOp:
		if ia, ok := x.X.(*ssa.IndexAddr); ok {
			if f, _, ok := ir.LoadedField(ia.X); ok {
				return true, f.Key()
			}
		}
	case *ssa.Extract:
		if nx, ok := x.Tuple.(*ssa.Next); ok {
			if rg, ok := nx.Iter.(*ssa.Range); ok {
				if f, _, ok := ir.LoadedField(rg.X); ok {
					return true, f.Key()
				}
			}
		}
	case *ssa.Index:
		if f, _, ok := ir.LoadedField(x.X); ok {
			return true, f.Key()
		}
	}
	return false, ""
}

// ---------------------------------------------------------------- capabilities
func c16Caps(c *Ctx) {
	accs := CollectAccesses(c)
	ri := discoverRegistries(c, accs)
	// the capability recomputation must look at the registries the server registers into: a dispatcher constructed
	// without them falls back to fresh, empty ones (and may re-wire the shared lifecycle manager to those)
	c12OneRegistry(c, ri.owners)
	regOf := func(prefix string) string {
		var fns []*ssa.Function
		for _, T := range c.serverTypes() {
			for _, f := range c.methodsWithPrefix(T, prefix) {
				if !strings.HasPrefix(f.Name(), "RegisterResourceTemplate") {
					fns = append(fns, f)
				}
			}
		}
		reach := c.ReachSync(fns...)
		for _, a := range accs {
			if reach[a.Fn] && a.Kind == "map-update" && ri.maps[a.Field] {
				return a.Field
			}
		}
		return ""
	}
	resMap, promptMap := regOf("RegisterResource"), regOf("RegisterPrompt")
	if resMap == "" || promptMap == "" {
		c.R.Break("resource/prompt registries not discovered (%q, %q)", resMap, promptMap)
		return
	}
	readsRegistry := func(call *ssa.Call, reg string) bool {
		for _, cal := range ir.Callees(c.G, call) {
			if !c.P.IsLib(cal) {
				continue
			}
			for f := range c.ReachSync(cal) {
				for _, a := range accs {
					if a.Fn == f && a.Field == reg {
						return true
					}
				}
			}
		}
		return false
	}
	// the recomputation: function with MapUpdate of constant key "tools" into a fresh map stored into a field afterwards
	// (the function that adds the conditional capabilities; the unconditional part may come from a helper that builds
	// the base map)
	var recompute *ssa.Function
	rank := 0
	for _, fn := range c.P.LibFns {
		if c.InitOnly()[fn] {
			continue
		}
		ir.EachInstr(fn, func(_ *ssa.BasicBlock, _ int, in ssa.Instruction) {
			if mu, ok := in.(*ssa.MapUpdate); ok {
				if k, ok := ir.ConstStr(ir.Unwrap(mu.Key)); ok {
					r := 0
					switch k {
					case "tools":
						r = 1
					case "resources", "prompts":
						r = 2
					}
					if r > rank {
						recompute, rank = fn, r
					}
				}
			}
		})
	}
	if recompute == nil {
		c.R.Break("capability recomputation (a post-construction function storing key \"tools\") not found")
		return
	}
	pd := flow.NewPostDom(recompute)
	found := map[string]bool{}
	wiring := map[string]bool{}
	defer func() { c16CapWired(c, recompute, wiring) }()
	ir.EachInstr(recompute, func(_ *ssa.BasicBlock, _ int, in ssa.Instruction) {
		mu, ok := in.(*ssa.MapUpdate)
		if !ok {
			return
		}
		k, ok := ir.ConstStr(ir.Unwrap(mu.Key))
		if !ok {
			return
		}
		deps := pd.ControlDepsTransitive(mu.Block())
		construct := sprintf("capability %q in %s", k, fname(recompute))
		// what is advertised under a key is fixed: a constant or a map built here — not a value computed from the
		// server's mode or configuration (every kind of server, in every mode, advertises the same for the same registry)
		switch v := ir.Unwrap(mu.Value).(type) {
		case *ssa.Const, *ssa.MakeMap:
		default:
			if f, _, ok := ir.LoadedField(v); ok {
				c.R.Violate("R-cap-guards", sprintf("content of %q in %s", k, fname(recompute)), c.Pos(mu.Pos()),
					sprintf("the value advertised under %q is loaded from %s: servers configured differently answer initialize with different capabilities for the same registrations", k, f.Key()))
			} else if un, ok := v.(*ssa.UnOp); ok && un.Op == token.NOT {
				if f, _, ok := ir.LoadedField(un.X); ok {
					c.R.Violate("R-cap-guards", sprintf("content of %q in %s", k, fname(recompute)), c.Pos(mu.Pos()),
						sprintf("the value advertised under %q is computed from %s: servers in different modes answer initialize with different capabilities for the same registrations", k, f.Key()))
				}
			}
		}
		switch k {
		case "tools":
			found[k] = true
			c.R.Check(len(deps) == 0, "R-cap-guards", construct, c.Pos(mu.Pos()), "advertised unconditionally", "the tools capability is advertised only under a condition; it must always be present")
		case "resources", "prompts":
			found[k] = true
			reg := resMap
			if k == "prompts" {
				reg = promptMap
			}
			okGuard, extra := false, ""
			for _, g := range deps {
				cond := g.If.Cond
				if bin, ok := cond.(*ssa.BinOp); ok && g.Branch {
					// len(list()) > 0   or   0 < len(list())   or  len(...) != 0 / >= 1
					var lenv ssa.Value
					switch {
					case bin.Op == token.GTR && isZero(bin.Y):
						lenv = bin.X
					case bin.Op == token.LSS && isZero(bin.X):
						lenv = bin.Y
					case bin.Op == token.NEQ && isZero(bin.Y):
						lenv = bin.X
					case bin.Op == token.GEQ && isOne(bin.Y):
						lenv = bin.X
					}
					if lc, ok := lenv.(*ssa.Call); ok {
						if b, ok := lc.Call.Value.(*ssa.Builtin); ok && b.Name() == "len" {
							if src, ok := lc.Call.Args[0].(*ssa.Call); ok && readsRegistry(src, reg) {
								// ... the whole registry, not what a per-caller list filter leaves of it
								if uc := userCallbackReached(c, src); uc != "" {
									extra = "the listing runs user code (" + uc + "): what is advertised then depends on who initializes"
									continue
								}
								okGuard = true
								continue
							}
						}
					}
				}
				// a predicate helper (hasResources()) that returns `manager != nil && len(listing) > 0`
				if hc, ok := cond.(*ssa.Call); ok && g.Branch {
					if sc := ir.StaticCallee(hc); sc != nil && c.P.IsLib(sc) {
						okH, nRet := true, 0
						ir.EachInstr(sc, func(b *ssa.BasicBlock, _ int, in2 ssa.Instruction) {
							r, ok := in2.(*ssa.Return)
							if !ok || b == sc.Recover || len(ir.Results(r)) != 1 {
								return
							}
							nRet++
							vals := []ssa.Value{ir.Results(r)[0]}
							if phi, ok := vals[0].(*ssa.Phi); ok {
								vals = phi.Edges
							}
							sawLen := false
							for _, v := range vals {
								if cst, ok := v.(*ssa.Const); ok && cst.Value != nil && cst.Value.String() == "false" {
									continue
								}
								bin, ok := v.(*ssa.BinOp)
								if !ok {
									okH = false
									continue
								}
								var lenv ssa.Value
								switch {
								case bin.Op == token.GTR && isZero(bin.Y):
									lenv = bin.X
								case bin.Op == token.LSS && isZero(bin.X):
									lenv = bin.Y
								case bin.Op == token.NEQ && isZero(bin.Y):
									lenv = bin.X
								case bin.Op == token.GEQ && isOne(bin.Y):
									lenv = bin.X
								}
								lc, ok := lenv.(*ssa.Call)
								if !ok {
									okH = false
									continue
								}
								if b2, ok := lc.Call.Value.(*ssa.Builtin); !ok || b2.Name() != "len" {
									okH = false
									continue
								}
								src, ok := lc.Call.Args[0].(*ssa.Call)
								if !ok || !readsRegistry(src, reg) || userCallbackReached(c, src) != "" {
									okH = false
									continue
								}
								sawLen = true
							}
							if !sawLen {
								okH = false
							}
						})
						// the helper's own branches: nil tests of the manager only
						for _, b := range sc.Blocks {
							if len(b.Instrs) == 0 {
								continue
							}
							if ifi, ok := b.Instrs[len(b.Instrs)-1].(*ssa.If); ok {
								if v, _, ok := nilCompare(ifi.Cond); ok {
									if f, _, ok := ir.LoadedField(v); ok {
										wiring[f.Key()] = true
									}
								} else {
									okH = false
								}
							}
						}
						if okH && nRet > 0 {
							okGuard = true
							continue
						}
					}
				}
				// nil checks of the manager are fine; anything else is an extra condition
				if v, _, ok := nilCompare(cond); ok {
					if _, isPtr := v.Type().Underlying().(*types.Pointer); isPtr {
						if f, _, ok := ir.LoadedField(v); ok {
							wiring[f.Key()] = true // the capability silently disappears if this member was never set
						}
						continue
					}
				}
				extra = "an additional condition at " + ipos(c, g.If)
			}
			c.R.Check(okGuard && extra == "", "R-cap-guards", construct, c.Pos(mu.Pos()),
				"advertised exactly when the registry listing is non-empty",
				sprintf("the %s capability is not advertised exactly when at least one entry is registered (needs: len(listing of %s) > 0 and nothing else)%s", k, reg, ifs(extra != "", "; found "+extra, "")))
		}
	})
	// "tools" may be part of a base map that a straight-line helper builds and the recomputation starts from
	if !found["tools"] {
		ir.EachInstr(recompute, func(_ *ssa.BasicBlock, _ int, in ssa.Instruction) {
			call, ok := in.(*ssa.Call)
			if !ok || found["tools"] {
				return
			}
			sc := ir.StaticCallee(call)
			if sc == nil || !c.P.IsLib(sc) || len(pd.ControlDepsTransitive(call.Block())) > 0 {
				return
			}
			if _, isMap := call.Type().Underlying().(*types.Map); !isMap {
				return
			}
			hpd := flow.NewPostDom(sc)
			ir.EachInstr(sc, func(_ *ssa.BasicBlock, _ int, in2 ssa.Instruction) {
				if mu, ok := in2.(*ssa.MapUpdate); ok {
					if k, ok := ir.ConstStr(ir.Unwrap(mu.Key)); ok && k == "tools" && len(hpd.ControlDepsTransitive(mu.Block())) == 0 {
						found["tools"] = true
						c.R.Hold("R-cap-guards", sprintf("capability %q in %s", k, fname(recompute)), c.Pos(call.Pos()), "advertised unconditionally (base map built by "+fname(sc)+")")
					}
				}
			})
		})
	}
	for _, k := range []string{"tools", "resources", "prompts"} {
		if !found[k] {
			c.R.Violate("R-cap-guards", sprintf("capability %q", k), c.Pos(recompute.Pos()), sprintf("the capability recomputation never stores key %q", k))
		}
	}
	// recomputation precedes the answer: in the initialize handler the call dominates the builder call
	initRes := c.P.RootNamed("InitializeResult")
	var builder *ssa.Function
	for _, fn := range c.P.LibFns {
		ir.EachInstr(fn, func(_ *ssa.BasicBlock, _ int, in ssa.Instruction) {
			if st, ok := in.(*ssa.Store); ok {
				if f, _, ok := ir.FieldOf(st.Addr); ok && f.Struct == initRes && f.Name == "Capabilities" && !(fn.Signature.Recv() == nil && fn.Object() != nil && fn.Object().Exported()) {
					builder = fn
				}
			}
		})
	}
	ordered := 0
	if builder != nil {
		for _, e := range ir.Callers(c.G, builder) {
			caller := e.Caller.Func
			if e.Site == nil || !c.P.IsLib(caller) {
				continue
			}
			okOrder := false
			ir.EachInstr(caller, func(_ *ssa.BasicBlock, _ int, in ssa.Instruction) {
				if call, ok := in.(*ssa.Call); ok && ir.StaticCallee(call) == recompute && flow.Dominates(call, e.Site) {
					okOrder = true
				}
			})
			ordered++
			c.R.Check(okOrder, "R-cap-guards", "recompute before answer in "+fname(caller), c.Pos(e.Site.Pos()), "capabilities are recomputed before the initialize answer is built",
				sprintf("%s builds the initialize answer without recomputing the capabilities first: entries registered since the last handshake are not advertised", fname(caller)))
		}
	}
	if ordered == 0 {
		c.R.Break("could not find the call site building the initialize answer")
	}
	// key -> like-named field in the map→struct conversion
	caps := c.P.RootNamed("ServerCapabilities")
	for _, fn := range c.P.LibFns {
		pdf := (*flow.PostDom)(nil)
		ir.EachInstr(fn, func(_ *ssa.BasicBlock, _ int, in ssa.Instruction) {
			st, ok := in.(*ssa.Store)
			if !ok {
				return
			}
			f, _, ok := ir.FieldOf(st.Addr)
			if !ok || f.Struct != caps {
				return
			}
			if _, isPtr := f.Type.(*types.Pointer); !isPtr {
				return
			}
			if pdf == nil {
				pdf = flow.NewPostDom(fn)
			}
			want := strings.ToLower(f.Name)
			keyOK := false
			for _, g := range pdf.ControlDepsTransitive(st.Block()) {
				if k := lookupKeyOf(g.If.Cond); k == want {
					keyOK = true
				}
			}
			c.R.Check(keyOK, "R-cap-guards", sprintf("capability field %s set in %s", f.Name, fname(fn)), c.Pos(st.Pos()),
				"set under the presence of the like-named key", sprintf("%s sets ServerCapabilities.%s under a key other than %q", fname(fn), f.Name, want))
		})
	}
	c.R.Min("R-cap-guards", 7)

	// server name/version come from the configured Implementation
	nInfo := 0
	for _, fn := range c.P.LibFns {
		ir.EachInstr(fn, func(_ *ssa.BasicBlock, _ int, in ssa.Instruction) {
			st, ok := in.(*ssa.Store)
			if !ok {
				return
			}
			fa, ok := st.Addr.(*ssa.FieldAddr)
			if !ok {
				return
			}
			f, base, ok := ir.FieldOf(fa)
			if !ok || f.Struct == nil || f.Struct.Obj().Name() != "Implementation" || (f.Name != "Name" && f.Name != "Version") {
				return
			}
			pf, _, ok := ir.FieldOf(base)
			if !ok || pf.Struct != initRes || pf.Name != "ServerInfo" {
				return
			}
			nInfo++
			src, _, okSrc := ir.LoadedField(st.Val)
			c.R.Check(okSrc && src.Name == f.Name && src.Struct != nil && src.Struct.Obj().Name() == "Implementation",
				"R-server-info", "ServerInfo."+f.Name+" in "+fname(fn), c.Pos(st.Pos()), "copied from the configured Implementation",
				sprintf("%s fills InitializeResult.ServerInfo.%s from something other than the configured Implementation.%s", fname(fn), f.Name, f.Name))
		})
	}
	c.R.Min("R-server-info", 2)
}

func ifs(b bool, a, c string) string {
	if b {
		return a
	}
	return c
}
func isZero(v ssa.Value) bool { n, ok := ir.ConstInt(v); return ok && n == 0 }
func isOne(v ssa.Value) bool  { n, ok := ir.ConstInt(v); return ok && n == 1 }

// lookupKeyOf: cond is the ok of `m[K].(T)` / `m[K]` with constant key K (or a map presence test).
func lookupKeyOf(cond ssa.Value) string {
	ex, ok := cond.(*ssa.Extract)
	if !ok || ex.Index != 1 {
		return ""
	}
	var lk *ssa.Lookup
	switch t := ex.Tuple.(type) {
	case *ssa.TypeAssert:
		switch y := t.X.(type) {
		case *ssa.Lookup:
			lk = y
		case *ssa.Extract:
			lk, _ = y.Tuple.(*ssa.Lookup)
		}
	case *ssa.Lookup:
		lk = t
	}
	if lk == nil {
		return ""
	}
	k, _ := ir.ConstStr(ir.Unwrap(lk.Index))
	return k
}

// ---------------------------------------------------------------- clients
type flagInfo struct {
	T        *types.Named
	field    string
	setter   map[*ssa.Function]bool
	getter   map[*ssa.Function]bool
	inHelper bool // (re-entrancy guard of write)
}

// flagWrite: does `in` write the flag, and which constant?
func (fi *flagInfo) write(in ssa.Instruction) (val string, ok bool) {
	constBool := func(v ssa.Value) string {
		if cst, ok := v.(*ssa.Const); ok && cst.Value != nil {
			return cst.Value.String()
		}
		return "?"
	}
	switch x := in.(type) {
	case *ssa.Store:
		if fa, ok := x.Addr.(*ssa.FieldAddr); ok {
			if key, _, _, _ := ir.FullField(fa); key == fi.field {
				return constBool(x.Val), true
			}
		}
	case *ssa.Call:
		n := ir.CallName(x)
		if n == "(*sync/atomic.Bool).Store" {
			if fa, ok := x.Call.Args[0].(*ssa.FieldAddr); ok {
				if key, _, _, _ := ir.FullField(fa); key == fi.field {
					return constBool(x.Call.Args[1]), true
				}
			}
		}
		if sc := ir.StaticCallee(x); sc != nil && fi.setter[sc] && len(x.Call.Args) == 2 {
			return constBool(x.Call.Args[1]), true
		}
		// a straight-line helper that writes the flag (markClosed(): setState(…); setInitialized(false))
		if sc := ir.StaticCallee(x); sc != nil && ir.LibraryFuncs[sc] && len(sc.Blocks) == 1 && !fi.inHelper {
			fi.inHelper = true
			defer func() { fi.inHelper = false }()
			for _, in2 := range sc.Blocks[0].Instrs {
				if v, ok := fi.write(in2); ok {
					return v, true
				}
			}
		}
	}
	return "", false
}

func (fi *flagInfo) isRead(v ssa.Value) bool {
	switch x := v.(type) {
	case *ssa.UnOp:
		if x.Op == token.NOT {
			return fi.isRead(x.X)
		}
		if fa, ok := x.X.(*ssa.FieldAddr); ok {
			key, _, _, _ := ir.FullField(fa)
			return key == fi.field
		}
	case *ssa.Call:
		if ir.CallName(x) == "(*sync/atomic.Bool).Load" {
			if fa, ok := x.Call.Args[0].(*ssa.FieldAddr); ok {
				key, _, _, _ := ir.FullField(fa)
				return key == fi.field
			}
		}
		if sc := ir.StaticCallee(x); sc != nil && fi.getter[sc] {
			return true
		}
	}
	return false
}

func discoverFlag(c *Ctx, T *types.Named) *flagInfo {
	initM := c.P.Method(T, "Initialize")
	if initM == nil {
		return nil
	}
	fi := &flagInfo{T: T, setter: map[*ssa.Function]bool{}, getter: map[*ssa.Function]bool{}}
	tk := ir.TypeKey(T)
	isBoolish := func(t types.Type) bool {
		if b, ok := t.Underlying().(*types.Basic); ok && b.Kind() == types.Bool {
			return true
		}
		return ir.TypeStr(t) == "sync/atomic.Bool"
	}
	// setters/getters of boolean fields of T
	setterField := map[*ssa.Function]string{}
	for _, fn := range c.P.LibFns {
		if fn.Signature.Recv() == nil || len(fn.Params) != 2 {
			continue
		}
		ir.EachInstr(fn, func(_ *ssa.BasicBlock, _ int, in ssa.Instruction) {
			if st, ok := in.(*ssa.Store); ok && st.Val == fn.Params[1] {
				if fa, ok := st.Addr.(*ssa.FieldAddr); ok {
					if key, owner, typ, _ := ir.FullField(fa); owner == tk && isBoolish(typ) {
						setterField[fn] = key
					}
				}
			}
		})
	}
	// which boolean field does Initialize set to true? (itself, or in a method of the same type it calls: a handshake
	// split into steps)
	scan := []*ssa.Function{initM}
	for d := 0; d < 2; d++ {
		for _, f := range scan {
			ir.EachCall(f, func(call ssa.CallInstruction) {
				sc := ir.StaticCallee(call)
				if sc == nil || !c.P.IsLib(sc) || sc.Signature.Recv() == nil || setterField[sc] != "" {
					return
				}
				rt := sc.Signature.Recv().Type()
				if pt, ok := rt.(*types.Pointer); ok {
					rt = pt.Elem()
				}
				if nt, ok := rt.(*types.Named); !ok || ir.TypeKey(nt) != tk {
					return
				}
				for _, g := range scan {
					if g == sc {
						return
					}
				}
				scan = append(scan, sc)
			})
		}
	}
	for _, scanned := range scan {
		ir.EachInstr(scanned, func(_ *ssa.BasicBlock, _ int, in ssa.Instruction) {
			switch x := in.(type) {
			case *ssa.Store:
				if fa, ok := x.Addr.(*ssa.FieldAddr); ok {
					if key, owner, typ, _ := ir.FullField(fa); owner == tk && isBoolish(typ) {
						if cst, ok := x.Val.(*ssa.Const); ok && cst.Value != nil && cst.Value.String() == "true" {
							fi.field = key
						}
					}
				}
			case *ssa.Call:
				if ir.CallName(x) == "(*sync/atomic.Bool).Store" {
					if fa, ok := x.Call.Args[0].(*ssa.FieldAddr); ok {
						if key, owner, _, _ := ir.FullField(fa); owner == tk {
							if cst, ok := x.Call.Args[1].(*ssa.Const); ok && cst.Value != nil && cst.Value.String() == "true" {
								fi.field = key
							}
						}
					}
				}
				if sc := ir.StaticCallee(x); sc != nil && setterField[sc] != "" && len(x.Call.Args) == 2 {
					if cst, ok := x.Call.Args[1].(*ssa.Const); ok && cst.Value != nil && cst.Value.String() == "true" {
						fi.field = setterField[sc]
					}
				}
			}
		})
	}
	if fi.field == "" {
		return nil
	}
	for fn, k := range setterField {
		if k == fi.field {
			fi.setter[fn] = true
		}
	}
	for _, fn := range c.P.LibFns {
		if fn.Signature.Recv() == nil || len(fn.Params) != 1 || fn.Signature.Results().Len() != 1 {
			continue
		}
		ir.EachInstr(fn, func(_ *ssa.BasicBlock, _ int, in ssa.Instruction) {
			if r, ok := in.(*ssa.Return); ok && len(ir.Results(r)) == 1 {
				tmp := &flagInfo{field: fi.field, getter: map[*ssa.Function]bool{}}
				if tmp.isRead(unspill(ir.Results(r)[0])) {
					fi.getter[fn] = true
				}
			}
		})
	}
	return fi
}

func c16Clients(c *Ctx) {
	conn := c.P.RootNamed("Connector")
	if conn == nil {
		c.R.Break("anchor not found: Connector interface")
		return
	}
	iface := conn.Underlying().(*types.Interface)
	impls := c.P.Implementers(iface)
	if len(impls) < 2 {
		c.R.Break("expected at least two Connector implementations, found %d", len(impls))
	}
	// transport sends: library functions named by the transport interface's send methods
	trIface := c.transportIface()
	sendFns := map[*ssa.Function]bool{}
	if trIface != nil {
		for _, T := range c.P.Implementers(trIface.Underlying().(*types.Interface)) {
			tri := trIface.Underlying().(*types.Interface)
			for _, m := range []string{ifaceMethodTaking(tri, "*mcp.JSONRPCRequest"), ifaceMethodTaking(tri, "*mcp.JSONRPCNotification")} {
				if f := c.P.Method(T, m); f != nil {
					sendFns[f] = true
				}
			}
		}
	}
	if len(sendFns) < 6 {
		c.R.Break("transport send functions not discovered (%d)", len(sendFns))
		return
	}
	reachesSend := func(call ssa.CallInstruction) bool {
		for _, cal := range ir.Callees(c.G, call) {
			if sendFns[cal] {
				return true
			}
			if c.P.IsLib(cal) {
				for f := range c.ReachSync(cal) {
					if sendFns[f] {
						return true
					}
				}
			}
		}
		return false
	}
	for _, T := range impls {
		fi := discoverFlag(c, T)
		tn := ir.TypeKey(T)
		if fi == nil {
			c.R.Break("initialized flag of %s not discovered", tn)
			continue
		}
		for i := 0; i < iface.NumMethods(); i++ {
			mname := iface.Method(i).Name()
			m := c.P.Method(T, mname)
			if m == nil {
				continue
			}
			var sends []*ssa.Call
			ir.EachInstr(m, func(_ *ssa.BasicBlock, _ int, in ssa.Instruction) {
				if call, ok := in.(*ssa.Call); ok && reachesSend(call) {
					sends = append(sends, call)
				}
			})
			if len(sends) == 0 {
				continue
			}
			construct := tn + "." + mname
			if mname == "Close" {
				continue
			}
			wantFlag := mname != "Initialize" // operations need flag true; Initialize needs flag false
			okAll := true
			for _, s := range sends {
				guarded := false
				for _, g := range flow.Guards(m, s.Block()) {
					cond := g.If.Cond
					pol := g.Branch
					if u, ok := cond.(*ssa.UnOp); ok && u.Op == token.NOT {
						cond, pol = u.X, !pol
					}
					if fi.isRead(cond) && pol == wantFlag {
						guarded = true
					}
				}
				if !guarded {
					okAll = false
				}
			}
			if wantFlag {
				c.R.Check(okAll, "R-client-guard", construct, c.Pos(m.Pos()), "transport reached only on the initialized edge of the flag test",
					sprintf("%s reaches the transport without first testing the initialized flag %s: the operation touches the network / spawns the child before a successful handshake", construct, fi.field))
			} else {
				c.R.Check(okAll, "R-client-guard", construct, c.Pos(m.Pos()), "a second handshake is refused before the transport is touched",
					sprintf("%s does not refuse a second handshake (transport reached although the flag %s may already be set)", construct, fi.field))
			}
		}
		c16Typestate(c, T, fi, reachesSend)
	}
	c.R.Min("R-client-guard", 14)
	c.R.Min("R-flag-typestate", 6)
}

func c16Typestate(c *Ctx, T *types.Named, fi *flagInfo, reachesSend func(ssa.CallInstruction) bool) {
	tn := ir.TypeKey(T)
	initM := c.P.Method(T, "Initialize")
	closeM := c.P.Method(T, "Close")
	// steps of the handshake: methods of the same type that only Initialize calls (completeHandshake, ...); what holds
	// for Initialize is required of them together with their call site
	stepSite := map[*ssa.Function]*ssa.Call{}
	if initM != nil {
		for _, fn := range c.P.LibFns {
			if fn == initM || fn.Signature.Recv() == nil || fi.setter[fn] || fi.getter[fn] {
				continue
			}
			rt := fn.Signature.Recv().Type()
			if pt, ok := rt.(*types.Pointer); ok {
				rt = pt.Elem()
			}
			if nt, ok := rt.(*types.Named); !ok || nt != T {
				continue
			}
			var site *ssa.Call
			n, only := 0, true
			for _, e := range ir.Callers(c.G, fn) {
				if e.Site == nil || !c.P.IsLib(e.Caller.Func) {
					continue
				}
				n++
				if call, ok := e.Site.(*ssa.Call); ok && e.Caller.Func == initM {
					site = call
				} else {
					only = false
				}
			}
			if n == 1 && only && site != nil {
				stepSite[fn] = site
			}
		}
	}
	// true-writes only in Initialize (or one of its steps)
	for _, fn := range c.P.LibFns {
		if fi.setter[fn] {
			continue
		}
		ir.EachInstr(fn, func(_ *ssa.BasicBlock, _ int, in ssa.Instruction) {
			v, ok := fi.write(in)
			if !ok {
				return
			}
			if v == "true" && fn != initM && stepSite[fn] == nil {
				c.R.Violate("R-flag-typestate", tn+" flag set outside Initialize in "+fname(fn), c.Pos(in.Pos()), sprintf("%s marks the client initialized outside of Initialize", fname(fn)))
			}
			if v == "?" {
				c.R.Violate("R-flag-typestate", tn+" flag set to non-constant in "+fname(fn), c.Pos(in.Pos()), sprintf("%s writes a non-constant value to the initialized flag", fname(fn)))
			}
		})
	}
	if initM == nil {
		return
	}
	// in Initialize: each true-write is dominated by the success edges of every transport send
	var sends []*ssa.Call
	ir.EachInstr(initM, func(_ *ssa.BasicBlock, _ int, in ssa.Instruction) {
		if call, ok := in.(*ssa.Call); ok && reachesSend(call) {
			sends = append(sends, call)
		}
	})
	c.R.Check(len(sends) >= 2, "R-flag-typestate", tn+" handshake steps", c.Pos(initM.Pos()), sprintf("%d transport steps (request, initialized notification)", len(sends)),
		"Initialize does not perform both handshake steps (initialize request and initialized notification)")
	errOf := func(s *ssa.Call) ssa.Value {
		if _, isTuple := s.Type().(*types.Tuple); isTuple {
			for _, r := range *s.Referrers() {
				if ex, ok := r.(*ssa.Extract); ok && ir.TypeStr(ex.Type()) == "error" {
					return ex
				}
			}
		} else if ir.TypeStr(s.Type()) == "error" {
			return s
		}
		return nil
	}
	// the steps among `steps` that can precede `at` in fn and have not been seen to succeed there
	unconfirmed := func(fn *ssa.Function, at ssa.Instruction, steps []*ssa.Call) string {
		for _, s := range steps {
			if ssa.Instruction(s) == at || !flow.Reaches(s, at) {
				continue
			}
			succeeded := false
			if errv := errOf(s); errv != nil {
				for _, g := range flow.Guards(fn, at.Block()) {
					if x, op, ok := nilCompare(g.If.Cond); ok && x == errv {
						if (op == token.NEQ && !g.Branch) || (op == token.EQL && g.Branch) {
							succeeded = true
						}
					}
				}
			}
			if !succeeded {
				return "the step at " + c.Pos(s.Pos()) + " has not been seen to succeed"
			}
		}
		return ""
	}
	noErrorAfter := func(fn *ssa.Function, from ssa.Instruction) *flow.Escape {
		return flow.ExitsAvoiding(fn, from, func(x ssa.Instruction) bool {
			if r, ok := x.(*ssa.Return); ok && len(ir.Results(r)) > 0 {
				return ir.IsNilConst(ir.Results(r)[len(ir.Results(r))-1])
			}
			if v2, ok := fi.write(x); ok && v2 == "false" {
				return true
			}
			return false
		}, false)
	}
	hosts := []*ssa.Function{initM}
	for h := range stepSite {
		hosts = append(hosts, h)
	}
	sort.Slice(hosts, func(i, j int) bool { return hosts[i].String() < hosts[j].String() })
	for _, host := range hosts {
		host := host
		hostSends := sends
		if host != initM {
			hostSends = nil
			ir.EachInstr(host, func(_ *ssa.BasicBlock, _ int, in ssa.Instruction) {
				if call, ok := in.(*ssa.Call); ok && reachesSend(call) {
					hostSends = append(hostSends, call)
				}
			})
		}
		ir.EachInstr(host, func(_ *ssa.BasicBlock, _ int, in ssa.Instruction) {
			v, ok := fi.write(in)
			if !ok || v != "true" {
				return
			}
			why := unconfirmed(host, in, hostSends)
			if host == initM && why == "" && len(hostSends) > 0 {
				// (in Initialize itself every step precedes the write)
				for _, s := range hostSends {
					if !flow.Reaches(s, in) {
						why = "the step at " + c.Pos(s.Pos()) + " does not precede the write"
					}
				}
			}
			var esc *flow.Escape
			if site := stepSite[host]; site != nil {
				if why == "" {
					why = unconfirmed(initM, site, sends)
				}
				// after the step has returned successfully Initialize must not fail any more
				var from ssa.Instruction = site
				if errv := errOf(site); errv != nil && errv.Referrers() != nil {
					for _, r := range *errv.Referrers() {
						if bin, ok := r.(*ssa.BinOp); ok && bin.Referrers() != nil {
							if _, op, ok := nilCompare(bin); ok {
								for _, rr := range *bin.Referrers() {
									if ifi, ok := rr.(*ssa.If); ok {
										succ := ifi.Block().Succs[1] // err != nil: success is the false edge
										if op == token.EQL {
											succ = ifi.Block().Succs[0]
										}
										if len(succ.Instrs) > 0 {
											from = succ.Instrs[0]
											if _, isRet := from.(*ssa.Return); isRet {
												from = nil // judged below
												if rs := ir.Results(succ.Instrs[0].(*ssa.Return)); len(rs) > 0 && !ir.IsNilConst(rs[len(rs)-1]) {
													esc = &flow.Escape{Exit: succ.Instrs[0]}
												}
											}
										}
									}
								}
							}
						}
					}
				}
				if from != nil && esc == nil {
					esc = noErrorAfter(initM, from)
				}
			}
			c.R.Check(why == "", "R-flag-typestate", tn+" flag set after both steps succeeded", c.Pos(in.Pos()), "the flag write is dominated by the success edge of every handshake step",
				sprintf("%s.Initialize marks the client initialized although %s: a failed handshake leaves the client initialized", tn, why))
			// no error return reachable after the flag is set
			if esc == nil {
				esc = noErrorAfter(host, in)
			}
			c.R.Check(esc == nil, "R-flag-typestate", tn+" no error return while initialized", c.Pos(in.Pos()), "every return after the flag write reports success",
				sprintf("%s.Initialize can return an error after it marked the client initialized", tn))
		})
	}
	// Close clears the flag
	if closeM != nil {
		cleared := false
		ir.EachInstr(closeM, func(_ *ssa.BasicBlock, _ int, in ssa.Instruction) {
			if v, ok := fi.write(in); ok && v == "false" {
				cleared = true
			}
		})
		c.R.Check(cleared, "R-flag-typestate", tn+".Close clears the flag", c.Pos(closeM.Pos()), "Close marks the client uninitialized", sprintf("%s.Close does not clear the initialized flag: operations after Close are not refused", tn))
		// ... and on every path once the transport has been closed — also when closing it reported an error (the child
		// had already exited, the pipe was already closed): the connection is gone either way
		if tr := c.transportIface(); tr != nil && cleared {
			cn := c.transportCloseMethod(tr)
			var closeCall ssa.Instruction
			ir.EachInstr(closeM, func(_ *ssa.BasicBlock, _ int, in ssa.Instruction) {
				if call, ok := in.(ssa.CallInstruction); ok {
					cc := call.Common()
					if cc.IsInvoke() && cc.Method.Name() == cn {
						closeCall = in
					} else if sc := ir.StaticCallee(call); sc != nil && sc.Name() == cn && sc.Signature.Recv() != nil {
						closeCall = in
					} else if sc != nil && c.P.IsLib(sc) && len(sc.Blocks) == 1 {
						// a straight-line helper that closes the transport (closeTransport())
						ir.EachCall(sc, func(ic ssa.CallInstruction) {
							icc := ic.Common()
							if icc.IsInvoke() && icc.Method.Name() == cn {
								closeCall = in
							} else if isc := ir.StaticCallee(ic); isc != nil && isc.Name() == cn && isc.Signature.Recv() != nil {
								closeCall = in
							}
						})
					}
				}
			})
			if closeCall != nil {
				esc := flow.ExitsAvoiding(closeM, closeCall, func(x ssa.Instruction) bool {
					v, ok := fi.write(x)
					return ok && v == "false"
				}, false)
				c.R.Check(esc == nil, "R-flag-typestate", tn+".Close clears the flag on every path", c.Pos(closeM.Pos()), "after the transport is closed every return has cleared the flag",
					sprintf("%s.Close can return (near %s) after closing the transport without clearing the initialized flag (for instance when the transport reports an error because the child already exited): the client keeps claiming to be initialized, later operations are sent into a dead transport and a new Initialize is refused", tn, iposEsc(c, esc)))
			}
		}
	}
	// state: every path from the "connected" state write to an error return passes a "disconnected" write
	stateOf := func(in ssa.Instruction) string {
		call, ok := in.(*ssa.Call)
		if !ok {
			return ""
		}
		for _, a := range call.Call.Args {
			if s, ok := ir.ConstStr(ir.Unwrap(a)); ok && (s == "connected" || s == "disconnected" || s == "initialized") {
				if strings.HasSuffix(ir.TypeStr(ir.Unwrap(a).Type()), "mcp.State") {
					return s
				}
			}
		}
		return ""
	}
	settles := map[*ssa.Function]bool{} // steps all of whose exits have set 'disconnected' or 'initialized'
	for h := range stepSite {
		if flow.ExitsAvoiding(h, nil, func(x ssa.Instruction) bool {
			s := stateOf(x)
			return s == "disconnected" || s == "initialized"
		}, false) == nil {
			settles[h] = true
		}
	}
	ir.EachInstr(initM, func(_ *ssa.BasicBlock, _ int, in ssa.Instruction) {
		if stateOf(in) != "connected" {
			return
		}
		esc := flow.ExitsAvoiding(initM, in, func(x ssa.Instruction) bool {
			s := stateOf(x)
			if call, ok := x.(*ssa.Call); ok && settles[ir.StaticCallee(call)] {
				return true
			}
			return s == "disconnected" || s == "initialized"
		}, false)
		c.R.Check(esc == nil, "R-flag-typestate", tn+" state after failed handshake", c.Pos(in.Pos()), "every exit after 'connected' sets 'disconnected' or 'initialized'",
			sprintf("%s.Initialize can return while still reporting state 'connected' after a failed handshake", tn))
	})
	// 'initialized' state only together with the flag
	for _, host := range hosts {
		host := host
		ir.EachInstr(host, func(_ *ssa.BasicBlock, _ int, in ssa.Instruction) {
			if stateOf(in) != "initialized" {
				return
			}
			dom := false
			ir.EachInstr(host, func(_ *ssa.BasicBlock, _ int, w ssa.Instruction) {
				if v, ok := fi.write(w); ok && v == "true" && flow.Dominates(w, in) {
					dom = true
				}
			})
			c.R.Check(dom, "R-flag-typestate", tn+" state initialized follows the flag", c.Pos(in.Pos()), "state 'initialized' is reported only after the flag is set", sprintf("%s reports state 'initialized' without having set the flag", tn))
		})
	}
}

// unspill looks through a result that a deferred call forced into a stack cell: `*(alloc)` with a
// single store yields the stored value.
func unspill(v ssa.Value) ssa.Value {
	u, ok := v.(*ssa.UnOp)
	if !ok || u.Op != token.MUL {
		return v
	}
	al, ok := u.X.(*ssa.Alloc)
	if !ok {
		return v
	}
	var stored ssa.Value
	n := 0
	for _, r := range *al.Referrers() {
		if st, ok := r.(*ssa.Store); ok && st.Addr == al {
			stored = st.Val
			n++
		}
	}
	if n == 1 {
		return stored
	}
	return v
}

// ---------------------------------------------------------------- R-cap-wired
// The capability recomputation advertises prompts/resources only when its pointer to the corresponding registry is set
// (a nil pointer silently means "nothing registered"). Every object of that type that a server constructor creates must
// therefore get each of those members set: by a setter call on the created value in the constructor, or by the
// dispatcher constructor it is handed to — provided that one sets it unconditionally, not only on an object it created
// itself as a fallback.
func c16CapWired(c *Ctx, recompute *ssa.Function, wiring map[string]bool) {
	if recompute.Signature.Recv() == nil || len(wiring) == 0 {
		return
	}
	L := recompute.Signature.Recv().Type()
	// setters: library methods on L storing their parameter into a wiring member
	setters := map[*ssa.Function]string{}
	for _, fn := range c.P.LibFns {
		if fn.Signature.Recv() == nil || !types.Identical(fn.Signature.Recv().Type(), L) {
			continue
		}
		ir.EachInstr(fn, func(_ *ssa.BasicBlock, _ int, in ssa.Instruction) {
			if st, ok := in.(*ssa.Store); ok {
				if f, base, ok := ir.FieldOf(st.Addr); ok && wiring[f.Key()] && base == ssa.Value(fn.Params[0]) {
					if _, isParam := ir.Unwrap(st.Val).(*ssa.Parameter); isParam {
						setters[fn] = f.Key()
					}
				}
			}
		})
	}
	// functions that wire whatever object of type L they hold in a member, unconditionally
	wiresHeld := map[*ssa.Function]map[string]bool{}
	for _, fn := range c.P.LibFns {
		ir.EachInstr(fn, func(_ *ssa.BasicBlock, _ int, in ssa.Instruction) {
			call, ok := in.(*ssa.Call)
			if !ok {
				return
			}
			sc := ir.StaticCallee(call)
			f, isSetter := setters[sc]
			if !isSetter {
				return
			}
			recv := chainRoot(call.Call.Args[0], setters)
			lf, _, ok := ir.LoadedField(recv)
			if !ok || !types.Identical(lf.Type, L) {
				return
			}
			// not merely on the fallback object: not controlled by `member == nil`
			for _, g := range flow.Guards(fn, call.Block()) {
				if v, _, ok := nilCompare(g.If.Cond); ok {
					if gf, _, ok := ir.LoadedField(v); ok && gf.Key() == lf.Key() {
						return
					}
				}
			}
			if wiresHeld[fn] == nil {
				wiresHeld[fn] = map[string]bool{}
			}
			wiresHeld[fn][f] = true
		})
	}
	// allocation sites: calls of library functions returning L whose result is a fresh object
	n := 0
	// a function that returns the object it created hands the obligation to its callers (buildLifecycleManager())
	factories := map[*ssa.Function]bool{}
	factoryDone := map[*ssa.Call]bool{}
	for round := 0; round < 3; round++ {
		for _, fn := range c.P.LibFns {
			ir.EachInstr(fn, func(_ *ssa.BasicBlock, _ int, in ssa.Instruction) {
				call, ok := in.(*ssa.Call)
				if !ok {
					return
				}
				sc := ir.StaticCallee(call)
				if sc == nil || !c.P.IsLib(sc) || sc.Signature.Results().Len() != 1 || !types.Identical(sc.Signature.Results().At(0).Type(), L) {
					return
				}
				if round == 0 && sc.Signature.Recv() != nil {
					return
				}
				if round > 0 && !factories[sc] {
					return
				}
				if round > 0 && factoryDone[call] {
					return
				}
				if round > 0 {
					factoryDone[call] = true
				}
				if _, isSetter := setters[sc]; isSetter {
					return
				}
				// what happens to the created value (and to values chained from it through setters)
				set := map[string]bool{}
				returned := false
				vals := map[ssa.Value]bool{call: true}
				work := []ssa.Value{call}
				owner := map[ssa.Value]*ssa.Function{call: fn} // the function a tracked value lives in
				for len(work) > 0 {
					v := work[0]
					work = work[1:]
					if v.Referrers() == nil {
						continue
					}
					fn := owner[v]
					if fn == nil {
						fn = call.Parent()
					}
					for _, r := range *v.Referrers() {
						switch y := r.(type) {
						case *ssa.Phi:
							if !vals[y] {
								vals[y] = true
								owner[y] = fn
								work = append(work, y)
							}
							continue
						case *ssa.Store:
							// kept in a member of an object this function also wires
							if y.Val == v {
								if _, _, ok := ir.FieldOf(y.Addr); ok {
									for f := range wiresHeld[fn] {
										set[f] = true
									}
								}
							}
							continue
						case *ssa.Return:
							if fn == call.Parent() { // (a builder method returning its receiver is not a hand-over)
								returned = true
							}
							continue
						}
						rc, ok := r.(*ssa.Call)
						if !ok {
							continue
						}
						rsc := ir.StaticCallee(rc)
						// any other method of the object that returns the object (builder chain)
						if rsc != nil && c.P.IsLib(rsc) && len(rc.Call.Args) > 0 && rc.Call.Args[0] == v && rsc.Signature.Results().Len() == 1 && types.Identical(rsc.Signature.Results().At(0).Type(), L) {
							if !vals[rc] {
								vals[rc] = true
								owner[rc] = fn
								work = append(work, rc)
							}
						}
						if f, ok := setters[rsc]; ok && len(rc.Call.Args) > 0 && rc.Call.Args[0] == v {
							set[f] = true
							if !vals[rc] {
								vals[rc] = true
								owner[rc] = fn
								work = append(work, rc)
							}
							continue
						}
						// handed on to a library function as an argument: followed into that function
						if rsc != nil && c.P.IsLib(rsc) && rsc.Blocks != nil && len(owner) < 12 {
							for ai, a := range rc.Call.Args {
								if a == v && ai < len(rsc.Params) && !vals[rsc.Params[ai]] {
									vals[rsc.Params[ai]] = true
									owner[rsc.Params[ai]] = rsc
									work = append(work, rsc.Params[ai])
								}
							}
						}
						// handed to an option constructor whose closure ends up in a constructor that wires what it holds
						if rsc != nil && c.P.IsLib(rsc) {
							for _, rr := range derefs(rc) {
								if kc, ok := rr.(*ssa.Call); ok {
									if k := ir.StaticCallee(kc); k != nil {
										for f := range wiresHeld[k] {
											set[f] = true
										}
									}
								}
							}
						}
					}
				}
				if returned && len(set) < len(wiring) {
					if !factories[fn] {
						factories[fn] = true
					}
					return // judged where fn is called
				}
				var fields []string
				for f := range wiring {
					fields = append(fields, f)
				}
				sort.Strings(fields)
				for _, f := range fields {
					n++
					c.R.Check(set[f], "R-cap-wired", f+" of the object created in "+fname(fn), c.Pos(call.Pos()), "set by a setter on the created object or by the dispatcher constructor it is handed to",
						sprintf("%s creates the object that computes the advertised capabilities but %s is never set on it (neither here nor, unconditionally, by the constructor it is handed to): the corresponding capability is silently never advertised", fname(fn), f))
				}
			})
		}
	}
	c.R.Min("R-cap-wired", 4)
	_ = n
}

// chainRoot follows `x.withA(a).withB(b)` chains back to x.
func chainRoot(v ssa.Value, setters map[*ssa.Function]string) ssa.Value {
	for i := 0; i < 6; i++ {
		call, ok := v.(*ssa.Call)
		if !ok {
			return v
		}
		if _, isSetter := setters[ir.StaticCallee(call)]; !isSetter || len(call.Call.Args) == 0 {
			return v
		}
		v = call.Call.Args[0]
	}
	return v
}

// derefs: the instructions that use the result of call, looking through the variadic-slice plumbing
// (store into an element of a fresh array, slice of it, passed as argument).
func derefs(call *ssa.Call) []ssa.Instruction {
	var out []ssa.Instruction
	if call.Referrers() == nil {
		return out
	}
	for _, r := range *call.Referrers() {
		out = append(out, r)
		st, ok := r.(*ssa.Store)
		if !ok {
			continue
		}
		ia, ok := st.Addr.(*ssa.IndexAddr)
		if !ok {
			continue
		}
		arr := ia.X
		if arr.Referrers() == nil {
			continue
		}
		for _, ar := range *arr.Referrers() {
			if sl, ok := ar.(*ssa.Slice); ok && sl.Referrers() != nil {
				out = append(out, *sl.Referrers()...)
			}
		}
	}
	return out
}

// userCallbackReached: the call (synchronously) reaches a call of a user-supplied function value (a list filter, a
// hook): "" if none.
func userCallbackReached(c *Ctx, call *ssa.Call) string {
	for _, cal := range ir.Callees(c.G, call) {
		if !c.P.IsLib(cal) {
			continue
		}
		for f := range c.ReachSync(cal) {
			if !c.P.IsLib(f) {
				continue
			}
			found := ""
			ir.EachInstr(f, func(_ *ssa.BasicBlock, _ int, in ssa.Instruction) {
				if ic, ok := in.(*ssa.Call); ok {
					if cb := userCallbackCall(c, ic); cb != "" {
						found = cb + " in " + fname(f)
					}
				}
			})
			if found != "" {
				return found
			}
		}
	}
	return ""
}

// traceRecordField follows member #field of a record value (a struct handed around by value) to the calls its
// content comes from: through parameters (every library caller), the library function that built the record, and the
// composite literal it was built with.
func traceRecordField(c *Ctx, fn *ssa.Function, rec ssa.Value, field int, depth int) []*ssa.Call {
	if depth > 6 || rec == nil {
		return nil
	}
	switch x := rec.(type) {
	case *ssa.Parameter:
		idx := -1
		for i, p := range fn.Params {
			if p == x {
				idx = i
			}
		}
		var out []*ssa.Call
		for _, e := range ir.Callers(c.G, fn) {
			if e.Site == nil || !c.P.IsLib(e.Caller.Func) {
				continue
			}
			args := e.Site.Common().Args
			if idx >= 0 && idx < len(args) {
				out = append(out, traceRecordField(c, e.Caller.Func, args[idx], field, depth+1)...)
			}
		}
		return out
	case *ssa.Call:
		sc := ir.StaticCallee(x)
		if sc == nil || !c.P.IsLib(sc) || sc.Blocks == nil {
			return nil
		}
		var out []*ssa.Call
		for _, b := range sc.Blocks {
			if ret, ok := b.Instrs[len(b.Instrs)-1].(*ssa.Return); ok && len(ir.Results(ret)) > 0 {
				out = append(out, traceRecordField(c, sc, ir.Results(ret)[0], field, depth+1)...)
			}
		}
		return out
	case *ssa.UnOp:
		al, ok := x.X.(*ssa.Alloc)
		if !ok || x.Op != token.MUL {
			return nil
		}
		var out []*ssa.Call
		for _, r := range *al.Referrers() {
			if fa, ok := r.(*ssa.FieldAddr); ok && fa.Field == field {
				for _, u := range *fa.Referrers() {
					if st, ok := u.(*ssa.Store); ok && st.Addr == ssa.Value(fa) {
						out = append(out, traceToCalls(c, fn, st.Val, depth+1)...)
					}
				}
			}
			if st, ok := r.(*ssa.Store); ok && st.Addr == ssa.Value(al) {
				out = append(out, traceRecordField(c, fn, st.Val, field, depth+1)...)
			}
		}
		return out
	case *ssa.Phi:
		var out []*ssa.Call
		for _, e := range x.Edges {
			out = append(out, traceRecordField(c, fn, e, field, depth+1)...)
		}
		return out
	}
	return nil
}
