package rules

import (
	"go/token"
	"go/types"
	"strings"

	"golang.org/x/tools/go/ssa"

	"verif/checker/flow"
	"verif/checker/ir"
)

// Rules added after the ninth round of independently seeded changes (first half only; DESIGN.md §9.5).

// ---------------------------------------------------------------- R-recover-answers (C01)
// "No call ever receives nothing while its connection stays up": a deferred recover on the path that handles one
// incoming request turns a handler panic into "nothing happened" — unless the recovering function also answers. Every
// function that calls recover() and is deferred by code that goes on to decode / dispatch a request reaches a
// constructor of a JSON-RPC error answer (or panics again); one that only logs leaves the request unanswered forever.
func c01RecoverAnswers(c *Ctx) {
	errT := c.P.RootNamed("JSONRPCError")
	makesAnswer := func(f *ssa.Function) bool {
		ok := false
		scope := []*ssa.Function{f}
		for g := range c.ReachSync(f) {
			scope = append(scope, g)
		}
		for _, g := range scope {
			ir.EachInstr(g, func(_ *ssa.BasicBlock, _ int, in ssa.Instruction) {
				switch x := in.(type) {
				case *ssa.Panic:
					ok = true
				case *ssa.Call:
					if sc := ir.StaticCallee(x); sc != nil && c.P.IsLib(sc) && errT != nil && sc.Signature.Results().Len() >= 1 {
						if pt, isPtr := sc.Signature.Results().At(0).Type().(*types.Pointer); isPtr && types.Identical(pt.Elem(), errT) {
							ok = true
						}
					}
				}
			})
		}
		return ok
	}
	callsRecover := func(f *ssa.Function) bool {
		found := false
		ir.EachCall(f, func(call ssa.CallInstruction) {
			if b, ok := call.Common().Value.(*ssa.Builtin); ok && b.Name() == "recover" {
				found = true
			}
		})
		return found
	}
	handlesRequest := func(g *ssa.Function) bool {
		dr := c.dispatchReach()
		for f := range c.ReachSync(g) {
			if dr[f] || decodesRequest(f) {
				return true
			}
		}
		return false
	}
	n := 0
	for _, g := range c.P.LibFns {
		if clientSide(c, g) {
			continue
		}
		ir.EachInstr(g, func(_ *ssa.BasicBlock, _ int, in ssa.Instruction) {
			df, ok := in.(*ssa.Defer)
			if !ok {
				return
			}
			var f *ssa.Function
			if mc, ok := df.Call.Value.(*ssa.MakeClosure); ok {
				f, _ = mc.Fn.(*ssa.Function)
			} else {
				f = ir.StaticCallee(df)
			}
			if f == nil || !c.P.IsLib(f) || !callsRecover(f) || !handlesRequest(g) {
				return
			}
			n++
			c.R.Check(makesAnswer(f), "R-recover-answers", sprintf("recover deferred by %s", fname(g)), c.Pos(df.Pos()),
				"the recovering function answers the request (or panics again)",
				sprintf("%s defers %s, which recovers from a panic raised while a request is handled and does nothing but log it: the request whose handler panicked is never answered although its connection stays up — the caller waits for its timeout", fname(g), fname(f)))
		})
	}
	if n == 0 {
		c.R.Hold("R-recover-answers", "no recover is deferred on a path that handles a request", "", "a handler panic is not swallowed (net/http reports it on the Streamable path; the other transports let it surface)")
	}
}

// ---------------------------------------------------------------- R-sibling-source (C02)
// A record with like-named pairs of members (InputSchema / OutputSchema, RawInputSchema / RawOutputSchema) is filled
// member by member from the like-named member of its source. What is stored into a member whose name says Output must
// not be computed from a source member whose name says Input (and vice versa) unless one of its own kind is involved
// too — the classic copy-and-paste slip when two decoding blocks are folded into one helper.
func c02SiblingSource(c *Ctx) {
	kinds := []string{"Input", "Output"}
	kindOf := func(name string) string {
		for _, k := range kinds {
			if strings.Contains(name, k) {
				return k
			}
		}
		return ""
	}
	n := 0
	for _, fn := range c.P.LibFns {
		ir.EachInstr(fn, func(_ *ssa.BasicBlock, _ int, in ssa.Instruction) {
			st, ok := in.(*ssa.Store)
			if !ok {
				return
			}
			f, _, ok := ir.FieldOf(st.Addr)
			if !ok || f.Struct == nil || !ir.InLibrary(f.Struct) {
				return
			}
			own := kindOf(f.Name)
			if own == "" {
				return
			}
			seen := map[ssa.Value]bool{}
			src := map[string]string{}
			var walk func(v ssa.Value, d int)
			walk = func(v ssa.Value, d int) {
				if v == nil || d > 8 || seen[v] {
					return
				}
				seen[v] = true
				if lf, _, ok := ir.LoadedField(v); ok {
					if k := kindOf(lf.Name); k != "" {
						src[k] = lf.Name
					}
				}
				switch x := v.(type) {
				case *ssa.Alloc:
					// a local filled by a call that is handed its address (json.Unmarshal(data, &schema))
					for _, r := range *x.Referrers() {
						if call, ok := r.(*ssa.Call); ok {
							for _, a := range call.Call.Args {
								if a != ssa.Value(x) {
									walk(a, d+1)
								}
							}
						}
						if mi, ok := r.(*ssa.MakeInterface); ok && mi.Referrers() != nil {
							for _, rr := range *mi.Referrers() {
								if call, ok := rr.(*ssa.Call); ok {
									for _, a := range call.Call.Args {
										if a != ssa.Value(mi) {
											walk(a, d+1)
										}
									}
								}
							}
						}
						if s2, ok := r.(*ssa.Store); ok && s2.Addr == ssa.Value(x) {
							walk(s2.Val, d+1)
						}
					}
				case *ssa.Call:
					for _, a := range x.Call.Args {
						walk(a, d+1)
					}
				case *ssa.Extract:
					walk(x.Tuple, d+1)
				case *ssa.Phi:
					for _, e := range x.Edges {
						walk(e, d+1)
					}
				case *ssa.UnOp:
					walk(x.X, d+1)
				case *ssa.MakeInterface:
					walk(x.X, d+1)
				case *ssa.ChangeType:
					walk(x.X, d+1)
				case *ssa.Convert:
					walk(x.X, d+1)
				case *ssa.Slice:
					walk(x.X, d+1)
				case *ssa.FieldAddr:
					walk(x.X, d+1)
				}
			}
			walk(st.Val, 0)
			if len(src) == 0 {
				return
			}
			n++
			other := ""
			for k, name := range src {
				if k != own {
					other = name
				}
			}
			_, hasOwn := src[own]
			c.R.Check(hasOwn || other == "", "R-sibling-source", sprintf("source of %s.%s in %s", f.Struct.Obj().Name(), f.Name, fname(fn)), c.Pos(st.Pos()),
				"computed from the like-named member of the source",
				sprintf("%s fills %s.%s from %s and from no member of its own kind: the %s side of what the client shows is the other side's value — what the caller lists is not what was registered", fname(fn), f.Struct.Obj().Name(), f.Name, other, strings.ToLower(own)))
		})
	}
	c.R.Min("R-sibling-source", 2)
}

// ---------------------------------------------------------------- R-terminate-on-request (C06)
// "A malformed message does not disturb other traffic": only the client's own DELETE (and expiry) ends a session. A
// function that dispatches incoming requests must not reach, on any of its paths, the code that removes a session from
// the session table: an error path that "cleans up" (a rejected initialize, a failed middleware) would let one
// malformed request — which may carry any live session's id — destroy that session and its stream.
func c06TerminateOnRequest(c *Ctx) {
	sessI := c.P.RootNamed("Session")
	if sessI == nil {
		c.R.Break("R-terminate-on-request: Session interface not found")
		return
	}
	iface := sessI.Underlying().(*types.Interface)
	terminators := map[*ssa.Function]bool{}
	for _, fn := range c.P.LibFns {
		if clientSide(c, fn) {
			continue
		}
		ir.EachInstr(fn, func(b *ssa.BasicBlock, _ int, in ssa.Instruction) {
			call, ok := in.(*ssa.Call)
			if !ok || flow.InCycle(b) {
				return
			}
			if bi, ok := call.Call.Value.(*ssa.Builtin); !ok || bi.Name() != "delete" || len(call.Call.Args) != 2 {
				return
			}
			mt, ok := call.Call.Args[0].Type().Underlying().(*types.Map)
			if !ok {
				return
			}
			et := mt.Elem()
			if types.Implements(et, iface) || types.Identical(et, sessI) {
				terminators[fn] = true
			}
		})
	}
	if len(terminators) == 0 {
		c.R.Break("R-terminate-on-request: no function removes a session from a session table")
		return
	}
	n := 0
	for _, fn := range c.P.LibFns {
		if clientSide(c, fn) {
			continue
		}
		dispatches := false
		ir.EachCall(fn, func(call ssa.CallInstruction) {
			if c.isDispatchCall(call) {
				dispatches = true
			}
		})
		if !dispatches {
			continue
		}
		n++
		var via *ssa.Function
		for f := range c.ReachSync(fn) {
			if terminators[f] {
				via = f
			}
		}
		detail := ""
		if via != nil {
			detail = sprintf("%s, which dispatches incoming requests, reaches %s, which removes a session from the session table: a request that fails there (a malformed initialize carrying a live session's id, say) ends that session and its listening stream — the owner's next well-formed request gets 404", fname(fn), fname(via))
		}
		c.R.Check(via == nil, "R-terminate-on-request", sprintf("session removal reachable from %s", fname(fn)), c.Pos(fn.Pos()),
			"handling a request never removes a session from the table", detail)
	}
	c.R.Min("R-terminate-on-request", 3)
}

// ---------------------------------------------------------------- R-handler-result-returned (C09)
// The user handler of a request runs on the goroutine that answers it, so everything it writes to the response stream
// (notifications through the sender in its context) is written before the answer. A handler call whose results are
// handed over a channel runs on a goroutine of its own: the function that answers can give up waiting (a deadline, a
// cancelled context) and write the answer while the abandoned handler is still writing events to the same stream.
func c09HandlerResultReturned(c *Ctx, rule string) {
	n := 0
	for _, fn := range c.P.LibFns {
		if clientSide(c, fn) {
			continue
		}
		ir.EachInstr(fn, func(_ *ssa.BasicBlock, _ int, in ssa.Instruction) {
			call, ok := in.(*ssa.Call)
			if !ok || call.Call.IsInvoke() || ir.StaticCallee(call) != nil {
				return
			}
			sig := call.Call.Signature()
			if sig == nil || sig.Params().Len() != 2 || sig.Results().Len() != 2 {
				return
			}
			if ir.TypeStr(sig.Params().At(0).Type()) != "context.Context" || ir.TypeStr(sig.Results().At(1).Type()) != "error" {
				return
			}
			p1 := ir.TypeStr(sig.Params().At(1).Type())
			if !strings.HasPrefix(p1, "*mcp.") || !strings.HasSuffix(p1, "Request") {
				return
			}
			n++
			// do the results reach a channel send?
			var sent ssa.Instruction
			seen := map[ssa.Value]bool{}
			var follow func(v ssa.Value, d int)
			follow = func(v ssa.Value, d int) {
				if v == nil || d > 6 || seen[v] || sent != nil || v.Referrers() == nil {
					return
				}
				seen[v] = true
				for _, r := range *v.Referrers() {
					switch x := r.(type) {
					case *ssa.Send:
						sent = x
					case *ssa.Extract:
						follow(x, d+1)
					case *ssa.Phi:
						follow(x, d+1)
					case *ssa.MakeInterface:
						follow(x, d+1)
					case *ssa.Store:
						if x.Val == v {
							if al, ok := x.Addr.(*ssa.Alloc); ok {
								for _, ar := range *al.Referrers() {
									if ld, ok := ar.(*ssa.UnOp); ok && ld.Op == token.MUL {
										follow(ld, d+1)
									}
								}
							}
							if fa, ok := x.Addr.(*ssa.FieldAddr); ok {
								if al, ok := fa.X.(*ssa.Alloc); ok {
									for _, ar := range *al.Referrers() {
										if ld, ok := ar.(*ssa.UnOp); ok && ld.Op == token.MUL {
											follow(ld, d+1)
										}
									}
									follow(al, d+1)
								}
							}
						}
					}
				}
			}
			follow(call, 0)
			detail := ""
			if sent != nil {
				detail = sprintf("%s calls the user handler and hands its result over a channel (%s) instead of returning it: the handler runs detached from the goroutine that writes the answer, which can stop waiting and answer while the handler is still sending notifications on the same response stream — an event and the answer interleave, or an event is written after the handler of the HTTP request has returned", fname(fn), ipos(c, sent))
			}
			c.R.Check(sent == nil, rule, sprintf("result of the user handler called in %s", fname(fn)), c.Pos(call.Pos()),
				"returned to the caller on the same goroutine", detail)
		})
	}
	c.R.Min(rule, 2)
}

// ---------------------------------------------------------------- R-reader-survives (C07)
// "Garbage on the listening stream does not end it": the loop that reads a long-lived event stream (a function that
// reads lines in a loop and does not itself return a call's answer) skips a frame it cannot decode. No return out of
// that loop is controlled by the error of decoding ONE frame's payload — json.Unmarshal of the frame, or a library
// helper that returns such an error: one undecodable frame would end the stream, and every later well-formed
// notification or server request is lost while the client looks healthy. (A json.Decoder reading the stream itself is
// different: its errors are sticky and must end the loop — R-sticky-decoder.)
func c07ReaderSurvives(c *Ctx, fns []*ssa.Function) {
	mayDecodeErr := map[*ssa.Function]bool{}
	isDecode := func(call *ssa.Call) bool { return ir.CallName(call) == "encoding/json.Unmarshal" }
	var decodeErr func(v ssa.Value, d int, seen map[ssa.Value]bool) bool
	decodeErr = func(v ssa.Value, d int, seen map[ssa.Value]bool) bool {
		if v == nil || d > 6 || seen[v] {
			return false
		}
		seen[v] = true
		switch x := v.(type) {
		case *ssa.Extract:
			if call, ok := x.Tuple.(*ssa.Call); ok {
				if sc := ir.StaticCallee(call); sc != nil && mayDecodeErr[sc] {
					return true
				}
			}
		case *ssa.Call:
			if isDecode(x) {
				return true
			}
			if sc := ir.StaticCallee(x); sc != nil && mayDecodeErr[sc] {
				return true
			}
			if n := ir.CallName(x); n == "fmt.Errorf" || n == "errors.Join" {
				for _, a := range x.Call.Args {
					for _, e := range variadicElems(a) {
						if decodeErr(ir.Unwrap(e), d+1, seen) {
							return true
						}
					}
				}
			}
		case *ssa.Phi:
			for _, e := range x.Edges {
				if decodeErr(e, d+1, seen) {
					return true
				}
			}
		case *ssa.MakeInterface:
			return decodeErr(x.X, d+1, seen)
		case *ssa.ChangeInterface:
			return decodeErr(x.X, d+1, seen)
		case *ssa.UnOp:
			if u := unspill(x); u != ssa.Value(x) {
				return decodeErr(u, d+1, seen)
			}
		}
		return false
	}
	for iter := 0; iter < 3; iter++ {
		for _, fn := range fns {
			if mayDecodeErr[fn] {
				continue
			}
			res := fn.Signature.Results()
			if res.Len() == 0 || ir.TypeStr(res.At(res.Len()-1).Type()) != "error" {
				continue
			}
			ir.EachInstr(fn, func(blk *ssa.BasicBlock, _ int, in ssa.Instruction) {
				ret, ok := in.(*ssa.Return)
				if !ok || blk == fn.Recover {
					return
				}
				rs := ir.Results(ret)
				if decodeErr(rs[len(rs)-1], 0, map[ssa.Value]bool{}) {
					mayDecodeErr[fn] = true
				}
			})
		}
	}
	n := 0
	for _, fn := range fns {
		answers := false
		for i := 0; i < fn.Signature.Results().Len(); i++ {
			if strings.HasSuffix(ir.TypeStr(fn.Signature.Results().At(i).Type()), "json.RawMessage") {
				answers = true
			}
		}
		if answers {
			continue
		}
		reads := false
		ir.EachInstr(fn, func(b *ssa.BasicBlock, _ int, in ssa.Instruction) {
			if call, ok := in.(*ssa.Call); ok && flow.InCycle(b) {
				switch ir.CallName(call) {
				case "(*bufio.Reader).ReadString", "(*bufio.Reader).ReadLine", "(*bufio.Reader).ReadBytes", "(*bufio.Scanner).Scan":
					reads = true
				}
			}
		})
		if !reads {
			continue
		}
		n++
		pd := flow.NewPostDom(fn)
		bad := ""
		ir.EachInstr(fn, func(b *ssa.BasicBlock, _ int, in ssa.Instruction) {
			ret, ok := in.(*ssa.Return)
			if !ok || b == fn.Recover || bad != "" {
				return
			}
			for _, g := range pd.ControlDepsTransitive(b) {
				if !flow.InCycle(g.If.Block()) {
					continue
				}
				v, op, ok := nilCompare(g.If.Cond)
				if !ok || (op == token.NEQ) != g.Branch {
					continue
				}
				if decodeErr(v, 0, map[ssa.Value]bool{}) {
					bad = c.Pos(ret.Pos())
				}
			}
		})
		c.R.Check(bad == "", "R-reader-survives", "stream-reading loop of "+fname(fn), c.Pos(fn.Pos()), "no return out of the loop is controlled by the error of decoding one frame",
			sprintf("%s reads a long-lived event stream in a loop and returns (near %s) when ONE frame's payload cannot be decoded (json.Unmarshal, or a helper returning its error): a single malformed frame ends the listening stream, and every later well-formed notification or server request is lost while calls keep working", fname(fn), bad))
	}
	c.R.Min("R-reader-survives", 2)
}

// ---------------------------------------------------------------- R-child-io-owned (C08)
// os/exec: when Cmd.Stdout / Cmd.Stderr is set to something that is not an *os.File, exec starts a goroutine that
// copies from a pipe, and Cmd.Wait returns only when that pipe is closed by EVERY process holding it — descendants of
// the child included (npx, `sh -c`, `go run` launchers). The transport's watcher waits in Cmd.Wait to learn that the
// child is gone; with such a writer a killed child whose helper lives on keeps the watcher — and every pending call
// and Close — waiting. A client transport that starts a child either uses the *Pipe methods / an *os.File, or bounds
// the wait with Cmd.WaitDelay.
func c08ChildIOOwned(c *Ctx) {
	n := 0
	for _, fn := range c.P.LibFns {
		if !clientSide(c, fn) {
			continue
		}
		delay := false
		ir.EachInstr(fn, func(_ *ssa.BasicBlock, _ int, in ssa.Instruction) {
			if st, ok := in.(*ssa.Store); ok {
				if f, _, ok := ir.FieldOf(st.Addr); ok && f.Struct != nil && f.Struct.Obj().Pkg() != nil && f.Struct.Obj().Pkg().Path() == "os/exec" && f.Name == "WaitDelay" {
					delay = true
				}
			}
		})
		ir.EachInstr(fn, func(_ *ssa.BasicBlock, _ int, in ssa.Instruction) {
			st, ok := in.(*ssa.Store)
			if !ok {
				return
			}
			f, _, ok := ir.FieldOf(st.Addr)
			if !ok || f.Struct == nil || f.Struct.Obj().Pkg() == nil || f.Struct.Obj().Pkg().Path() != "os/exec" || f.Struct.Obj().Name() != "Cmd" {
				return
			}
			if f.Name != "Stdout" && f.Name != "Stderr" {
				return
			}
			n++
			isFile := false
			v := st.Val
			if mi, ok := v.(*ssa.MakeInterface); ok {
				isFile = ir.TypeStr(mi.X.Type()) == "*os.File"
			}
			if ir.IsNilConst(v) {
				isFile = true
			}
			c.R.Check(isFile || delay, "R-child-io-owned", sprintf("exec.Cmd.%s set in %s", f.Name, fname(fn)), c.Pos(st.Pos()),
				"an *os.File (or the wait is bounded by WaitDelay)",
				sprintf("%s sets the child's %s to a writer that is not an *os.File and sets no WaitDelay: Cmd.Wait then waits until every process that inherited the pipe has closed it, so after the child is killed its watcher — and with it every pending call and Close — hangs for as long as a helper process of the child lives", fname(fn), f.Name))
		})
	}
	if n == 0 {
		c.R.Hold("R-child-io-owned", "the child's output streams are obtained with the *Pipe methods", "", "no store to exec.Cmd.Stdout / Stderr in client code")
	}
}

// ---------------------------------------------------------------- R-handler-ctx-live (C08)
// On the Streamable HTTP server a request, or a notification, is handled on the connection it arrived on, and the
// context handed to user code (the dispatcher, a registered notification handler) is how that code learns that the
// peer is gone. Where the Streamable handler hands a context to user code, the context is not cut off from the
// request's cancellation (WithoutCancel / Background): a handler left running under a detached context keeps its
// goroutine, and the pending entry of any request it sends to the client, after the connection has ended.
// (The legacy SSE server answers on another connection and detaches by design; it is not judged here.)
func c08HandlerCtxLive(c *Ctx) {
	var root *ssa.Function
	for _, e := range serverEntries(c) {
		if strings.Contains(fname(e), "httpServerHandler") {
			root = e
		}
	}
	if root == nil {
		c.R.Break("R-handler-ctx-live: ServeHTTP of the Streamable handler not found")
		return
	}
	walk := detachedWalker(c)
	n := 0
	// everything the Streamable handler reaches, goroutines it starts included — but not through the legacy SSE server
	for _, fn := range sortedFuncs(c.Reach(root)) {
		if clientSide(c, fn) || strings.Contains(fname(ir.Outer(fn)), "SSEServer") || strings.Contains(fname(ir.Outer(fn)), "stdio") {
			continue
		}
		cnt := 0
		ir.EachInstr(fn, func(_ *ssa.BasicBlock, _ int, in ssa.Instruction) {
			call, ok := in.(ssa.CallInstruction)
			if !ok {
				return
			}
			if !notificationHandOff(call) {
				return
			}
			for _, a := range call.Common().Args {
				if ir.TypeStr(a.Type()) != "context.Context" {
					continue
				}
				n++
				cnt++
				why := walk(fn, a)
				c.R.Check(why == "", "R-handler-ctx-live", sprintf("context handed to a notification handler #%d in %s", cnt, fname(fn)), c.Pos(call.Pos()),
					"not cut off from the request's cancellation",
					sprintf("%s hands a registered handler a context that was cut off from the request's cancellation (%s): when the peer goes away nothing tells the handler, so its goroutine — and the pending entry of a request it sent to the client — stay until their own timeouts", fname(fn), why))
			}
		})
	}
	c.R.Min("R-handler-ctx-live", 1)
}

// ---------------------------------------------------------------- R-error-whole (C15)
// "A JSON-RPC error a middleware (or an inner stage) returns reaches the client as it is": code, message AND data. A
// function that is handed a *JSONRPCError and takes it apart — reads Error.Code or Error.Message to build another
// answer from them — reads Error.Data as well, or passes the object on whole.
func c15ErrorWhole(c *Ctx) {
	n := 0
	for _, fn := range c.P.LibFns {
		if clientSide(c, fn) {
			continue
		}
		reads := map[string]map[string]ssa.Instruction{} // base path -> member -> first read
		ir.EachInstr(fn, func(_ *ssa.BasicBlock, _ int, in ssa.Instruction) {
			fa, ok := in.(*ssa.FieldAddr)
			if !ok {
				return
			}
			pt, ok := fa.X.Type().Underlying().(*types.Pointer)
			if !ok {
				return
			}
			st, ok := pt.Elem().Underlying().(*types.Struct)
			if !ok {
				return
			}
			name := st.Field(fa.Field).Name()
			if name != "Code" && name != "Message" && name != "Data" {
				return
			}
			// the anonymous Error member of a JSONRPCError
			inner, ok := fa.X.(*ssa.FieldAddr)
			if !ok {
				return
			}
			key, owner, _, base := ir.FullField(inner)
			if !strings.HasSuffix(owner, "JSONRPCError") || !strings.HasSuffix(key, ".Error") || ir.BaseAlloc(base) {
				return
			}
			loaded := false
			for _, r := range *fa.Referrers() {
				if u, ok := r.(*ssa.UnOp); ok && u.Op == token.MUL {
					loaded = true
				}
			}
			if !loaded {
				return
			}
			p := ir.Path(base)
			if reads[p] == nil {
				reads[p] = map[string]ssa.Instruction{}
			}
			if reads[p][name] == nil {
				reads[p][name] = in
			}
		})
		for p, m := range reads {
			first := m["Code"]
			if first == nil {
				first = m["Message"]
			}
			if first == nil {
				continue
			}
			// only where the parts go into ANOTHER JSON-RPC answer: the loaded code / message is handed to a library
			// function from which a constructor of an error answer is reached (a client turning the answer into a Go
			// error reads code and message too, and forwards nothing)
			rebuilds := false
			errT := c.P.RootNamed("JSONRPCError")
			makes := func(f *ssa.Function) bool {
				found := false
				scope := []*ssa.Function{f}
				for g := range c.ReachSync(f) {
					scope = append(scope, g)
				}
				for _, g := range scope {
					if !c.P.IsLib(g) || errT == nil {
						continue
					}
					if g.Signature.Results().Len() >= 1 {
						if pt, ok := g.Signature.Results().At(0).Type().(*types.Pointer); ok && types.Identical(pt.Elem(), errT) {
							found = true
						}
					}
					ir.EachInstr(g, func(_ *ssa.BasicBlock, _ int, in ssa.Instruction) {
						if al, ok := in.(*ssa.Alloc); ok {
							if pt, ok := al.Type().Underlying().(*types.Pointer); ok && types.Identical(pt.Elem(), errT) {
								found = true
							}
						}
					})
				}
				return found
			}
			for _, name := range []string{"Code", "Message"} {
				fa, _ := m[name].(*ssa.FieldAddr)
				if fa == nil {
					continue
				}
				for _, r := range *fa.Referrers() {
					ld, ok := r.(*ssa.UnOp)
					if !ok || ld.Referrers() == nil {
						continue
					}
					for _, u := range *ld.Referrers() {
						if cl, ok := u.(*ssa.Call); ok {
							if sc := ir.StaticCallee(cl); sc != nil && c.P.IsLib(sc) && makes(sc) {
								rebuilds = true
							}
						}
						if st, ok := u.(*ssa.Store); ok {
							if f2, _, ok := ir.FieldOf(st.Addr); ok && (f2.Name == "Code" || f2.Name == "Message") {
								rebuilds = true
							}
						}
					}
				}
			}
			if !rebuilds {
				continue
			}
			n++
			c.R.Check(m["Data"] != nil, "R-error-whole", sprintf("members of the error object %s read in %s", p, fname(fn)), c.Pos(first.Pos()),
				"Data is read alongside Code / Message",
				sprintf("%s takes the code and message out of a JSON-RPC error object it was handed (%s) without reading its data member: the answer built from them has lost `data`, so the error a middleware (or the handler) returned does not reach the client as it was", fname(fn), p))
		}
	}
	if n == 0 {
		c.R.Hold("R-error-whole", "no server-side function takes a JSON-RPC error object apart", "", "error objects returned through the chain are passed on whole")
	}
}

// ---------------------------------------------------------------- R-no-lock-across-dispatch (C14)
// Requests of one session are served concurrently on every transport: a handler may wait for another in-flight call of
// the same session (or for the client's answer to a request it sent). No mutex is held where a transport hands a
// request to the dispatcher — a per-session "handler lock" on one transport serialises what the others run in
// parallel, and two calls that depend on each other time out there only.
func c14NoLockAcrossDispatch(c *Ctx) {
	n := 0
	for _, fn := range c.P.LibFns {
		if clientSide(c, fn) {
			continue
		}
		cnt := 0
		ir.EachInstr(fn, func(_ *ssa.BasicBlock, _ int, in ssa.Instruction) {
			call, ok := in.(ssa.CallInstruction)
			if !ok || !c.isDispatchCall(call) {
				return
			}
			n++
			cnt++
			held := c.Locks().At(in)
			var keys []string
			for k := range held {
				keys = append(keys, k)
			}
			c.R.Check(len(keys) == 0, "R-no-lock-across-dispatch", sprintf("locks held at dispatch site #%d in %s", cnt, fname(fn)), c.Pos(in.Pos()),
				"none",
				sprintf("%s hands the request to the dispatcher while holding %s: requests that share that lock are served one at a time on this transport only, so calls that wait for each other (or for the client's answer to a server request) succeed elsewhere and time out here", fname(fn), strings.Join(keys, ", ")))
		})
	}
	c.R.Min("R-no-lock-across-dispatch", 3)
}

// ---------------------------------------------------------------- R-ctor-state (C16)
// "A fresh client reports disconnected": where several library functions build objects of one type with composite
// literals, a member of a library-declared enumeration type (a named type with constants, such as the connection
// state) that one of them initialises with a constant is initialised by every one of them — a constructor written out
// a second time that forgets the member leaves the object in the type's zero value, a state the API never names.
func c16CtorState(c *Ctx) {
	type init struct {
		fn    *ssa.Function
		at    ssa.Instruction
		enums map[string]bool
	}
	byType := map[*types.Named][]init{}
	for _, fn := range c.P.LibFns {
		ir.EachInstr(fn, func(_ *ssa.BasicBlock, _ int, in ssa.Instruction) {
			al, ok := in.(*ssa.Alloc)
			if !ok || !al.Heap || al.Comment != "complit" {
				return
			}
			pt, ok := al.Type().Underlying().(*types.Pointer)
			if !ok {
				return
			}
			named, ok := pt.Elem().(*types.Named)
			if !ok || !ir.InLibrary(named) {
				return
			}
			st, ok := named.Underlying().(*types.Struct)
			if !ok {
				return
			}
			// only objects the function hands out (a throw-away value built to be inspected is nobody's state)
			returned := false
			for _, r := range *al.Referrers() {
				if ret, ok := r.(*ssa.Return); ok {
					_ = ret
					returned = true
				}
			}
			if !returned {
				return
			}
			it := init{fn: fn, at: in, enums: map[string]bool{}}
			for _, r := range *al.Referrers() {
				fa, ok := r.(*ssa.FieldAddr)
				if !ok {
					continue
				}
				ft, ok := st.Field(fa.Field).Type().(*types.Named)
				if !ok || !ir.InLibrary(ft) {
					continue
				}
				if _, isBasic := ft.Underlying().(*types.Basic); !isBasic {
					continue
				}
				for _, u := range *fa.Referrers() {
					if s2, ok := u.(*ssa.Store); ok && s2.Addr == ssa.Value(fa) {
						if _, isConst := s2.Val.(*ssa.Const); isConst {
							it.enums[st.Field(fa.Field).Name()] = true
						}
					}
				}
			}
			byType[named] = append(byType[named], it)
		})
	}
	n := 0
	var names []*types.Named
	for t := range byType {
		names = append(names, t)
	}
	sortNamed(names)
	for _, t := range names {
		inits := byType[t]
		all := map[string]bool{}
		fns := map[*ssa.Function]bool{}
		for _, it := range inits {
			fns[it.fn] = true
			for k := range it.enums {
				all[k] = true
			}
		}
		if len(fns) < 2 || len(all) == 0 {
			continue
		}
		for _, it := range inits {
			n++
			var missing []string
			for k := range all {
				if !it.enums[k] {
					missing = append(missing, k)
				}
			}
			sortStrings(missing)
			c.R.Check(len(missing) == 0, "R-ctor-state", sprintf("%s built in %s", t.Obj().Name(), fname(it.fn)), c.Pos(it.at.Pos()),
				"initialises the same enumeration members as the type's other constructors",
				sprintf("%s builds a %s without initialising %s, which the type's other constructor(s) set to a named constant: the object starts in the zero value of that enumeration — a state the API never names (a fresh client does not report \"disconnected\")", fname(it.fn), t.Obj().Name(), strings.Join(missing, ", ")))
		}
	}
	if n == 0 {
		c.R.Hold("R-ctor-state", "no library type with enumeration members is built by more than one function", "", "")
	}
}

func sortNamed(ns []*types.Named) {
	for i := 1; i < len(ns); i++ {
		for j := i; j > 0 && ns[j].Obj().Name() < ns[j-1].Obj().Name(); j-- {
			ns[j], ns[j-1] = ns[j-1], ns[j]
		}
	}
}

func sortStrings(ss []string) {
	for i := 1; i < len(ss); i++ {
		for j := i; j > 0 && ss[j] < ss[j-1]; j-- {
			ss[j], ss[j-1] = ss[j-1], ss[j]
		}
	}
}

// ---------------------------------------------------------------- R-schema-walk-complete (C18)
// The generators put a schema's children in three places: Properties (struct members), Items (slice elements) and
// AdditionalProperties (map values). A function that walks a schema recursively and looks into Properties and Items
// but not into AdditionalProperties does not see what is nested under map values — a reference that exists only there
// (a type that recurses through a map) is taken for absent, and what the walk decides (dropping a definition,
// collecting references) leaves a `$ref` that resolves to nothing.
func c18SchemaWalkComplete(c *Ctx) {
	n := 0
	for _, fn := range c.P.LibFns {
		recursive := false
		ir.EachCall(fn, func(call ssa.CallInstruction) {
			if sc := ir.StaticCallee(call); sc != nil && (sc == fn || (sc.Origin() != nil && sc.Origin() == fn)) {
				recursive = true
			}
		})
		if !recursive {
			continue
		}
		reads := map[string]ssa.Instruction{}
		ir.EachInstr(fn, func(_ *ssa.BasicBlock, _ int, in ssa.Instruction) {
			fa, ok := in.(*ssa.FieldAddr)
			if !ok {
				return
			}
			pt, ok := fa.X.Type().Underlying().(*types.Pointer)
			if !ok {
				return
			}
			nm, ok := pt.Elem().(*types.Named)
			if !ok || nm.Obj().Name() != "Schema" {
				return
			}
			st, ok := nm.Underlying().(*types.Struct)
			if !ok {
				return
			}
			loaded := false
			for _, r := range *fa.Referrers() {
				switch u := r.(type) {
				case *ssa.UnOp:
					if u.Op == token.MUL {
						loaded = true
					}
				case *ssa.FieldAddr:
					loaded = true
				}
			}
			if loaded && reads[st.Field(fa.Field).Name()] == nil {
				reads[st.Field(fa.Field).Name()] = in
			}
		})
		if reads["Properties"] == nil || reads["Items"] == nil {
			continue
		}
		n++
		c.R.Check(reads["AdditionalProperties"] != nil, "R-schema-walk-complete", "children visited by "+fname(fn), c.Pos(reads["Properties"].Pos()),
			"Properties, Items and AdditionalProperties",
			sprintf("%s walks a schema recursively through Properties and Items but never looks at AdditionalProperties, where the generators put the schema of map values: what is nested only there (a type that recurses through a map) is invisible to the walk, and a decision based on it (a definition dropped as unreferenced) leaves a $ref that no longer resolves", fname(fn)))
	}
	if n == 0 {
		c.R.Hold("R-schema-walk-complete", "no library function walks generated schemas recursively", "", "schemas are used as generated")
	}
}

// ---------------------------------------------------------------- R-field-kept (C18)
// encoding/json emits every exported member that is not tagged "-". A struct-field walker that skips a member when a
// tag-processing helper reports an error must therefore rely on a helper that never does: if the helper (handed the
// field's tag or the field) can return a non-nil error, a member with an unusual tag vanishes from the schema while the
// encoder still writes it — the schema rejects (or does not describe) the real encoding.
func c18FieldKept(c *Ctx, gens []*ssa.Function) {
	n := 0
	seen := map[string]bool{}
	for _, g := range gens {
		walks := false
		ir.EachCall(g, func(call ssa.CallInstruction) {
			if call.Common().IsInvoke() && call.Common().Method.Name() == "NumField" {
				walks = true
			}
		})
		if !walks {
			continue
		}
		ir.EachInstr(g, func(_ *ssa.BasicBlock, _ int, in ssa.Instruction) {
			call, ok := in.(*ssa.Call)
			if !ok {
				return
			}
			h := ir.StaticCallee(call)
			if h == nil || !c.P.IsLib(h) || h.Blocks == nil {
				return
			}
			res := h.Signature.Results()
			if res.Len() == 0 || ir.TypeStr(res.At(res.Len()-1).Type()) != "error" {
				return
			}
			tagged := false
			for _, p := range h.Params {
				if t := ir.TypeStr(p.Type()); t == "reflect.StructTag" || t == "reflect.StructField" {
					tagged = true
				}
			}
			if !tagged {
				return
			}
			// is the error tested in the walker?
			var errv ssa.Value = call
			if res.Len() > 1 {
				errv = nil
				for _, r := range *call.Referrers() {
					if ex, ok := r.(*ssa.Extract); ok && ex.Index == res.Len()-1 {
						errv = ex
					}
				}
			}
			tested := false
			if errv != nil && errv.Referrers() != nil {
				for _, r := range *errv.Referrers() {
					if b, ok := r.(*ssa.BinOp); ok {
						if _, _, isNil := nilCompare(b); isNil {
							tested = true
						}
					}
				}
			}
			if !tested {
				return
			}
			key := fname(g) + "/" + fname(h)
			if seen[key] {
				return
			}
			seen[key] = true
			n++
			var errReturn func(f *ssa.Function, d int) ssa.Instruction
			errReturn = func(f *ssa.Function, d int) ssa.Instruction {
				var bad ssa.Instruction
				ir.EachInstr(f, func(_ *ssa.BasicBlock, _ int, hin ssa.Instruction) {
					ret, ok := hin.(*ssa.Return)
					if !ok || bad != nil {
						return
					}
					rs := ir.Results(ret)
					if len(rs) == 0 {
						return
					}
					e := unspill(rs[len(rs)-1])
					if ir.IsNilConst(e) {
						return
					}
					// the error of another library helper, passed on: as good as that helper
					if oc := originCall(e); oc != nil && d < 3 {
						if sc := ir.StaticCallee(oc); sc != nil && c.P.IsLib(sc) && sc.Blocks != nil {
							if inner := errReturn(sc, d+1); inner == nil {
								return
							}
						}
					}
					bad = ret
				})
				return bad
			}
			bad := errReturn(h, 0)
			detail := ""
			if bad != nil {
				detail = sprintf("%s skips a struct member when %s reports an error, and %s can return one (%s): a member whose tag it does not like is left out of the generated schema although encoding/json still emits it, so the schema no longer describes — or rejects — the value's real encoding", fname(g), fname(h), fname(h), ipos(c, bad))
			}
			c.R.Check(bad == nil, "R-field-kept", sprintf("members skipped by %s on an error of %s", fname(g), fname(h)), c.Pos(call.Pos()),
				"the helper never returns an error, so no member is dropped", detail)
		})
	}
	if n == 0 {
		c.R.Hold("R-field-kept", "no field walker skips a member on the error of a tag helper", "", "")
	}
}

// ---------------------------------------------------------------- R-flag-after-publish (C20)
// A member that is published by closing a channel (written once, under sync.Once, before the close) is read without a
// lock by whoever has received from that channel — or has seen a flag that says "already started". That flag is the
// readers' only happens-before edge to the write, so it may be set only AFTER the receive: in every function that
// receives from the publishing channel, a Store(true) / CompareAndSwap(…, true) on an atomic flag of the same object
// is dominated by the receive. A flag claimed before the wait ("only one caller establishes the stream") lets a second
// caller through while the member is still being written.
func c20FlagAfterPublish(c *Ctx, g *FieldGuard) {
	// the channel member(s) of the owner that the publishing closure closes
	chans := map[string]bool{}
	for _, a := range g.Accesses {
		if !a.Write {
			continue
		}
		ir.EachInstr(a.Fn, func(_ *ssa.BasicBlock, _ int, in ssa.Instruction) {
			call, ok := in.(*ssa.Call)
			if !ok || ir.CallName(call) != "builtin.close" {
				return
			}
			if f, _, ok := ir.LoadedField(call.Call.Args[0]); ok && f.Struct != nil && ir.TypeKey(f.Struct) == ir.TypeKey(g.OwnerT) {
				chans[f.Key()] = true
			}
		})
	}
	if len(chans) == 0 {
		return
	}
	isRecv := func(in ssa.Instruction) bool {
		switch x := in.(type) {
		case *ssa.UnOp:
			if x.Op == token.ARROW {
				if f, _, ok := ir.LoadedField(ir.Unwrap(x.X)); ok && chans[f.Key()] {
					return true
				}
			}
		case *ssa.Select:
			for _, st := range x.States {
				if f, _, ok := ir.LoadedField(ir.Unwrap(st.Chan)); ok && chans[f.Key()] && st.Dir == types.RecvOnly {
					return true
				}
			}
		}
		return false
	}
	n := 0
	for _, fn := range c.P.LibFns {
		var recvs []ssa.Instruction
		ir.EachInstr(fn, func(_ *ssa.BasicBlock, _ int, in ssa.Instruction) {
			if isRecv(in) {
				recvs = append(recvs, in)
			}
		})
		if len(recvs) == 0 {
			continue
		}
		ir.EachInstr(fn, func(_ *ssa.BasicBlock, _ int, in ssa.Instruction) {
			call, ok := in.(*ssa.Call)
			if !ok {
				return
			}
			name := ir.CallName(call)
			setsTrue := false
			switch name {
			case "(*sync/atomic.Bool).Store":
				if k, ok := call.Call.Args[len(call.Call.Args)-1].(*ssa.Const); ok && k.Value != nil && k.Value.String() == "true" {
					setsTrue = true
				}
			case "(*sync/atomic.Bool).CompareAndSwap":
				if k, ok := call.Call.Args[len(call.Call.Args)-1].(*ssa.Const); ok && k.Value != nil && k.Value.String() == "true" {
					setsTrue = true
				}
			}
			if !setsTrue {
				return
			}
			fa, ok := call.Call.Args[0].(*ssa.FieldAddr)
			if !ok {
				return
			}
			key, owner, _, _ := ir.FullField(fa)
			if owner != ir.TypeKey(g.OwnerT) && !strings.HasSuffix(ir.TypeKey(g.OwnerT), owner) {
				return
			}
			n++
			after := false
			for _, r := range recvs {
				if flow.Dominates(r, call) {
					after = true
				}
			}
			c.R.Check(after, "R-flag-after-publish", sprintf("%s set in %s", key, fname(fn)), c.Pos(call.Pos()),
				"set only after the receive from the channel that publishes "+g.Field,
				sprintf("%s sets the flag %s before it has received from the channel whose close publishes %s: a concurrent caller that sees the flag returns at once and reads %s while the reader goroutine may still be writing it — there is no happens-before edge between that write and this read", fname(fn), key, g.Field, g.Field))
		})
	}
	if n == 0 {
		c.R.Hold("R-flag-after-publish", "no flag is set in a function that waits for the publication of "+g.Field, "", "")
	}
}

// ---------------------------------------------------------------- R-count-paired (C12)
// A counter kept next to a registry map ("number of handlers", a lock-free fast path reads it) is a derived value:
// it counts the map's keys. Where its increment is conditional on the key being NEW (the found-flag of a lookup in the
// map), every decrement must be conditional on the key being PRESENT — otherwise removing a key that was never there
// drives the counter below the number of entries, and whoever trusts it (the fast path that skips the lookup when it
// reads zero) stops seeing entries that are still registered.
func c12CountPaired(c *Ctx) {
	type upd struct {
		fn      *ssa.Function
		call    *ssa.Call
		counter string
		delta   int64
		guardOf string // map member whose found-flag guards the update ("" if none)
	}
	var ups []upd
	foundFlagOf := func(fn *ssa.Function, b *ssa.BasicBlock) string {
		for _, g := range flow.Guards(fn, b) {
			cond := g.If.Cond
			for {
				if u, ok := cond.(*ssa.UnOp); ok && u.Op == token.NOT {
					cond = u.X
					continue
				}
				break
			}
			if ex, ok := cond.(*ssa.Extract); ok && ex.Index == 1 {
				if lk, ok := ex.Tuple.(*ssa.Lookup); ok {
					if f, _, ok := ir.LoadedField(lk.X); ok {
						return f.Key()
					}
				}
			}
			if v, _, ok := nilCompare(cond); ok {
				if lk, ok := ir.Unwrap(v).(*ssa.Lookup); ok {
					if f, _, ok := ir.LoadedField(lk.X); ok {
						return f.Key()
					}
				}
			}
			if pc, ok := cond.(*ssa.Call); ok {
				if ml, ok := mapLookupOf(c, pc); ok {
					return ml.field
				}
			}
		}
		return ""
	}
	for _, fn := range c.P.LibFns {
		ir.EachInstr(fn, func(b *ssa.BasicBlock, _ int, in ssa.Instruction) {
			call, ok := in.(*ssa.Call)
			if !ok {
				return
			}
			n := ir.CallName(call)
			if !strings.HasPrefix(n, "(*sync/atomic.Int") || !strings.HasSuffix(n, ").Add") || len(call.Call.Args) != 2 {
				return
			}
			fa, ok := call.Call.Args[0].(*ssa.FieldAddr)
			if !ok {
				return
			}
			key, _, _, base := ir.FullField(fa)
			if key == "" || ir.BaseAlloc(base) {
				return
			}
			d, ok := ir.ConstInt(call.Call.Args[1])
			if !ok || d == 0 {
				return
			}
			ups = append(ups, upd{fn, call, key, d, foundFlagOf(fn, b)})
		})
	}
	derived := map[string]string{} // counter -> map it counts
	for _, u := range ups {
		if u.delta > 0 && u.guardOf != "" {
			derived[u.counter] = u.guardOf
		}
	}
	n := 0
	for _, u := range ups {
		m, isDerived := derived[u.counter]
		if !isDerived || u.delta > 0 {
			continue
		}
		n++
		c.R.Check(u.guardOf == m, "R-count-paired", sprintf("decrement of %s in %s", u.counter, fname(u.fn)), c.Pos(u.call.Pos()),
			"made only when the key is present in "+m,
			sprintf("%s decrements %s — which is incremented only for keys that are new in %s — without testing that the key it removes is there: removing a name that was never registered drives the counter below the number of entries, and the code that trusts it (a fast path that returns when it reads zero) no longer sees handlers that are still registered", fname(u.fn), u.counter, m))
	}
	if n == 0 {
		c.R.Hold("R-count-paired", "no counter is kept next to a registry map", "", sprintf("%d atomic adds examined; none counts the keys of a map", len(ups)))
	}
}

// ---------------------------------------------------------------- R-once-scope (C11)
// What runs under (*sync.Once).Do runs once per OBJECT. A goroutine started there serves the object for its whole
// life, so the context it is given must live as long: a member of the object, or a fresh root. Handing it a context of
// the call that happened to come first — the per-stream context of the first listening stream — ends the goroutine
// when that stream is replaced, and nothing ever starts it again: after a reopen the newer stream's notifications are
// queued for a dispatcher that is gone.
func c11OnceScope(c *Ctx) {
	n := 0
	for _, fn := range c.P.LibFns {
		ir.EachInstr(fn, func(_ *ssa.BasicBlock, _ int, in ssa.Instruction) {
			call, ok := in.(*ssa.Call)
			if !ok || ir.CallName(call) != "(*sync.Once).Do" || len(call.Call.Args) < 2 {
				return
			}
			mc, ok := call.Call.Args[1].(*ssa.MakeClosure)
			if !ok {
				return
			}
			cl, ok := mc.Fn.(*ssa.Function)
			if !ok {
				return
			}
			ir.EachInstr(cl, func(_ *ssa.BasicBlock, _ int, gin ssa.Instruction) {
				g, ok := gin.(*ssa.Go)
				if !ok {
					return
				}
				for _, a := range g.Call.Args {
					if ir.TypeStr(a.Type()) != "context.Context" {
						continue
					}
					n++
					// where does the context come from? a captured variable of the enclosing call is per-call
					perCall := ""
					v := a
					for d := 0; d < 4; d++ {
						if u, ok := v.(*ssa.UnOp); ok && u.Op == token.MUL {
							v = u.X
							continue
						}
						break
					}
					if fv, ok := v.(*ssa.FreeVar); ok {
						for i, f := range cl.FreeVars {
							if f != fv || i >= len(mc.Bindings) {
								continue
							}
							b := mc.Bindings[i]
							src := b
							if al, ok := b.(*ssa.Alloc); ok {
								for _, r := range *al.Referrers() {
									if st, ok := r.(*ssa.Store); ok && st.Addr == ssa.Value(al) {
										src = st.Val
									}
								}
							}
							if _, _, isMember := ir.LoadedField(src); !isMember {
								perCall = "a context of the call that runs the Once (" + fv.Name() + " in " + fname(fn) + ")"
							}
						}
					}
					c.R.Check(perCall == "", "R-once-scope", sprintf("context of the goroutine started under Once in %s", fname(fn)), c.Pos(g.Pos()),
						"a member of the object or a fresh root: it lives as long as the object",
						sprintf("%s starts, under sync.Once, a goroutine that is to serve the object for its whole life and hands it %s: when that call's context ends (the first listening stream is replaced) the goroutine exits and the Once never starts it again — what later streams queue for it is never handled", fname(fn), perCall))
				}
			})
		})
	}
	if n == 0 {
		c.R.Hold("R-once-scope", "no goroutine with a context is started under sync.Once", "", "")
	}
}
