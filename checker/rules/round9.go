package rules

import (
	"go/token"
	"go/types"
	"strings"

	"golang.org/x/tools/go/ssa"

	"verif/checker/flow"
	"verif/checker/ir"
)

// Rules added after the ninth round of independently seeded changes (first half only; DESIGN.md §9.5).

// ---------------------------------------------------------------- R-recover-answers (C01)
// "No call ever receives nothing while its connection stays up": a deferred recover on the path that handles one
// incoming request turns a handler panic into "nothing happened" — unless the recovering function also answers. Every
// function that calls recover() and is deferred by code that goes on to decode / dispatch a request reaches a
// constructor of a JSON-RPC error answer (or panics again); one that only logs leaves the request unanswered forever.
func c01RecoverAnswers(c *Ctx) {
	errT := c.P.RootNamed("JSONRPCError")
	makesAnswer := func(f *ssa.Function) bool {
		ok := false
		scope := []*ssa.Function{f}
		for g := range c.ReachSync(f) {
			scope = append(scope, g)
		}
		for _, g := range scope {
			ir.EachInstr(g, func(_ *ssa.BasicBlock, _ int, in ssa.Instruction) {
				switch x := in.(type) {
				case *ssa.Panic:
					ok = true
				case *ssa.Call:
					if sc := ir.StaticCallee(x); sc != nil && c.P.IsLib(sc) && errT != nil && sc.Signature.Results().Len() >= 1 {
						if pt, isPtr := sc.Signature.Results().At(0).Type().(*types.Pointer); isPtr && types.Identical(pt.Elem(), errT) {
							ok = true
						}
					}
				}
			})
		}
		return ok
	}
	callsRecover := func(f *ssa.Function) bool {
		found := false
		ir.EachCall(f, func(call ssa.CallInstruction) {
			if b, ok := call.Common().Value.(*ssa.Builtin); ok && b.Name() == "recover" {
				found = true
			}
		})
		return found
	}
	handlesRequest := func(g *ssa.Function) bool {
		dr := c.dispatchReach()
		for f := range c.ReachSync(g) {
			if dr[f] || decodesRequest(f) {
				return true
			}
		}
		return false
	}
	n := 0
	for _, g := range c.P.LibFns {
		if clientSide(c, g) {
			continue
		}
		ir.EachInstr(g, func(_ *ssa.BasicBlock, _ int, in ssa.Instruction) {
			df, ok := in.(*ssa.Defer)
			if !ok {
				return
			}
			var f *ssa.Function
			if mc, ok := df.Call.Value.(*ssa.MakeClosure); ok {
				f, _ = mc.Fn.(*ssa.Function)
			} else {
				f = ir.StaticCallee(df)
			}
			if f == nil || !c.P.IsLib(f) || !callsRecover(f) || !handlesRequest(g) {
				return
			}
			n++
			c.R.Check(makesAnswer(f), "R-recover-answers", sprintf("recover deferred by %s", fname(g)), c.Pos(df.Pos()),
				"the recovering function answers the request (or panics again)",
				sprintf("%s defers %s, which recovers from a panic raised while a request is handled and does nothing but log it: the request whose handler panicked is never answered although its connection stays up — the caller waits for its timeout", fname(g), fname(f)))
		})
	}
	if n == 0 {
		c.R.Hold("R-recover-answers", "no recover is deferred on a path that handles a request", "", "a handler panic is not swallowed (net/http reports it on the Streamable path; the other transports let it surface)")
	}
}

// ---------------------------------------------------------------- R-sibling-source (C02)
// A record with like-named pairs of members (InputSchema / OutputSchema, RawInputSchema / RawOutputSchema) is filled
// member by member from the like-named member of its source. What is stored into a member whose name says Output must
// not be computed from a source member whose name says Input (and vice versa) unless one of its own kind is involved
// too — the classic copy-and-paste slip when two decoding blocks are folded into one helper.
func c02SiblingSource(c *Ctx) {
	kinds := []string{"Input", "Output"}
	kindOf := func(name string) string {
		for _, k := range kinds {
			if strings.Contains(name, k) {
				return k
			}
		}
		return ""
	}
	n := 0
	for _, fn := range c.P.LibFns {
		ir.EachInstr(fn, func(_ *ssa.BasicBlock, _ int, in ssa.Instruction) {
			st, ok := in.(*ssa.Store)
			if !ok {
				return
			}
			f, _, ok := ir.FieldOf(st.Addr)
			if !ok || f.Struct == nil || !ir.InLibrary(f.Struct) {
				return
			}
			own := kindOf(f.Name)
			if own == "" {
				return
			}
			seen := map[ssa.Value]bool{}
			src := map[string]string{}
			var walk func(v ssa.Value, d int)
			walk = func(v ssa.Value, d int) {
				if v == nil || d > 8 || seen[v] {
					return
				}
				seen[v] = true
				if lf, _, ok := ir.LoadedField(v); ok {
					if k := kindOf(lf.Name); k != "" {
						src[k] = lf.Name
					}
				}
				switch x := v.(type) {
				case *ssa.Alloc:
					// a local filled by a call that is handed its address (json.Unmarshal(data, &schema))
					for _, r := range *x.Referrers() {
						if call, ok := r.(*ssa.Call); ok {
							for _, a := range call.Call.Args {
								if a != ssa.Value(x) {
									walk(a, d+1)
								}
							}
						}
						if mi, ok := r.(*ssa.MakeInterface); ok && mi.Referrers() != nil {
							for _, rr := range *mi.Referrers() {
								if call, ok := rr.(*ssa.Call); ok {
									for _, a := range call.Call.Args {
										if a != ssa.Value(mi) {
											walk(a, d+1)
										}
									}
								}
							}
						}
						if s2, ok := r.(*ssa.Store); ok && s2.Addr == ssa.Value(x) {
							walk(s2.Val, d+1)
						}
					}
				case *ssa.Call:
					for _, a := range x.Call.Args {
						walk(a, d+1)
					}
				case *ssa.Extract:
					walk(x.Tuple, d+1)
				case *ssa.Phi:
					for _, e := range x.Edges {
						walk(e, d+1)
					}
				case *ssa.UnOp:
					walk(x.X, d+1)
				case *ssa.MakeInterface:
					walk(x.X, d+1)
				case *ssa.ChangeType:
					walk(x.X, d+1)
				case *ssa.Convert:
					walk(x.X, d+1)
				case *ssa.Slice:
					walk(x.X, d+1)
				case *ssa.FieldAddr:
					walk(x.X, d+1)
				}
			}
			walk(st.Val, 0)
			if len(src) == 0 {
				return
			}
			n++
			other := ""
			for k, name := range src {
				if k != own {
					other = name
				}
			}
			_, hasOwn := src[own]
			c.R.Check(hasOwn || other == "", "R-sibling-source", sprintf("source of %s.%s in %s", f.Struct.Obj().Name(), f.Name, fname(fn)), c.Pos(st.Pos()),
				"computed from the like-named member of the source",
				sprintf("%s fills %s.%s from %s and from no member of its own kind: the %s side of what the client shows is the other side's value — what the caller lists is not what was registered", fname(fn), f.Struct.Obj().Name(), f.Name, other, strings.ToLower(own)))
		})
	}
	c.R.Min("R-sibling-source", 2)
}

// ---------------------------------------------------------------- R-terminate-on-request (C06)
// "A malformed message does not disturb other traffic": only the client's own DELETE (and expiry) ends a session. A
// function that dispatches incoming requests must not reach, on any of its paths, the code that removes a session from
// the session table: an error path that "cleans up" (a rejected initialize, a failed middleware) would let one
// malformed request — which may carry any live session's id — destroy that session and its stream.
func c06TerminateOnRequest(c *Ctx) {
	sessI := c.P.RootNamed("Session")
	if sessI == nil {
		c.R.Break("R-terminate-on-request: Session interface not found")
		return
	}
	iface := sessI.Underlying().(*types.Interface)
	terminators := map[*ssa.Function]bool{}
	for _, fn := range c.P.LibFns {
		if clientSide(c, fn) {
			continue
		}
		ir.EachInstr(fn, func(b *ssa.BasicBlock, _ int, in ssa.Instruction) {
			call, ok := in.(*ssa.Call)
			if !ok || flow.InCycle(b) {
				return
			}
			if bi, ok := call.Call.Value.(*ssa.Builtin); !ok || bi.Name() != "delete" || len(call.Call.Args) != 2 {
				return
			}
			mt, ok := call.Call.Args[0].Type().Underlying().(*types.Map)
			if !ok {
				return
			}
			et := mt.Elem()
			if types.Implements(et, iface) || types.Identical(et, sessI) {
				terminators[fn] = true
			}
		})
	}
	if len(terminators) == 0 {
		c.R.Break("R-terminate-on-request: no function removes a session from a session table")
		return
	}
	n := 0
	for _, fn := range c.P.LibFns {
		if clientSide(c, fn) {
			continue
		}
		dispatches := false
		ir.EachCall(fn, func(call ssa.CallInstruction) {
			if c.isDispatchCall(call) {
				dispatches = true
			}
		})
		if !dispatches {
			continue
		}
		n++
		var via *ssa.Function
		for f := range c.ReachSync(fn) {
			if terminators[f] {
				via = f
			}
		}
		detail := ""
		if via != nil {
			detail = sprintf("%s, which dispatches incoming requests, reaches %s, which removes a session from the session table: a request that fails there (a malformed initialize carrying a live session's id, say) ends that session and its listening stream — the owner's next well-formed request gets 404", fname(fn), fname(via))
		}
		c.R.Check(via == nil, "R-terminate-on-request", sprintf("session removal reachable from %s", fname(fn)), c.Pos(fn.Pos()),
			"handling a request never removes a session from the table", detail)
	}
	c.R.Min("R-terminate-on-request", 3)
}

// ---------------------------------------------------------------- R-handler-result-returned (C09)
// The user handler of a request runs on the goroutine that answers it, so everything it writes to the response stream
// (notifications through the sender in its context) is written before the answer. A handler call whose results are
// handed over a channel runs on a goroutine of its own: the function that answers can give up waiting (a deadline, a
// cancelled context) and write the answer while the abandoned handler is still writing events to the same stream.
func c09HandlerResultReturned(c *Ctx, rule string) {
	n := 0
	for _, fn := range c.P.LibFns {
		if clientSide(c, fn) {
			continue
		}
		ir.EachInstr(fn, func(_ *ssa.BasicBlock, _ int, in ssa.Instruction) {
			call, ok := in.(*ssa.Call)
			if !ok || call.Call.IsInvoke() || ir.StaticCallee(call) != nil {
				return
			}
			sig := call.Call.Signature()
			if sig == nil || sig.Params().Len() != 2 || sig.Results().Len() != 2 {
				return
			}
			if ir.TypeStr(sig.Params().At(0).Type()) != "context.Context" || ir.TypeStr(sig.Results().At(1).Type()) != "error" {
				return
			}
			p1 := ir.TypeStr(sig.Params().At(1).Type())
			if !strings.HasPrefix(p1, "*mcp.") || !strings.HasSuffix(p1, "Request") {
				return
			}
			n++
			// do the results reach a channel send?
			var sent ssa.Instruction
			seen := map[ssa.Value]bool{}
			var follow func(v ssa.Value, d int)
			follow = func(v ssa.Value, d int) {
				if v == nil || d > 6 || seen[v] || sent != nil || v.Referrers() == nil {
					return
				}
				seen[v] = true
				for _, r := range *v.Referrers() {
					switch x := r.(type) {
					case *ssa.Send:
						sent = x
					case *ssa.Extract:
						follow(x, d+1)
					case *ssa.Phi:
						follow(x, d+1)
					case *ssa.MakeInterface:
						follow(x, d+1)
					case *ssa.Store:
						if x.Val == v {
							if al, ok := x.Addr.(*ssa.Alloc); ok {
								for _, ar := range *al.Referrers() {
									if ld, ok := ar.(*ssa.UnOp); ok && ld.Op == token.MUL {
										follow(ld, d+1)
									}
								}
							}
							if fa, ok := x.Addr.(*ssa.FieldAddr); ok {
								if al, ok := fa.X.(*ssa.Alloc); ok {
									for _, ar := range *al.Referrers() {
										if ld, ok := ar.(*ssa.UnOp); ok && ld.Op == token.MUL {
											follow(ld, d+1)
										}
									}
									follow(al, d+1)
								}
							}
						}
					}
				}
			}
			follow(call, 0)
			detail := ""
			if sent != nil {
				detail = sprintf("%s calls the user handler and hands its result over a channel (%s) instead of returning it: the handler runs detached from the goroutine that writes the answer, which can stop waiting and answer while the handler is still sending notifications on the same response stream — an event and the answer interleave, or an event is written after the handler of the HTTP request has returned", fname(fn), ipos(c, sent))
			}
			c.R.Check(sent == nil, rule, sprintf("result of the user handler called in %s", fname(fn)), c.Pos(call.Pos()),
				"returned to the caller on the same goroutine", detail)
		})
	}
	c.R.Min(rule, 2)
}
