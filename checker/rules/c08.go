package rules

import (
	"go/token"
	"go/types"
	"sort"
	"strings"

	"golang.org/x/tools/go/ssa"

	"verif/checker/flow"
	"verif/checker/ir"
)

// C08 — every client call ends when its connection or context ends; nothing leaks.
//
//	R-wait-has-exit     every blocking wait on a client path has an arm on the caller's ctx.Done() (when the
//	                    function has a ctx) and an arm on transport shutdown / a timer; the retry executor's
//	                    waits are selects with a ctx arm (shared with C17)
//	R-watcher-cancels   after the child process has been reaped, every path on which the transport was not
//	                    closed deliberately cancels the transport context
//	R-body-owner        every *http.Response obtained on a client path has its Body closed on all paths:
//	                    closed/deferred here, handed to a callee that closes it, or its closer stored for close()
//	R-release-on-close  each resource-typed field of a client transport (cancel func, closers, child process)
//	                    is released through that field in the transport's close, and close is idempotent
//	R-goroutine-exit    every loop in a goroutine the clients start has an exit edge
//	R-single-closer     a pending channel is closed by whoever removes it from the table (same critical section)
//	R-table-pair        an entry inserted into a session/stream/pending table by a handler is removed again on
//	                    every path to that handler's exit
//	R-reader-teardown   a background reader that tears the transport down does so on every return
//	(R-watcher-cancels also requires that nothing blocking precedes cmd.Wait)
func init() { Registry["C08"] = checkC08 }

func checkC08(c *Ctx) {
	c.R.Explanation = "Static lifetime check of the client transports and of table entries: give-up arms on every blocking wait, cancellation when the child exits, ownership typestate of http.Response bodies, " +
		"release of every resource-typed transport field in close(), exit edges of background loops, single ownership of pending channels, and insert/remove pairing of table entries on all paths."
	c.R.NotDecided = "promptness in time; OS-level fd/child accounting; a pipe write without deadline (the stdio request encoder can block on a stalled child regardless of ctx — a limitation of the transport, reported here only in prose)"
	c.R.Assumptions = []string{"closing a response body / cancelling a context releases the goroutines net/http and os/exec attached to them"}
	var cfns []*ssa.Function
	for _, f := range c.P.LibFns {
		if clientSide(c, f) {
			cfns = append(cfns, f)
		}
	}

	// tables whose channels the transport's close() closes
	closedTables := map[string]bool{}
	for _, cs := range closeSites(c, cfns) {
		if strings.HasSuffix(cs.field, "[*]") {
			closedTables[strings.TrimSuffix(cs.field, "[*]")] = true
		}
	}
	// ---- R-wait-has-exit
	nWait := 0
	for _, fn := range cfns {
		var ctxParam *ssa.Parameter
		for _, p := range ir.Outer(fn).Params {
			if ir.TypeStr(p.Type()) == "context.Context" {
				ctxParam = p
			}
		}
		ir.EachInstr(fn, func(_ *ssa.BasicBlock, _ int, in ssa.Instruction) {
			sel, ok := in.(*ssa.Select)
			if !ok || !sel.Blocking {
				return
			}
			nWait++
			hasCtx, hasOther := false, false
			for _, st := range sel.States {
				oc := originCall(st.Chan)
				switch {
				case oc != nil && ir.CallName(oc) == "(context.Context).Done":
					root := ctxRoot2(oc.Call.Value, 0)
					if root == "param" || root == "request" {
						hasCtx = true
					} else {
						hasOther = true // transport context
					}
				case oc != nil && ir.CallName(oc) == "time.After":
					hasOther = true
				default:
					if st.Dir == types.RecvOnly {
						if f, _, ok := ir.LoadedField(st.Chan); ok && f.Name != "" {
							hasOther = true // a closable field channel (endpoint latch, done)
						}
						// the awaited channel itself: it ends the wait on shutdown if close() closes the table it is registered in
						for _, tbl := range registeredIn(c, unspill(st.Chan), 0) {
							if closedTables[tbl] {
								hasOther = true
							}
						}
					}
				}
			}
			construct := sprintf("wait #%d in %s", nWait, fname(fn))
			if ctxParam != nil {
				c.R.Check(hasCtx, "R-wait-has-exit", construct+": caller ctx", c.Pos(sel.Pos()), "has an arm on the caller's ctx.Done()",
					sprintf("%s blocks in a select without an arm on the caller's ctx.Done(): cancelling the call does not end it", fname(fn)))
			}
			c.R.Check(hasOther, "R-wait-has-exit", construct+": shutdown/timeout", c.Pos(sel.Pos()), "has an arm on transport shutdown or a timer",
				sprintf("%s blocks in a select that neither transport shutdown nor a timeout can end", fname(fn)))
		})
	}
	c.R.Min("R-wait-has-exit", 5)
	if exec := c.P.Func(retryPkg, "Execute"); exec != nil {
		c17Waits(c, exec)
	}

	// ---- R-watcher-cancels
	nW := 0
	for _, fn := range cfns {
		ir.EachInstr(fn, func(_ *ssa.BasicBlock, _ int, in ssa.Instruction) {
			call, ok := in.(*ssa.Call)
			if !ok || ir.CallName(call) != "(*os/exec.Cmd).Wait" {
				return
			}
			// only the watcher goroutine (started with `go` from the process start), not the bounded wait inside close()
			isGo := false
			for _, e := range ir.Callers(c.G, ir.Outer(fn)) {
				if _, ok := e.Site.(*ssa.Go); ok && ir.Outer(fn) == fn {
					isGo = true
				}
			}
			if !isGo {
				return
			}
			nW++
			esc := flow.ExitsAvoiding(fn, call, func(x ssa.Instruction) bool {
				cl, ok := x.(*ssa.Call)
				if !ok {
					return false
				}
				if f, _, ok := ir.LoadedField(cl.Call.Value); ok && isCancelFunc(f.Type) {
					return true
				}
				return false
			}, false)
			okAll := esc == nil
			if esc != nil {
				// the only acceptable escape is on the "closed deliberately" edge: an If on a Load of an atomic flag
				okAll = onlyViaClosedFlag(fn, call, esc)
			}
			// the watcher reaps the child as soon as it exits: nothing blocking may stand before the Wait
			var blocker ssa.Instruction
			ir.EachInstr(fn, func(_ *ssa.BasicBlock, _ int, x ssa.Instruction) {
				blocking := false
				switch y := x.(type) {
				case *ssa.UnOp:
					blocking = y.Op == token.ARROW
				case *ssa.Select:
					blocking = y.Blocking
				case *ssa.Call:
					n := ir.CallName(y)
					blocking = n == "(*sync.WaitGroup).Wait" || n == "time.Sleep"
				}
				if blocking && x != ssa.Instruction(call) && flow.Reaches(x, call) {
					blocker = x
				}
			})
			c.R.Check(blocker == nil, "R-watcher-cancels", "process watcher "+fname(fn)+": reaps at once", c.Pos(call.Pos()), "no blocking operation stands before cmd.Wait",
				sprintf("%s blocks (near %s) before it calls cmd.Wait: if that wait does not end when the child dies (a helper process still holds the pipe, the reader is stuck), the child is never reaped, the transport context is never cancelled and pending calls hang until their own deadline", fname(fn), iposI(c, blocker)))
			c.R.Check(okAll, "R-watcher-cancels", "process watcher "+fname(fn), c.Pos(call.Pos()), "after the child is reaped the transport context is cancelled unless the transport was closed",
				sprintf("%s can return after the child process exited without cancelling the transport context (e.g. for exit status 0): calls pending on the dead child wait for their own deadline instead of failing at once", fname(fn)))
		})
	}
	c.R.Min("R-watcher-cancels", 1)

	// ---- R-reader-teardown: a background reader that tears the transport down when its stream ends does so however
	// the stream ends (clean EOF, reset, truncated chunk): every return passes the transport's close
	if tr := c.transportIface(); tr != nil {
		closeName := c.transportCloseMethod(tr)
		for _, T := range c.P.Implementers(tr.Underlying().(*types.Interface)) {
			cl := c.P.Method(T, closeName)
			if cl == nil {
				continue
			}
			for _, e := range ir.Callers(c.G, cl) {
				fn := e.Caller.Func
				if e.Site == nil || !c.P.IsLib(fn) {
					continue
				}
				// fn is started as a goroutine and reads a stream in a loop
				started := false
				for _, ce := range ir.Callers(c.G, fn) {
					if _, ok := ce.Site.(*ssa.Go); ok {
						started = true
					}
				}
				reads := false
				ir.EachInstr(fn, func(_ *ssa.BasicBlock, _ int, in ssa.Instruction) {
					if call, ok := in.(*ssa.Call); ok && flow.InCycle(call.Block()) {
						switch ir.CallName(call) {
						case "(*bufio.Reader).ReadString", "(*bufio.Reader).ReadBytes", "(*bufio.Scanner).Scan", "(*encoding/json.Decoder).Decode":
							reads = true
						}
					}
				})
				if !started || !reads {
					continue
				}
				isClose := func(x ssa.Instruction) bool {
					cc, ok := x.(ssa.CallInstruction)
					if !ok {
						return false
					}
					for _, cal := range ir.Callees(c.G, cc) {
						if cal == cl {
							return true
						}
					}
					return false
				}
				esc := flow.ExitsAvoiding(fn, nil, isClose, false)
				c.R.Check(esc == nil, "R-reader-teardown", "stream reader "+fname(fn), c.Pos(fn.Pos()), "every return of the reader passes the transport's close",
					sprintf("%s tears the transport down when its stream ends, but can return (near %s) without doing so: calls pending on the dead stream are never released and block until their own deadline", fname(fn), iposEsc(c, esc)))
			}
		}
	}
	c.R.Min("R-reader-teardown", 1)

	// on the server, once the peer's connection is gone nothing the library started for it may stay blocked: sends to a
	// session's queue can give up (shared with C06)
	var sfns []*ssa.Function
	for f := range c.Reach(serverEntries(c)...) {
		if !clientSide(c, f) {
			sfns = append(sfns, f)
		}
	}
	sort.Slice(sfns, func(i, j int) bool { return sfns[i].String() < sfns[j].String() })
	serverSendsGiveUp(c, sfns, "R-server-send-gives-up")
	watcherGoroutinesEnd(c, cfns, "R-watcher-ends")

	c08Bodies(c, cfns)
	c08Release(c)
	c08CloseAlwaysCloses(c)
	c08NoLockAcrossWait(c, cfns)
	c08StopBeforeJoin(c)
	c08RequestCancellable(c)
	c08ChildIOOwned(c)
	c08HandlerCtxLive(c)
	c06DisconnectObserved(c) // server side of the same clause: a stream handler ends when its peer is gone, whatever context function is configured
	c08GoroutineScope(c)
	c08ArmsCloseAlike(c)
	c08Loops(c, cfns)
	c08SingleCloser(c, cfns)
	c08TablePair(c)
}

// onlyViaClosedFlag: every path from `from` to a return that avoids a cancel call passes the true edge of an
// If whose condition is an atomic Load (the closed flag).
func onlyViaClosedFlag(fn *ssa.Function, from ssa.Instruction, _ *flow.Escape) bool {
	l := flow.LocOf(from)
	type item struct {
		b *ssa.BasicBlock
		i int
	}
	seen := map[*ssa.BasicBlock]bool{}
	stack := []item{{l.B, l.I + 1}}
	for len(stack) > 0 {
		it := stack[len(stack)-1]
		stack = stack[:len(stack)-1]
		stopped := false
		for k := it.i; k < len(it.b.Instrs); k++ {
			in := it.b.Instrs[k]
			if cl, ok := in.(*ssa.Call); ok {
				if f, _, ok := ir.LoadedField(cl.Call.Value); ok && isCancelFunc(f.Type) {
					stopped = true
					break
				}
			}
			if _, ok := in.(*ssa.Return); ok {
				return false
			}
		}
		if stopped {
			continue
		}
		skip := -1
		if len(it.b.Instrs) > 0 {
			if ifi, ok := it.b.Instrs[len(it.b.Instrs)-1].(*ssa.If); ok {
				cond := ifi.Cond
				neg := false
				if u, ok := cond.(*ssa.UnOp); ok && u.Op == token.NOT {
					cond, neg = u.X, true
				}
				if call, ok := cond.(*ssa.Call); ok && strings.HasSuffix(ir.CallName(call), "atomic.Bool).Load") {
					// closed == true edge is allowed to return without cancelling
					skip = 0
					if neg {
						skip = 1
					}
				}
			}
		}
		for i, s := range it.b.Succs {
			if i == skip || seen[s] {
				continue
			}
			seen[s] = true
			stack = append(stack, item{s, 0})
		}
	}
	return true
}

// ---------------------------------------------------------------- R-body-owner
func c08Bodies(c *Ctx, cfns []*ssa.Function) {
	// summaries: callee closes the response/body it receives as parameter i
	closes := map[*ssa.Function]map[int]bool{}
	aliases := func(v ssa.Value) map[ssa.Value]bool {
		out := map[ssa.Value]bool{v: true}
		if refs := v.Referrers(); refs != nil {
			for _, r := range *refs {
				if phi, ok := r.(*ssa.Phi); ok {
					out[phi] = true
				}
			}
		}
		return out
	}
	isBodyClose := func(in ssa.Instruction, of ssa.Value) bool {
		al := aliases(of)
		var cc *ssa.CallCommon
		switch x := in.(type) {
		case *ssa.Call:
			cc = &x.Call
		case *ssa.Defer:
			cc = &x.Call
		default:
			return false
		}
		if !cc.IsInvoke() || cc.Method.Name() != "Close" {
			return false
		}
		// receiver: of itself (a ReadCloser) or *(&of.Body)
		if al[cc.Value] {
			return true
		}
		if f, base, ok := ir.LoadedField(cc.Value); ok && f.Name == "Body" && al[base] {
			return true
		}
		return false
	}
	for _, fn := range cfns {
		for i, p := range fn.Params {
			ts := ir.TypeStr(p.Type())
			if ts != "*net/http.Response" && ts != "io.ReadCloser" {
				continue
			}
			esc := flow.ExitsAvoiding(fn, nil, func(in ssa.Instruction) bool { return isBodyClose(in, p) }, true)
			if esc == nil {
				if closes[fn] == nil {
					closes[fn] = map[int]bool{}
				}
				closes[fn][i] = true
			}
		}
	}
	// callee closes the response it receives on every path on which it returns a non-nil error (a status check that
	// rejects the answer and releases it: `if err := checkResponse(resp); err != nil { return err }`)
	closesOnError := map[*ssa.Function]map[int]bool{}
	for _, fn := range cfns {
		res := fn.Signature.Results()
		if res.Len() != 1 || ir.TypeStr(res.At(0).Type()) != "error" {
			continue
		}
		for i, p := range fn.Params {
			if ts := ir.TypeStr(p.Type()); ts != "*net/http.Response" && ts != "io.ReadCloser" {
				continue
			}
			okAll, any := true, false
			ir.EachInstr(fn, func(b *ssa.BasicBlock, _ int, in ssa.Instruction) {
				ret, ok := in.(*ssa.Return)
				if !ok || b == fn.Recover || ir.IsNilConst(ir.Results(ret)[0]) {
					return
				}
				any = true
				closed := false
				ir.EachInstr(fn, func(_ *ssa.BasicBlock, _ int, x ssa.Instruction) {
					if isBodyClose(x, p) && (flow.Dominates(x, ret) || func() bool { _, d := x.(*ssa.Defer); return d }()) {
						closed = true
					}
				})
				if !closed {
					okAll = false
				}
			})
			if any && okAll {
				if closesOnError[fn] == nil {
					closesOnError[fn] = map[int]bool{}
				}
				closesOnError[fn][i] = true
			}
		}
	}
	// forwarders: a function that returns the response of such a call as it is (a thin `dispatch` wrapper around
	// the handler) hands the ownership to its caller: its callers are the ones that obtain the response
	forwarders := map[*ssa.Function]bool{}
	isSource := func(call *ssa.Call) bool {
		nm := ir.CallName(call)
		if nm == "(mcp.HTTPReqHandler).Handle" || nm == "(*net/http.Client).Do" {
			return true
		}
		sc := ir.StaticCallee(call)
		return sc != nil && forwarders[sc]
	}
	for changed := true; changed; {
		changed = false
		for _, fn := range cfns {
			if forwarders[fn] || fn.Signature.Results().Len() == 0 || ir.TypeStr(fn.Signature.Results().At(0).Type()) != "*net/http.Response" {
				continue
			}
			ir.EachInstr(fn, func(_ *ssa.BasicBlock, _ int, in ssa.Instruction) {
				r, ok := in.(*ssa.Return)
				if !ok || len(r.Results) == 0 {
					return
				}
				v := r.Results[0]
				if ex, ok := v.(*ssa.Extract); ok {
					v = ex.Tuple
				}
				if call, ok := v.(*ssa.Call); ok && isSource(call) && !forwarders[fn] {
					forwarders[fn] = true
					changed = true
				}
			})
		}
	}
	n := 0
	for _, fn := range cfns {
		ir.EachInstr(fn, func(_ *ssa.BasicBlock, _ int, in ssa.Instruction) {
			call, ok := in.(*ssa.Call)
			if !ok {
				return
			}
			if !isSource(call) {
				return
			}
			if ir.Outer(fn).Name() == "Handle" || forwarders[fn] {
				return // the default handler / a thin wrapper forwards the response to its caller
			}
			var resp ssa.Value
			for _, r := range *call.Referrers() {
				if ex, ok := r.(*ssa.Extract); ok && ex.Index == 0 {
					resp = ex
				}
			}
			if resp == nil {
				return
			}
			n++
			construct := "response obtained in " + fname(fn)
			if n > 0 {
				cnt := 0
				ir.EachInstr(fn, func(_ *ssa.BasicBlock, _ int, x ssa.Instruction) {
					if c2, ok := x.(*ssa.Call); ok && c2.Pos() <= call.Pos() && isSource(c2) {
						cnt++
					}
				})
				if cnt > 1 {
					construct = sprintf("%s#%d", construct, cnt)
				}
			}
			// start after the err != nil early return: from the err==nil edge (the error may be merged by a phi)
			start := ssa.Instruction(call)
			for _, r := range *call.Referrers() {
				ex, ok := r.(*ssa.Extract)
				if !ok || ir.TypeStr(ex.Type()) != "error" { // (resp, err) or a helper's (resp, stage, err)
					continue
				}
				errVals := []ssa.Value{ex}
				for _, rr := range *ex.Referrers() {
					if phi, ok := rr.(*ssa.Phi); ok {
						errVals = append(errVals, phi)
					}
				}
				for _, ev := range errVals {
					for _, rr := range *ev.Referrers() {
						bin, ok := rr.(*ssa.BinOp)
						if !ok {
							continue
						}
						if _, op, ok := nilCompare(bin); ok {
							for _, r3 := range *bin.Referrers() {
								if ifi, ok := r3.(*ssa.If); ok {
									okSucc := 1
									if op == token.EQL {
										okSucc = 0
									}
									if len(ifi.Block().Succs[okSucc].Instrs) > 0 {
										start = ifi.Block().Succs[okSucc].Instrs[0]
									}
								}
							}
						}
					}
				}
			}
			// the failure edge of a check that closes what it rejects
			releasedAt := map[ssa.Instruction]bool{}
			ir.EachInstr(fn, func(_ *ssa.BasicBlock, _ int, x ssa.Instruction) {
				hc, ok := x.(*ssa.Call)
				if !ok || hc.Referrers() == nil {
					return
				}
				callee := ir.StaticCallee(hc)
				if callee == nil {
					return
				}
				al := aliases(resp)
				for i, a := range hc.Call.Args {
					isResp := al[a]
					if f, base, ok := ir.LoadedField(a); ok && f.Name == "Body" && al[base] {
						isResp = true
					}
					if !isResp || !closesOnError[callee][i] {
						continue
					}
					for _, r := range *hc.Referrers() {
						bin, ok := r.(*ssa.BinOp)
						if !ok || bin.Referrers() == nil {
							continue
						}
						if _, op, ok := nilCompare(bin); ok {
							for _, rr := range *bin.Referrers() {
								if ifi, ok := rr.(*ssa.If); ok {
									fail := ifi.Block().Succs[0]
									if op == token.EQL {
										fail = ifi.Block().Succs[1]
									}
									if len(fail.Instrs) > 0 {
										releasedAt[fail.Instrs[0]] = true
									}
								}
							}
						}
					}
				}
			})
			released := func(x ssa.Instruction) bool {
				if isBodyClose(x, resp) || releasedAt[x] {
					return true
				}
				switch y := x.(type) {
				case *ssa.Call, *ssa.Go:
					cc := y.(ssa.CallInstruction).Common()
					callee := ir.StaticCallee(y.(ssa.CallInstruction))
					al := aliases(resp)
					for i, a := range cc.Args {
						isResp := al[a]
						if f, base, ok := ir.LoadedField(a); ok && f.Name == "Body" && al[base] {
							isResp = true
						}
						if isResp && callee != nil && closes[callee][i] {
							return true
						}
					}
				case *ssa.Store:
					// ownership stored for close(): the bound method value resp.Body.Close or the body itself kept in a field
					if mc, ok := y.Val.(*ssa.MakeClosure); ok && len(mc.Bindings) == 1 {
						if f, base, ok := ir.LoadedField(mc.Bindings[0]); ok && f.Name == "Body" && aliases(resp)[base] {
							if _, isField := y.Addr.(*ssa.FieldAddr); isField {
								return true
							}
						}
					}
				}
				return false
			}
			var esc *flow.Escape
			if start == ssa.Instruction(call) {
				esc = flow.ExitsAvoiding(fn, call, released, false)
			} else if !released(start) {
				esc = flow.ExitsAvoiding(fn, start, released, false)
				if _, isRet := start.(*ssa.Return); isRet {
					esc = &flow.Escape{Exit: start}
				}
			}
			c.R.Check(esc == nil, "R-body-owner", construct, c.Pos(call.Pos()), "the response body is closed (or handed to an owner that closes it) on every path",
				sprintf("%s obtains an HTTP response whose Body is not closed on every path to the function's exit (e.g. the path returning near %s): the connection and its reader goroutine leak", fname(fn), iposEsc(c, esc)))
		})
	}
	c.R.Min("R-body-owner", 9)
}

func iposEsc(c *Ctx, e *flow.Escape) string {
	if e == nil || e.Exit == nil {
		return "-"
	}
	return ipos(c, e.Exit)
}

// ---------------------------------------------------------------- R-release-on-close
func c08Release(c *Ctx) {
	tr := c.transportIface()
	if tr == nil {
		c.R.Break("anchor not found: the clients' transport interface (by shape)")
		return
	}
	resourceType := func(t types.Type) bool {
		switch ir.TypeStr(t) {
		case "context.CancelFunc", "io.ReadCloser", "io.WriteCloser", "io.Closer", "func() error", "*os/exec.Cmd":
			return true
		}
		return false
	}
	n := 0
	for _, T := range c.P.Implementers(tr.Underlying().(*types.Interface)) {
		cl := c.P.Method(T, c.transportCloseMethod(tr))
		if cl == nil {
			c.R.Violate("R-release-on-close", ir.TypeKey(T)+": close", c.Pos(T.Obj().Pos()), "transport has no close method")
			continue
		}
		scope := c.ReachSync(cl)
		// fields (including nested anonymous structs)
		var fields []string
		walked := map[*types.Named]bool{}
		var walk func(prefix string, st *types.Struct)
		walk = func(prefix string, st *types.Struct) {
			for i := 0; i < st.NumFields(); i++ {
				f := st.Field(i)
				if resourceType(f.Type()) {
					fields = append(fields, prefix+f.Name())
				}
				if inner, ok := f.Type().Underlying().(*types.Struct); ok {
					if _, named := f.Type().(*types.Named); !named {
						walk(prefix+f.Name()+".", inner)
					}
				}
				// a record of resources published through an atomic.Pointer[R] member: R's members are the transport's
				if nt, ok := f.Type().(*types.Named); ok && nt.Obj().Pkg() != nil && nt.Obj().Pkg().Path() == "sync/atomic" && nt.TypeArgs() != nil && nt.TypeArgs().Len() == 1 {
					if rec, ok := nt.TypeArgs().At(0).(*types.Named); ok && ir.InLibrary(rec) && !walked[rec] {
						if rs, ok := rec.Underlying().(*types.Struct); ok {
							walked[rec] = true
							walk(ir.TypeKey(rec)+".", rs)
						}
					}
				}
			}
		}
		walk(ir.TypeKey(T)+".", T.Underlying().(*types.Struct))
		sort.Strings(fields)
		// a resource handed on inside close(): copied into a member of another (local) record — a list of named closers
		// — and released through that member
		aliases := map[string]map[string]bool{}
		for f := range scope {
			ir.EachInstr(f, func(_ *ssa.BasicBlock, _ int, in ssa.Instruction) {
				st, ok := in.(*ssa.Store)
				if !ok {
					return
				}
				dst, ok := st.Addr.(*ssa.FieldAddr)
				if !ok {
					return
				}
				k2, _, _, _ := ir.FullField(dst)
				v := st.Val
				for {
					if mi, ok := v.(*ssa.MakeInterface); ok {
						v = mi.X
						continue
					}
					if ci, ok := v.(*ssa.ChangeInterface); ok {
						v = ci.X
						continue
					}
					break
				}
				if u, ok := v.(*ssa.UnOp); ok && k2 != "" {
					if fa, ok := u.X.(*ssa.FieldAddr); ok {
						if k1, _, _, _ := ir.FullField(fa); k1 != "" && k1 != k2 {
							if aliases[k1] == nil {
								aliases[k1] = map[string]bool{}
							}
							aliases[k1][k2] = true
						}
					}
				}
			})
		}
		for _, fld := range fields {
			n++
			released := false
			for f := range scope {
				ir.EachInstr(f, func(_ *ssa.BasicBlock, _ int, in ssa.Instruction) {
					call, ok := in.(ssa.CallInstruction)
					if !ok {
						return
					}
					cc := call.Common()
					chk := func(v ssa.Value) {
						for i := 0; i < 3; i++ { // (handed on as a narrower interface: closePipe(p.stdin))
							switch x := v.(type) {
							case *ssa.MakeInterface:
								v = x.X
							case *ssa.ChangeInterface:
								v = x.X
							}
						}
						if u, ok := v.(*ssa.UnOp); ok {
							if fa, ok := u.X.(*ssa.FieldAddr); ok {
								if key, _, _, _ := ir.FullField(fa); key == fld || aliases[fld][key] {
									released = true
								}
							}
						}
					}
					chk(cc.Value)
					for _, a := range cc.Args {
						chk(a)
						// t.process.Process.Kill(): receiver is a field of the loaded process
						if u, ok := a.(*ssa.UnOp); ok {
							if fa2, ok := u.X.(*ssa.FieldAddr); ok {
								chk(fa2.X)
							}
						}
					}
				})
			}
			c.R.Check(released, "R-release-on-close", fld, c.Pos(cl.Pos()), "released through this field in close()",
				sprintf("the transport's close() never releases the resource held in %s (no call through that field): it outlives the client", fld))
		}
		// idempotence
		guarded := false
		for f := range scope {
			if ir.Outer(f) != cl {
				continue
			}
			ir.EachCall(f, func(call ssa.CallInstruction) {
				nm := ir.CallName(call)
				if strings.HasSuffix(nm, ").CompareAndSwap") || nm == "(*sync.Once).Do" {
					guarded = true
				}
			})
		}
		// a close that only cancels and resets under a lock with nil/active checks is idempotent as well
		if !guarded {
			nilChecked := true
			ir.EachInstr(cl, func(_ *ssa.BasicBlock, _ int, in ssa.Instruction) {
				call, ok := in.(*ssa.Call)
				if !ok {
					return
				}
				if f, _, ok := ir.LoadedField(call.Call.Value); ok && isCancelFunc(f.Type) {
					g := false
					for _, gd := range flow.Guards(cl, call.Block()) {
						if _, _, ok := nilCompare(gd.If.Cond); ok {
							g = true
						}
						if _, _, isField := ir.LoadedField(gd.If.Cond); isField {
							g = true
						}
					}
					if !g {
						nilChecked = false
					}
				}
			})
			guarded = nilChecked
		}
		c.R.Check(guarded, "R-release-on-close", ir.TypeKey(T)+": close is idempotent", c.Pos(cl.Pos()), "a second close is a no-op (CAS/Once/nil-checked)", sprintf("%s.close can release its resources twice", ir.TypeKey(T)))
	}
	c.R.Min("R-release-on-close", 10)
	_ = n
}

// ---------------------------------------------------------------- R-goroutine-exit
func c08Loops(c *Ctx, cfns []*ssa.Function) {
	started := map[*ssa.Function]bool{}
	for _, fn := range cfns {
		ir.EachInstr(fn, func(_ *ssa.BasicBlock, _ int, in ssa.Instruction) {
			if g, ok := in.(*ssa.Go); ok {
				for _, cal := range ir.Callees(c.G, g) {
					if c.P.IsLib(cal) {
						started[cal] = true
					}
				}
			}
		})
	}
	n := 0
	for _, fn := range sortedFuncs(started) {
		for f := range c.ReachSync(fn) {
			if !clientSide(c, f) {
				continue
			}
			// every cyclic block set must have an edge out
			for _, b := range f.Blocks {
				if !flow.InCycle(b) {
					continue
				}
				// the set of blocks on cycles through b
				loop := map[*ssa.BasicBlock]bool{}
				for _, x := range f.Blocks {
					if reachesBlock(b, x) && reachesBlock(x, b) {
						loop[x] = true
					}
				}
				exit := false
				for x := range loop {
					for _, s := range x.Succs {
						if !loop[s] {
							exit = true
						}
					}
					for _, in := range x.Instrs {
						if _, ok := in.(*ssa.Return); ok {
							exit = true
						}
					}
				}
				if b == firstOf(loop) {
					n++
					c.R.Check(exit, "R-goroutine-exit", sprintf("loop in %s (goroutine %s)", fname(f), fname(fn)), ipos(c, b.Instrs[0]), "the loop has an exit edge",
						sprintf("%s, which runs in a goroutine the client starts, contains a loop without any exit: the goroutine never ends after Close", fname(f)))
				}
			}
		}
	}
	c.R.Min("R-goroutine-exit", 3)
	_ = n
}

func reachesBlock(a, b *ssa.BasicBlock) bool {
	seen := map[*ssa.BasicBlock]bool{}
	stack := append([]*ssa.BasicBlock{}, a.Succs...)
	for len(stack) > 0 {
		x := stack[len(stack)-1]
		stack = stack[:len(stack)-1]
		if x == b {
			return true
		}
		if seen[x] {
			continue
		}
		seen[x] = true
		stack = append(stack, x.Succs...)
	}
	return false
}

func firstOf(m map[*ssa.BasicBlock]bool) *ssa.BasicBlock {
	var best *ssa.BasicBlock
	for b := range m {
		if best == nil || b.Index < best.Index {
			best = b
		}
	}
	return best
}

// ---------------------------------------------------------------- R-single-closer
func c08SingleCloser(c *Ctx, cfns []*ssa.Function) {
	sites := closeSites(c, cfns)
	tableClosers := map[string]bool{}
	for _, cs := range sites {
		if strings.HasSuffix(cs.field, "[*]") {
			tableClosers[strings.TrimSuffix(cs.field, "[*]")] = true
		}
	}
	n := 0
	for _, cs := range sites {
		if cs.field != "" {
			continue
		}
		// a locally made channel that was also stored into a table whose entries another function closes
		ch := unspill(cs.call.Common().Args[0])
		outer := ir.Outer(cs.fn)
		table := ""
		for _, f := range ir.WithClosures(outer) {
			ir.EachInstr(f, func(_ *ssa.BasicBlock, _ int, in ssa.Instruction) {
				if mu, ok := in.(*ssa.MapUpdate); ok {
					if _, isChan := mu.Value.Type().Underlying().(*types.Chan); isChan {
						if fl, _, ok := ir.LoadedField(mu.Map); ok && tableClosers[fl.Key()] {
							table = fl.Key()
						}
					}
				}
			})
		}
		// a removal helper: the channel is a parameter, and this function deletes from a table whose entries close() closes
		if _, isParam := ch.(*ssa.Parameter); isParam && table == "" {
			ir.EachInstr(cs.fn, func(_ *ssa.BasicBlock, _ int, in ssa.Instruction) {
				if call, ok := in.(*ssa.Call); ok {
					if b, ok := call.Call.Value.(*ssa.Builtin); ok && b.Name() == "delete" {
						if fl, _, ok := ir.LoadedField(call.Call.Args[0]); ok && tableClosers[fl.Key()] {
							table = fl.Key()
						}
					}
				}
			})
		}
		if table == "" {
			continue
		}
		n++
		// the close must be controlled by a successful lookup of the own entry in that table
		guarded := false
		for _, g := range flow.Guards(cs.fn, cs.call.Block()) {
			if ex, ok := g.If.Cond.(*ssa.Extract); ok && ex.Index == 1 && g.Branch {
				if lk, ok := ex.Tuple.(*ssa.Lookup); ok && fromTableLookup(lk, table) {
					guarded = true
				}
			}
		}
		c.R.Check(guarded, "R-single-closer", "close of own pending channel in "+fname(cs.fn), c.Pos(cs.call.Pos()), "closed only if the entry is still in "+table+" (the remover closes)",
			sprintf("%s closes the channel it registered in %s unconditionally, while the transport's close() closes every channel still in that table: closing the client while this call is pending closes the channel twice (panic: close of closed channel)", fname(cs.fn), table))
	}
	c.R.Min("R-single-closer", 1)
	_ = n
}

// ---------------------------------------------------------------- R-table-pair
func c08TablePair(c *Ctx) {
	n := 0
	for _, fn := range c.P.LibFns {
		if c.InitOnly()[fn] {
			continue
		}
		type ins struct {
			at    ssa.Instruction
			table string
		}
		var inserts []ins
		removals := map[string][]ssa.Instruction{}
		deferredRemovals := map[string][]ssa.Instruction{}
		tableOf := func(v ssa.Value) string {
			if fa, ok := v.(*ssa.FieldAddr); ok {
				key, _, _, _ := ir.FullField(fa)
				return key
			}
			if f, _, ok := ir.LoadedField(v); ok {
				return f.Key()
			}
			return ""
		}
		ir.EachInstr(fn, func(_ *ssa.BasicBlock, _ int, in ssa.Instruction) {
			switch x := in.(type) {
			case *ssa.MapUpdate:
				if t := tableOf(x.Map); t != "" {
					if _, isChan := x.Value.Type().Underlying().(*types.Chan); isChan || strings.Contains(ir.TypeStr(x.Value.Type()), "interface") {
						inserts = append(inserts, ins{x, t})
					} else if _, isPtr := x.Value.Type().Underlying().(*types.Pointer); isPtr && ir.BaseAlloc(ir.Unwrap(x.Value)) {
						inserts = append(inserts, ins{x, t})
					}
				}
			case *ssa.Call:
				nm := ir.CallName(x)
				if nm == "(*sync.Map).Store" {
					if t := tableOf(x.Call.Args[0]); t != "" {
						inserts = append(inserts, ins{x, t})
					}
				}
				if nm == "(*sync.Map).Delete" {
					if t := tableOf(x.Call.Args[0]); t != "" {
						removals[t] = append(removals[t], x)
					}
				}
				if b, ok := x.Call.Value.(*ssa.Builtin); ok && b.Name() == "delete" {
					if t := tableOf(x.Call.Args[0]); t != "" {
						removals[t] = append(removals[t], x)
					}
				}
				// a call to a library helper that only registers an entry (inserts, never removes): the entry's lifetime
				// is then this function's business
				if sc := ir.StaticCallee(x); sc != nil && c.P.IsLib(sc) && sc != fn {
					insT, remT := map[string]bool{}, map[string]bool{}
					ir.EachInstr(sc, func(_ *ssa.BasicBlock, _ int, in2 ssa.Instruction) {
						switch y := in2.(type) {
						case *ssa.MapUpdate:
							if t := tableOf(y.Map); t != "" {
								if _, isChan := y.Value.Type().Underlying().(*types.Chan); isChan {
									insT[t] = true
								}
							}
						case *ssa.Call:
							if b, ok := y.Call.Value.(*ssa.Builtin); ok && b.Name() == "delete" {
								if t := tableOf(y.Call.Args[0]); t != "" {
									remT[t] = true
								}
							}
						}
					})
					for t := range insT {
						if !remT[t] {
							inserts = append(inserts, ins{x, t})
						}
					}
				}
				// a call to a library function that removes from the table
				if sc := ir.StaticCallee(x); sc != nil && c.P.IsLib(sc) {
					ir.EachCall(sc, func(c2 ssa.CallInstruction) {
						if b, ok := c2.Common().Value.(*ssa.Builtin); ok && b.Name() == "delete" {
							if t := tableOf(c2.Common().Args[0]); t != "" {
								removals[t] = append(removals[t], x)
							}
						}
					})
				}
			case *ssa.Defer:
				var body *ssa.Function
				if mc, ok := x.Call.Value.(*ssa.MakeClosure); ok {
					body, _ = mc.Fn.(*ssa.Function)
				} else {
					body = ir.StaticCallee(x)
				}
				if body != nil {
					ir.EachCall(body, func(c2 ssa.CallInstruction) {
						if b, ok := c2.Common().Value.(*ssa.Builtin); ok && b.Name() == "delete" {
							if t := tableOf(c2.Common().Args[0]); t != "" {
								deferredRemovals[t] = append(deferredRemovals[t], x)
							}
						}
						if ir.CallName(c2) == "(*sync.Map).Delete" {
							if t := tableOf(c2.Common().Args[0]); t != "" {
								deferredRemovals[t] = append(deferredRemovals[t], x)
							}
						}
					})
				}
			}
		})
		for _, i := range inserts {
			if len(removals[i.table]) == 0 && len(deferredRemovals[i.table]) == 0 {
				continue // this function only inserts: the entry's lifetime is managed elsewhere (checked by C06 R-per-request-growth)
			}
			n++
			stop := map[ssa.Instruction]bool{}
			for _, r := range removals[i.table] {
				stop[r] = true
			}
			for _, r := range deferredRemovals[i.table] {
				stop[r] = true
			}
			tbl := i.table
			esc := flow.ExitsAvoiding(fn, i.at, func(x ssa.Instruction) bool {
				if stop[x] {
					return true
				}
				// the function looks its own entry up again (identity-guarded removal: the entry may have been replaced)
				if lk, ok := x.(*ssa.Lookup); ok && lk.CommaOk && fromTableLookup(lk, tbl) {
					return true
				}
				return false
			}, false)
			c.R.Check(esc == nil, "R-table-pair", "entry of "+i.table+" inserted by "+fname(fn), c.Pos(i.at.Pos()), "removed again (directly or by a defer registered) on every path to the exit",
				sprintf("%s inserts an entry into %s and can return (near %s) without removing it and before any deferred removal is registered: the entry (and what it references) leaks", fname(fn), i.table, iposEsc(c, esc)))
		}
	}
	c.R.Min("R-table-pair", 5)
	_ = n
}

// registeredIn: the table fields (map fields) a channel value is stored into — directly (make + map update in the same
// function) or by the library helper that made, registered and returned it.
func registeredIn(c *Ctx, v ssa.Value, depth int) []string {
	var out []string
	switch x := v.(type) {
	case *ssa.MakeChan:
		for _, r := range *x.Referrers() {
			if mu, ok := r.(*ssa.MapUpdate); ok {
				if f, _, ok := ir.LoadedField(mu.Map); ok {
					out = append(out, f.Key())
				}
			}
		}
	case *ssa.Call:
		sc := ir.StaticCallee(x)
		if sc == nil || !c.P.IsLib(sc) || depth > 1 {
			return nil
		}
		ir.EachInstr(sc, func(_ *ssa.BasicBlock, _ int, in ssa.Instruction) {
			if r, ok := in.(*ssa.Return); ok {
				for _, rv := range ir.Results(r) {
					if _, isChan := rv.Type().Underlying().(*types.Chan); isChan {
						out = append(out, registeredIn(c, unspill(rv), depth+1)...)
					}
				}
			}
		})
	case *ssa.Extract:
		return registeredIn(c, x.Tuple, depth)
	case *ssa.ChangeType:
		return registeredIn(c, x.X, depth) // chan T handed on as <-chan T
	case *ssa.Parameter:
		// a waiting helper: the channel is what the library callers hand in
		fn := x.Parent()
		if depth > 1 || fn == nil {
			return nil
		}
		idx := -1
		for i, p := range fn.Params {
			if p == x {
				idx = i
			}
		}
		for _, e := range ir.Callers(c.G, fn) {
			if e.Site == nil || !c.P.IsLib(e.Caller.Func) {
				continue
			}
			args := e.Site.Common().Args
			off := 0
			if e.Site.Common().IsInvoke() {
				off = 1
			}
			if idx-off >= 0 && idx-off < len(args) {
				out = append(out, registeredIn(c, unspill(args[idx-off]), depth+1)...)
			}
		}
	}
	return out
}

func iposI(c *Ctx, in ssa.Instruction) string {
	if in == nil {
		return "-"
	}
	return ipos(c, in)
}

// c08CloseAlwaysCloses (R-release-on-close): the exported Close of every client hands over to its transport's close on
// every path, except where it has found that there is no transport. A Close that returns early on a state flag
// ("already disconnected") leaves what a failed Initialize had already started — the child process, the event stream
// and its reader goroutine — running for ever.
func c08CloseAlwaysCloses(c *Ctx) {
	tr := c.transportIface()
	conn := c.P.RootNamed("Connector")
	if tr == nil || conn == nil {
		return
	}
	closeName := c.transportCloseMethod(tr)
	trI := tr.Underlying().(*types.Interface)
	isTransport := func(t types.Type) bool {
		return types.Identical(t, tr) || (!types.IsInterface(t) && types.Implements(t, trI))
	}
	closesTransport := func(call ssa.CallInstruction) bool {
		cc := call.Common()
		if cc.IsInvoke() {
			return cc.Method.Name() == closeName && isTransport(cc.Value.Type())
		}
		sc := ir.StaticCallee(call)
		return sc != nil && sc.Name() == closeName && sc.Signature.Recv() != nil && isTransport(sc.Signature.Recv().Type())
	}
	n := 0
	for _, T := range c.P.Implementers(conn.Underlying().(*types.Interface)) {
		cl := c.P.Method(T, "Close")
		if cl == nil || len(cl.Blocks) == 0 {
			continue
		}
		isTC := func(in ssa.Instruction) bool {
			call, ok := in.(ssa.CallInstruction)
			if !ok {
				return false
			}
			if closesTransport(call) {
				return true
			}
			// through a helper of the client that does it on all its paths
			if sc := ir.StaticCallee(call); sc != nil && c.P.IsLib(sc) && sc != cl {
				found := false
				ir.EachCall(sc, func(ic ssa.CallInstruction) {
					if closesTransport(ic) {
						found = true
					}
				})
				return found
			}
			return false
		}
		var escape *ssa.BasicBlock
		seen := map[*ssa.BasicBlock]bool{}
		stack := []*ssa.BasicBlock{cl.Blocks[0]}
		for len(stack) > 0 && escape == nil {
			b := stack[len(stack)-1]
			stack = stack[:len(stack)-1]
			if seen[b] || b == cl.Recover {
				continue
			}
			seen[b] = true
			stop := false
			for _, in := range b.Instrs {
				if isTC(in) {
					stop = true
				}
			}
			if stop {
				continue
			}
			last := b.Instrs[len(b.Instrs)-1]
			if _, isRet := last.(*ssa.Return); isRet {
				escape = b
				break
			}
			skip := -1
			if ifi, ok := last.(*ssa.If); ok {
				// the "no transport" edge: transport == nil (true edge) / transport != nil (false edge)
				cond, pol := ifi.Cond, 0
				for {
					if u, ok := cond.(*ssa.UnOp); ok && u.Op == token.NOT {
						cond, pol = u.X, 1-pol
						continue
					}
					break
				}
				// the test itself, or a predicate helper that returns it (hasTransport())
				if hc, ok := cond.(*ssa.Call); ok {
					if sc := ir.StaticCallee(hc); sc != nil && c.P.IsLib(sc) && len(sc.Blocks) == 1 {
						if ret, ok := sc.Blocks[0].Instrs[len(sc.Blocks[0].Instrs)-1].(*ssa.Return); ok && len(ret.Results) == 1 {
							cond = ret.Results[0]
						}
					}
				}
				if bin, ok := cond.(*ssa.BinOp); ok {
					v, other := bin.X, bin.Y
					if ir.IsNilConst(v) {
						v, other = other, v
					}
					if ir.IsNilConst(other) && isTransport(v.Type()) {
						if bin.Op == token.EQL {
							skip = pol
						} else if bin.Op == token.NEQ {
							skip = 1 - pol
						}
					}
				}
			}
			for i, s := range b.Succs {
				if i != skip {
					stack = append(stack, s)
				}
			}
		}
		n++
		c.R.Check(escape == nil, "R-release-on-close", ir.TypeKey(T)+".Close always reaches the transport's "+closeName, c.Pos(cl.Pos()),
			"every path closes the transport unless there is none",
			sprintf("%s can return without calling the transport's %s although a transport exists (an early return on a state flag): after a failed Initialize the child process / event stream and its reader goroutine are never released", fname(cl), closeName))
	}
	if n < 2 {
		c.R.Break("R-release-on-close: expected the Close of two client types, found %d", n)
	}
}

// c08NoLockAcrossWait (R-wait-has-exit): sync.Mutex.Lock cannot be cancelled. A client function that sends an HTTP
// request, or waits in a select that has a ctx.Done() arm, while holding a mutex therefore makes every other caller of
// that mutex wait — beyond its own deadline — for as long as the network takes. No library mutex is held at such a point.
func c08NoLockAcrossWait(c *Ctx, cfns []*ssa.Function) {
	ls := c.Locks()
	n := 0
	for _, fn := range cfns {
		cnt := 0
		ir.EachInstr(fn, func(_ *ssa.BasicBlock, _ int, in ssa.Instruction) {
			what := ""
			switch x := in.(type) {
			case *ssa.Call:
				if nm := ir.CallName(x); nm == "(mcp.HTTPReqHandler).Handle" || nm == "(*net/http.Client).Do" {
					what = "sends an HTTP request"
				}
			case *ssa.Select:
				if x.Blocking {
					for _, st := range x.States {
						if oc := originCall(st.Chan); oc != nil && ir.CallName(oc) == "(context.Context).Done" {
							what = "waits in a select"
						}
					}
				}
			case *ssa.UnOp:
				// a bare receive waits for another goroutine: if that goroutine needs the mutex to get there (its exit
				// path resets the shared slot), neither ever proceeds
				if x.Op == token.ARROW {
					what = "waits for another goroutine (channel receive)"
				}
			}
			if what == "" {
				return
			}
			n++
			cnt++
			held := ls.At(in).Keys()
			c.R.Check(len(held) == 0, "R-wait-has-exit", sprintf("no mutex held at network wait #%d of %s", cnt, fname(fn)), c.Pos(in.Pos()), "no library mutex is held here",
				sprintf("%s %s while holding %v: Lock() does not honour a context, so a concurrent call that needs the mutex stays blocked past its own deadline until this one is done", fname(fn), what, held))
		})
	}
	if n < 5 {
		c.R.Break("R-wait-has-exit: only %d network waits found in client code", n)
	}
}

// c08StopBeforeJoin (R-stop-before-join): a handler that waits for goroutines it started (WaitGroup.Wait) must have told
// them to stop before it waits — the stop signal being the close of a channel member (directly or through a helper).
// With the wait and the stop both deferred, the order of registration decides: defers run last-in first-out, so a stop
// registered BEFORE the wait runs AFTER it, and the handler (with its goroutines and its session) is stuck until some
// other signal arrives.
func c08StopBeforeJoin(c *Ctx) {
	closesField := func(call ssa.CallInstruction, d int) bool { return false }
	closesField = func(call ssa.CallInstruction, d int) bool {
		if ir.CallName(call) == "builtin.close" {
			_, _, ok := ir.LoadedField(call.Common().Args[0])
			return ok
		}
		if d >= 2 {
			return false
		}
		var callee *ssa.Function
		if mc, ok := call.Common().Value.(*ssa.MakeClosure); ok {
			callee, _ = mc.Fn.(*ssa.Function)
		} else {
			callee = ir.StaticCallee(call)
		}
		if callee == nil || !c.P.IsLib(callee) {
			return false
		}
		found := false
		ir.EachCall(callee, func(ic ssa.CallInstruction) {
			if _, isGo := ic.(*ssa.Go); !isGo && closesField(ic, d+1) {
				found = true
			}
		})
		return found
	}
	n := 0
	for _, fn := range c.P.LibFns {
		var waits []ssa.Instruction
		startsGo := false
		ir.EachInstr(fn, func(_ *ssa.BasicBlock, _ int, in ssa.Instruction) {
			if call, ok := in.(ssa.CallInstruction); ok && ir.CallName(call) == "(*sync.WaitGroup).Wait" {
				waits = append(waits, in)
			}
			if _, ok := in.(*ssa.Go); ok {
				startsGo = true
			}
		})
		if len(waits) == 0 || !startsGo {
			continue
		}
		var stops []ssa.Instruction
		ir.EachInstr(fn, func(_ *ssa.BasicBlock, _ int, in ssa.Instruction) {
			if call, ok := in.(ssa.CallInstruction); ok {
				if _, isGo := in.(*ssa.Go); !isGo && closesField(call, 0) {
					stops = append(stops, in)
				}
			}
		})
		if len(stops) == 0 {
			continue // the goroutines end on something else (a context): not this rule's business
		}
		for i, w := range waits {
			n++
			ok := false
			_, wDeferred := w.(*ssa.Defer)
			for _, s := range stops {
				_, sDeferred := s.(*ssa.Defer)
				switch {
				case !wDeferred && !sDeferred:
					ok = ok || flow.Dominates(s, w)
				case wDeferred && sDeferred:
					ok = ok || flow.Dominates(w, s) // registered after the wait: runs before it
				case wDeferred && !sDeferred:
					// an ordinary stop call on every path from the defer statement to the function's exit
					ok = ok || flow.ExitsAvoiding(fn, w, func(x ssa.Instruction) bool { return x == s }, false) == nil
				}
			}
			if wDeferred && !ok {
				// several ordinary stops covering the paths between them
				ok = flow.ExitsAvoiding(fn, w, func(x ssa.Instruction) bool {
					for _, s := range stops {
						if _, sDef := s.(*ssa.Defer); !sDef && x == s {
							return true
						}
					}
					return false
				}, false) == nil
			}
			c.R.Check(ok, "R-stop-before-join", sprintf("wait #%d for the goroutines of %s", i+1, fname(fn)), c.Pos(w.Pos()),
				"the goroutines have been told to stop (channel closed) before they are waited for",
				sprintf("%s waits for its goroutines before closing the channel that tells them to stop (the stop is deferred earlier than the wait, so it runs later): unless something else ends them, the handler, its goroutines and the session it registered stay for ever", fname(fn)))
		}
	}
	if n == 0 {
		c.R.Hold("R-stop-before-join", "no function both stops (by closing a channel) and joins goroutines", "", "")
	}
}

// ---------------------------------------------------------------- R-goroutine-scope
// A function that derives a cancellable context and cancels it when it returns (`ctx, cancel := context.WithCancel(p);
// defer cancel()`) scopes what it starts to its own lifetime — the connection it serves. A goroutine it starts must be
// handed that derived context; one started with the parent `p` (for instance because the `go` statement sits above the
// WithCancel line) outlives the function: on the stdio server the outgoing pump survives the peer's disconnect.
func c08GoroutineScope(c *Ctx) {
	n := 0
	for _, fn := range c.P.LibFns {
		// derived contexts whose cancel is deferred in fn
		type scope struct {
			derived ssa.Value
			parent  ssa.Value
		}
		var scopes []scope
		ir.EachInstr(fn, func(_ *ssa.BasicBlock, _ int, in ssa.Instruction) {
			call, ok := in.(*ssa.Call)
			if !ok || !strings.HasPrefix(ir.CallName(call), "context.With") || call.Referrers() == nil {
				return
			}
			var e0, e1 ssa.Value
			for _, r := range *call.Referrers() {
				if ex, ok := r.(*ssa.Extract); ok {
					if ex.Index == 0 {
						e0 = ex
					} else {
						e1 = ex
					}
				}
			}
			if e0 == nil || e1 == nil || e1.Referrers() == nil {
				return
			}
			deferred := false
			for _, r := range *e1.Referrers() {
				if d, ok := r.(*ssa.Defer); ok && d.Call.Value == e1 {
					deferred = true
				}
				// spilled to a cell that a deferred closure calls
				if st, ok := r.(*ssa.Store); ok {
					if al, ok := st.Addr.(*ssa.Alloc); ok && al.Referrers() != nil {
						for _, ar := range *al.Referrers() {
							if u, ok := ar.(*ssa.UnOp); ok && u.Referrers() != nil {
								for _, ur := range *u.Referrers() {
									if d, ok := ur.(*ssa.Defer); ok && d.Call.Value == ssa.Value(u) {
										deferred = true
									}
								}
							}
						}
					}
				}
			}
			if deferred && len(call.Call.Args) > 0 {
				scopes = append(scopes, scope{e0, unspill(call.Call.Args[0])})
			}
		})
		if len(scopes) == 0 {
			continue
		}
		ir.EachInstr(fn, func(_ *ssa.BasicBlock, _ int, in ssa.Instruction) {
			g, ok := in.(*ssa.Go)
			if !ok {
				return
			}
			args := append([]ssa.Value{}, g.Call.Args...)
			if mc, ok := g.Call.Value.(*ssa.MakeClosure); ok {
				args = append(args, mc.Bindings...)
			}
			for _, a := range args {
				if ir.TypeStr(a.Type()) != "context.Context" && ir.TypeStr(a.Type()) != "*context.Context" {
					continue
				}
				av := unspill(a)
				for _, sc := range scopes {
					n++
					isParent := av == sc.parent
					// a captured cell holding the parent at the time of the go statement: the cell is the parameter's
					if al, ok := a.(*ssa.Alloc); ok {
						if p, ok := sc.parent.(*ssa.UnOp); ok && p.X == ssa.Value(al) {
							isParent = true
						}
					}
					c.R.Check(!isParent, "R-goroutine-scope", sprintf("context of the goroutine started in %s", fname(fn)), c.Pos(g.Pos()),
						"the goroutine gets the context this function cancels on return",
						sprintf("%s derives a context that it cancels when it returns, but starts a goroutine with the parent of that context: the goroutine is not stopped when the function ends (the connection is gone) and lives as long as the caller's context — forever under context.Background()", fname(fn)))
				}
			}
		})
	}
	if n == 0 {
		c.R.Hold("R-goroutine-scope", "goroutines started by functions that scope a context to their own lifetime", "", "no function both defers the cancel of a derived context and starts a goroutine with a context (the scoping functions hand the derived context to what they call)")
	}
}

// ---------------------------------------------------------------- R-arms-close-alike
// A function that opens a connection and then waits in a select for it to become usable gives up in several arms
// (timeout, the caller's context ended, the transport closed). Whatever one failing arm does to release the half-open
// connection — calling the transport's close — every failing arm must do: an arm that just returns the error leaves
// the stream, its reader goroutine and the peer's session behind, unreferenced once the next attempt overwrites the
// connection record, so not even Close releases them.
func c08ArmsCloseAlike(c *Ctx) {
	tr := c.transportIface()
	if tr == nil {
		return
	}
	closers := map[*ssa.Function]bool{}
	for _, T := range c.P.Implementers(tr.Underlying().(*types.Interface)) {
		if cl := c.P.Method(T, c.transportCloseMethod(tr)); cl != nil {
			closers[cl] = true
		}
	}
	n := 0
	for _, fn := range c.P.LibFns {
		if !clientSide(c, fn) {
			continue
		}
		res := fn.Signature.Results()
		if res.Len() == 0 || ir.TypeStr(res.At(res.Len()-1).Type()) != "error" {
			continue
		}
		pd := flow.NewPostDom(fn)
		ir.EachInstr(fn, func(_ *ssa.BasicBlock, _ int, in ssa.Instruction) {
			sel, ok := in.(*ssa.Select)
			if !ok || !sel.Blocking || sel.Referrers() == nil {
				return
			}
			var idx ssa.Value
			for _, r := range *sel.Referrers() {
				if ex, ok := r.(*ssa.Extract); ok && ex.Index == 0 {
					idx = ex
				}
			}
			if idx == nil {
				return
			}
			// failing exits after the select, by arm
			type exit struct {
				ret    *ssa.Return
				arm    string
				closes bool
			}
			var exits []exit
			var closeCalls []ssa.Instruction
			ir.EachInstr(fn, func(_ *ssa.BasicBlock, _ int, x ssa.Instruction) {
				ci, ok := x.(ssa.CallInstruction)
				if !ok {
					return
				}
				if _, isDefer := x.(*ssa.Defer); isDefer {
					return
				}
				for _, cal := range ir.Callees(c.G, ci) {
					if closers[cal] {
						closeCalls = append(closeCalls, x)
					}
				}
			})
			ir.EachInstr(fn, func(b *ssa.BasicBlock, _ int, x ssa.Instruction) {
				ret, ok := x.(*ssa.Return)
				if !ok || b == fn.Recover || !flow.Reaches(sel, ret) {
					return
				}
				rs := ir.Results(ret)
				if ir.IsNilConst(rs[len(rs)-1]) {
					return
				}
				arm := ""
				for _, g := range pd.ControlDepsTransitive(b) {
					bin, ok := g.If.Cond.(*ssa.BinOp)
					if !ok || bin.Op != token.EQL || bin.X != idx {
						continue
					}
					if k, ok := ir.ConstInt(bin.Y); ok {
						if g.Branch {
							arm = sprintf("arm %d", k)
						} else if arm == "" {
							arm = sprintf("after arm %d", k)
						}
					}
				}
				if arm == "" {
					return
				}
				cl := false
				for _, cc := range closeCalls {
					if flow.Dominates(cc, ret) && flow.Reaches(sel, cc) {
						cl = true
					}
				}
				exits = append(exits, exit{ret, arm, cl})
			})
			some := false
			for _, e := range exits {
				if e.closes {
					some = true
				}
			}
			if !some || len(exits) < 2 {
				return
			}
			for _, e := range exits {
				n++
				c.R.Check(e.closes, "R-arms-close-alike", sprintf("failing %s of the wait in %s", e.arm, fname(fn)), c.Pos(e.ret.Pos()), "closes the transport like its sibling arms",
					sprintf("%s gives up waiting in a select; other failing arms close the transport first, this one (%s, returning at %s) does not: the connection it opened stays open and is overwritten by the next attempt, so nothing — not even Close — ever releases it", fname(fn), e.arm, c.Pos(e.ret.Pos())))
			}
		})
	}
	if n == 0 {
		c.R.Hold("R-arms-close-alike", "selects with failing arms that close the transport", "", "none on the client side (the wait may sit in a helper whose verdict the caller acts on)")
	}
}
