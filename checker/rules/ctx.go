// Package rules holds one file per property; each turns the property's structural necessary
// conditions into obligations over the loaded program.
package rules

import (
	"fmt"
	"go/token"
	"go/types"
	"sort"

	"golang.org/x/tools/go/callgraph"
	"golang.org/x/tools/go/ssa"

	"verif/checker/ir"
	"verif/checker/lockset"
	"verif/checker/report"
)

// Ctx is what a rule works with.
type Ctx struct {
	P    *ir.Program
	R    *report.Report
	G    *callgraph.Graph
	Tier string

	ls           *lockset.Analysis
	initOnly     map[*ssa.Function]bool
	cliTypes     map[*types.Named]bool
	cliFns       map[*ssa.Function]bool
	srvFns       map[*ssa.Function]bool
	dispReach    map[*ssa.Function]bool
	dispatchRows map[*ssa.Function][]DispatchEntry
}

// Locks returns the (cached) lockset analysis.
func (c *Ctx) Locks() *lockset.Analysis {
	if c.ls == nil {
		c.ls = lockset.New(c.P, c.G)
	}
	return c.ls
}

// InitOnly returns the (cached) set of construction-time functions.
func (c *Ctx) InitOnly() map[*ssa.Function]bool {
	if c.initOnly == nil {
		c.initOnly = c.P.InitOnly(c.G)
	}
	return c.initOnly
}

// Pos renders a position.
func (c *Ctx) Pos(p token.Pos) string { return c.P.Pos(p) }

// Rule is the entry point of one property's check.
type Rule func(c *Ctx)

// Registry maps property ids to their checks.
var Registry = map[string]Rule{}

// Props lists the registered property ids, sorted.
func Props() []string {
	var out []string
	for k := range Registry {
		out = append(out, k)
	}
	sort.Strings(out)
	return out
}

// need resolves an anchor or marks the check broken.
func need[T comparable](c *Ctx, v T, what string) (T, bool) {
	var zero T
	if v == zero {
		c.R.Break("anchor not found: %s", what)
		return v, false
	}
	return v, true
}

func fname(fn *ssa.Function) string { return ir.FuncName(fn) }

func sprintf(f string, a ...interface{}) string { return fmt.Sprintf(f, a...) }
