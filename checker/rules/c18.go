package rules

import (
	"go/token"
	"go/types"
	"sort"
	"strings"

	"golang.org/x/tools/go/ssa"

	"verif/checker/flow"
	"verif/checker/ir"
)

// C18 — generated schemas describe what encoding/json really produces and accepts.
// Only necessary conditions are decidable statically; the relation "the schema accepts every
// encoding" is not.
//
//	R-terminates    every recursion cycle among the generator functions that take a reflect.Type has a
//	                guarded edge (seen-table lookup keyed by reflect.Type, or a decreasing depth with a
//	                <=0 exit); every pointer-unwrapping loop is bounded
//	R-kind-cases    each generator consults what encoding/json consults: embedded (Anonymous) fields,
//	                []byte, Marshaler/TextMarshaler, interface kind, the ",string" option
//	R-name-agree    struct-field walkers skip unexported fields and "-" and take the name from the json tag
//	R-ref-escape / R-ref-unique  names spliced into "#/$defs/" are pointer-escaped and injective
//	R-path-mirror   (nested style) "anyOf/0" is pushed on the path under exactly the condition that wraps
//	                the schema in anyOf; the recorded first-occurrence path is a private copy
//	R-bind          typed handlers bind the arguments by Marshal -> Unmarshal into a value created for
//	                this call; the client keeps the schema it received
//	R-fresh-schema      no schema is served from a package-level cache
//	R-cache-invalidated a list cached next to a registry is dropped by every registration (shared with C12)
//	R-fresh-buffer      (shared with C01) a loop decodes each entry into a raw-byte holder of its own
//	(R-bind also requires the arguments map to be marshalled untouched)
func init() { Registry["C18"] = checkC18 }

const schemaPkg = ir.RootPath + "/internal/schema"

func isReflectType(t types.Type) bool { return ir.TypeStr(t) == "reflect.Type" }

func takesReflectType(fn *ssa.Function) bool {
	for _, p := range fn.Params {
		if isReflectType(p.Type()) {
			return true
		}
	}
	return false
}

func checkC18(c *Ctx) {
	listingSessionFree(c, "R-session-independent")
	c.R.Explanation = "Static necessary-condition checks on the three schema generators and on argument binding: guarded recursion over reflect.Type (call-graph cycles vs. seen-table / depth guards), " +
		"coverage of the cases encoding/json distinguishes, field-name derivation, $ref name escaping/injectivity, path/anyOf mirroring and path copying in the nested generator, per-call binding targets."
	c.R.NotDecided = "that a generated schema accepts the JSON encoding of every value of the type (needs executing the generators and a validator); resolution of every $ref in generated documents"
	c.R.Assumptions = []string{"generator functions are those of internal/schema that take a reflect.Type"}
	sp := c.P.SSAPkg[schemaPkg]
	if sp == nil {
		c.R.Break("package internal/schema not loaded")
		return
	}
	var gens []*ssa.Function
	for _, fn := range c.P.LibFns {
		if fn.Pkg == sp || (fn.Parent() != nil && ir.Outer(fn).Pkg == sp) {
			if takesReflectType(fn) {
				gens = append(gens, fn)
			}
		}
	}
	if len(gens) < 10 {
		c.R.Break("found %d generator functions taking reflect.Type, expected >= 10", len(gens))
	}
	c18Terminates(c, gens)
	c18KindCases(c, gens)
	c18Names(c, gens)
	c18SchemaFromType(c, gens)
	c18SchemaWalkComplete(c)
	c18FieldKept(c, gens)
	c18Refs(c)
	c18PathMirror(c)
	c18Bind(c)
	c18FreshSchema(c)
	c18ServedAsRegistered(c)
	c18NoSchemaGate(c)
	c01FreshBuffer(c) // the raw schema bytes a client keeps from a listing are not overwritten by the next entry decoded
	// ... nor from a list cached next to the tool registry that a re-registration fails to drop (C12's rule)
	accs := CollectAccesses(c)
	c12DerivedCache(c, discoverRegistries(c, accs), accs)
}

// ---------------------------------------------------------------- R-terminates
func c18Terminates(c *Ctx, gens []*ssa.Function) {
	inGen := map[*ssa.Function]bool{}
	for _, g := range gens {
		inGen[g] = true
	}
	type edge struct {
		from, to *ssa.Function
		site     *ssa.Call
		guarded  bool
		why      string
	}
	var edges []edge
	out := map[*ssa.Function][]int{}
	for _, g := range gens {
		pd := flow.NewPostDom(g)
		hasDepthExit := depthExitParam(g)
		ir.EachInstr(g, func(_ *ssa.BasicBlock, _ int, in ssa.Instruction) {
			call, ok := in.(*ssa.Call)
			if !ok {
				return
			}
			to := ir.StaticCallee(call)
			if to == nil || !inGen[to] {
				return
			}
			e := edge{from: g, to: to, site: call}
			// (a) seen-table guard: control dependent on the not-found edge of a lookup in a map keyed by reflect.Type
			for _, gd := range pd.ControlDepsTransitive(call.Block()) {
				if ex, ok := gd.If.Cond.(*ssa.Extract); ok && ex.Index == 1 && !gd.Branch {
					if lk, ok := ex.Tuple.(*ssa.Lookup); ok {
						if m, ok := lk.X.Type().Underlying().(*types.Map); ok && isReflectType(m.Key()) {
							e.guarded, e.why = true, "seen-table"
						}
					}
				}
			}
			// (b) depth guard: passes depth-k (k>0) for a parameter the callee exits on when <= 0
			if !e.guarded {
				for i, a := range call.Call.Args {
					base, k := affine(a)
					if _, isParam := base.(*ssa.Parameter); isParam && k < 0 && i < len(to.Params) && depthExitParam(to) == i && hasDepthExit >= 0 {
						e.guarded, e.why = true, "depth"
					}
				}
			}
			out[g] = append(out[g], len(edges))
			edges = append(edges, e)
		})
	}
	// enumerate elementary cycles consisting only of unguarded edges (DFS on the unguarded subgraph)
	type cyc struct{ names []string }
	found := map[string]bool{}
	var order []*ssa.Function
	order = append(order, gens...)
	sort.Slice(order, func(i, j int) bool { return order[i].String() < order[j].String() })
	var stack []*ssa.Function
	onStack := map[*ssa.Function]bool{}
	var dfs func(start, cur *ssa.Function, depth int)
	dfs = func(start, cur *ssa.Function, depth int) {
		if depth > 6 {
			return
		}
		for _, ei := range out[cur] {
			e := edges[ei]
			if e.guarded {
				continue
			}
			if e.to == start {
				names := []string{}
				for _, f := range stack {
					names = append(names, fname(f))
				}
				// canonical rotation
				min := 0
				for i := range names {
					if names[i] < names[min] {
						min = i
					}
				}
				rot := append(append([]string{}, names[min:]...), names[:min]...)
				found[strings.Join(rot, " -> ")] = true
				continue
			}
			if onStack[e.to] || e.to.String() < start.String() {
				continue
			}
			onStack[e.to] = true
			stack = append(stack, e.to)
			dfs(start, e.to, depth+1)
			stack = stack[:len(stack)-1]
			delete(onStack, e.to)
		}
	}
	for _, s := range order {
		stack = []*ssa.Function{s}
		onStack = map[*ssa.Function]bool{s: true}
		dfs(s, s, 0)
	}
	var cycles []string
	for k := range found {
		cycles = append(cycles, k)
	}
	sort.Strings(cycles)
	nGuarded := 0
	for _, e := range edges {
		if e.guarded {
			nGuarded++
			c.R.Hold("R-terminates", "guarded recursion "+fname(e.from)+" -> "+fname(e.to), c.Pos(e.site.Pos()), e.why+" guard")
		}
	}
	// among the depth-limited converters (functions that return at depth <= 0) the depth IS the termination argument:
	// a cycle that consists of such functions only must contain a call that passes a smaller depth — whatever else the
	// style's findings say. (Cycles are the unguarded ones found above.)
	depthLimited := map[string]bool{}
	for _, g := range gens {
		if depthExitParam(g) >= 0 {
			depthLimited[fname(g)] = true
		}
	}
	for _, cy := range cycles {
		all := true
		for _, nme := range strings.Split(cy, " -> ") {
			if !depthLimited[nme] {
				all = false
			}
		}
		if !all {
			continue
		}
		c.R.Violate("R-terminates", "depth-limited recursion cycle "+cy+" reduces the depth", c.Pos(gens[0].Pos()),
			sprintf("the functions %s call each other, bounded only by their depth parameter, and no call on that cycle passes a smaller depth: types that refer to each other through plain or pointer struct members (Person{*Company}, Company{*Person}) recurse until the stack overflows", cy))
	}
	// findings are reported per reference style (one per root cause and style), listing the cycles found
	roots, styleLabel := c18Styles(c, gens)
	for _, r := range roots {
		reach := c.ReachSync(r)
		var mine []string
		for _, cy := range cycles {
			for f := range reach {
				if strings.Contains(cy, fname(f)) {
					mine = append(mine, cy)
					break
				}
			}
		}
		construct := "generator of reference style " + styleLabel[r] + ": type recursion is guarded"
		if len(mine) == 0 {
			c.R.Hold("R-terminates", construct, c.Pos(r.Pos()), "every recursive call is behind a seen-table or depth guard")
			continue
		}
		c.R.Violate("R-terminates", construct, c.Pos(r.Pos()), sprintf("recursion over reflect.Type without any seen-table or depth guard in the generator of reference style %s (rooted at %s): %s — a self-referential slice/map/pointer type never terminates", styleLabel[r], fname(r), strings.Join(mine, "; ")))
	}
	c.R.Extra["recursive_edges"] = len(edges)
	c.R.Extra["guarded_edges"] = nGuarded
	// pointer-unwrapping loops: phi over reflect.Type updated by .Elem() whose only exit tests Kind() != Ptr
	unbounded := map[*ssa.Function]bool{}
	for _, g := range gens {
		ir.EachInstr(g, func(_ *ssa.BasicBlock, _ int, in ssa.Instruction) {
			phi, ok := in.(*ssa.Phi)
			if !ok || !isReflectType(phi.Type()) {
				return
			}
			selfUpdate := false
			for _, e := range phi.Edges {
				if call, ok := e.(*ssa.Call); ok && call.Call.IsInvoke() && call.Call.Method.Name() == "Elem" && call.Call.Value == phi {
					selfUpdate = true
				}
			}
			if !selfUpdate {
				return
			}
			// bounded if the loop also counts
			bounded := false
			for _, other := range phi.Block().Instrs {
				if p2, ok := other.(*ssa.Phi); ok && p2 != phi {
					if b, ok := p2.Type().Underlying().(*types.Basic); ok && b.Info()&types.IsInteger != 0 {
						bounded = true
					}
				}
			}
			if !bounded {
				unbounded[g] = true
			}
		})
	}
	for _, r := range roots {
		var fns []string
		for f := range c.ReachSync(r) {
			if unbounded[f] {
				fns = append(fns, fname(f))
			}
		}
		sort.Strings(fns)
		construct := "generator of reference style " + styleLabel[r] + ": pointer unwrapping is bounded"
		c.R.Check(len(fns) == 0, "R-terminates", construct, c.Pos(r.Pos()), "no unbounded `for t.Kind() == reflect.Ptr` loop",
			sprintf("the generator of reference style %s unwraps pointers with `for t.Kind() == reflect.Ptr { t = t.Elem() }` without a bound (in %s): a self-referential pointer type (type P *P) never terminates", styleLabel[r], strings.Join(fns, ", ")))
	}
	c.R.Min("R-terminates", 6)
}

// depthExitParam returns the index of an int parameter p for which fn has an early exit on p <= 0, or -1.
func depthExitParam(fn *ssa.Function) int {
	res := -1
	for _, b := range fn.Blocks {
		if len(b.Instrs) == 0 {
			continue
		}
		ifi, ok := b.Instrs[len(b.Instrs)-1].(*ssa.If)
		if !ok {
			continue
		}
		bin, ok := ifi.Cond.(*ssa.BinOp)
		if !ok {
			continue
		}
		p, ok := bin.X.(*ssa.Parameter)
		if !ok {
			continue
		}
		if (bin.Op == token.LEQ && isZero(bin.Y)) || (bin.Op == token.LSS && isOne(bin.Y)) {
			for i, q := range fn.Params {
				if q == p {
					res = i
				}
			}
		}
	}
	return res
}

// ---------------------------------------------------------------- R-kind-cases
func c18KindCases(c *Ctx, gens []*ssa.Function) {
	// generator families: entry points are the functions the exported generic front-end dispatches to;
	// identify a family by each function that switches on Kind() with a Struct case (kind dispatchers).
	var dispatchers []*ssa.Function
	for _, g := range gens {
		kinds := map[int64]bool{}
		ir.EachInstr(g, func(_ *ssa.BasicBlock, _ int, in ssa.Instruction) {
			bin, ok := in.(*ssa.BinOp)
			if !ok || bin.Op != token.EQL {
				return
			}
			if call, ok := bin.X.(*ssa.Call); ok && call.Call.IsInvoke() && call.Call.Method.Name() == "Kind" {
				if k, ok := ir.ConstInt(bin.Y); ok {
					kinds[k] = true
				}
			}
		})
		if len(kinds) >= 4 {
			dispatchers = append(dispatchers, g)
		}
	}
	_ = dispatchers
	// one generator per style
	var styleLabel map[*ssa.Function]string
	dispatchers, styleLabel = c18Styles(c, gens)
	if len(dispatchers) != 3 {
		c.R.Break("found %d generation-style entry points behind the exported front-end, expected 3", len(dispatchers))
	}
	const (
		kindInterface = 20 // reflect.Interface
		kindUint8     = 8
	)
	for _, d := range dispatchers {
		reach := c.ReachSync(d)
		feat := map[string]bool{}
		for f := range reach {
			if f.Pkg == nil || f.Pkg.Pkg.Path() != schemaPkg {
				continue
			}
			ir.EachInstr(f, func(_ *ssa.BasicBlock, _ int, in ssa.Instruction) {
				switch x := in.(type) {
				case *ssa.Field:
					if fr, _, ok := ir.FieldOf(x); ok && fr.Name == "Anonymous" {
						feat["embedded"] = true
					}
				case *ssa.FieldAddr:
					if fr, _, ok := ir.FieldOf(x); ok && fr.Name == "Anonymous" {
						feat["embedded"] = true
					}
				case *ssa.BinOp:
					if x.Op == token.EQL {
						if call, ok := x.X.(*ssa.Call); ok && call.Call.IsInvoke() && call.Call.Method.Name() == "Kind" {
							if k, ok := ir.ConstInt(x.Y); ok {
								if k == kindInterface {
									feat["interface"] = true
								}
								if k == kindUint8 {
									// Elem().Kind() == Uint8: byte slices
									if rc, ok := call.Call.Value.(*ssa.Call); ok && rc.Call.IsInvoke() && rc.Call.Method.Name() == "Elem" {
										feat["bytes"] = true
										c18BytesOnlySlices(c, f, x)
									}
								}
							}
						}
					}
				case *ssa.Call:
					if x.Call.IsInvoke() && (x.Call.Method.Name() == "Implements" || x.Call.Method.Name() == "AssignableTo") {
						feat["marshaler"] = true
					}
					n := ir.CallName(x)
					if n == "strings.Contains" || n == "strings.HasSuffix" || n == "strings.Split" {
						for _, a := range x.Call.Args {
							if s, ok := ir.ConstStr(a); ok && (s == "string" || s == ",string") {
								feat["string-option"] = true
							}
						}
					}
				}
			})
		}
		// opt == "string" comparison
		for f := range reach {
			ir.EachInstr(f, func(_ *ssa.BasicBlock, _ int, in ssa.Instruction) {
				if bin, ok := in.(*ssa.BinOp); ok && bin.Op == token.EQL {
					if s, ok := ir.ConstStr(bin.Y); ok && s == "string" {
						feat["string-option"] = true
					}
				}
			})
		}
		// a style that falls back to the EMPTY schema (accepts any value) for kinds it does not know handles
		// interface-typed fields correctly without an explicit case
		for f := range reach {
			if f.Pkg == nil || f.Pkg.Pkg.Path() != schemaPkg {
				continue
			}
			ir.EachInstr(f, func(_ *ssa.BasicBlock, _ int, in ssa.Instruction) {
				al, ok := in.(*ssa.Alloc)
				if !ok || !al.Heap || !strings.HasSuffix(ir.TypeStr(al.Type()), "openapi3.Schema") {
					return
				}
				stores := 0
				for _, r := range *al.Referrers() {
					if _, isFA := r.(*ssa.FieldAddr); isFA {
						stores++
					}
				}
				if stores == 0 && takesReflectType(f) {
					feat["interface"] = true
				}
			})
		}
		for _, ft := range []struct{ key, what string }{
			{"embedded", "embedded (Anonymous) struct fields, which encoding/json flattens into the parent object"},
			{"bytes", "[]byte, which encoding/json encodes as a base64 string"},
			{"marshaler", "types implementing json.Marshaler / encoding.TextMarshaler (e.g. time.Time is encoded as a string)"},
			{"interface", "interface-typed fields (any JSON value)"},
			{"string-option", "the \",string\" tag option (numbers/bools encoded as strings)"},
		} {
			c.R.Check(feat[ft.key], "R-kind-cases", "generator of reference style "+styleLabel[d]+": "+ft.key, c.Pos(d.Pos()), "case present",
				sprintf("the generator of reference style %s (rooted at %s) never considers %s: the schema does not describe what encoding/json produces for such fields", styleLabel[d], fname(d), ft.what))
		}
	}
	c.R.Min("R-kind-cases", 15)
}

// ---------------------------------------------------------------- R-name-agree
func c18Names(c *Ctx, gens []*ssa.Function) {
	n := 0
	for _, g := range gens {
		walks := false
		ir.EachCall(g, func(call ssa.CallInstruction) {
			if call.Common().IsInvoke() && call.Common().Method.Name() == "NumField" {
				walks = true
			}
		})
		if !walks {
			continue
		}
		n++
		exported, dash, tag := false, false, false
		dashOnWholeTag, dashPos := true, g.Pos()
		scope := []*ssa.Function{g}
		ir.EachCall(g, func(call ssa.CallInstruction) {
			if sc := ir.StaticCallee(call); sc != nil && c.P.IsLib(sc) && sc.Pkg == g.Pkg {
				for _, p := range sc.Params {
					if ir.TypeStr(p.Type()) == "reflect.StructField" {
						scope = append(scope, sc)
					}
				}
			}
		})
		for _, f := range scope {
			ir.EachInstr(f, func(_ *ssa.BasicBlock, _ int, in ssa.Instruction) {
				switch x := in.(type) {
				case *ssa.Call:
					nm := ir.CallName(x)
					if nm == "(reflect.StructField).IsExported" {
						exported = true
					}
					if nm == "(reflect.StructTag).Get" {
						if s, ok := ir.ConstStr(x.Call.Args[len(x.Call.Args)-1]); ok && s == "json" {
							tag = true
						}
					}
				case *ssa.BinOp:
					if s, ok := ir.ConstStr(x.Y); ok && s == "-" && (x.Op == token.EQL || x.Op == token.NEQ) {
						dash = true
						// `json:"-"` drops the field, `json:"-,"` names it "-": only the whole tag tells them apart
						if oc, ok := unspill(x.X).(*ssa.Call); !ok || ir.CallName(oc) != "(reflect.StructTag).Get" {
							dashOnWholeTag, dashPos = false, x.Pos()
						}
					}
				}
			})
		}
		c.R.Check(exported && dash && tag, "R-name-agree", "field walker "+fname(g), c.Pos(g.Pos()), "skips unexported and \"-\" fields, names from the json tag",
			sprintf("%s walks struct fields without %s: property names differ from the member names encoding/json uses",
				fname(g), strings.Join(missing(map[string]bool{"an IsExported test": exported, "a \"-\" test": dash, "reading the json tag": tag}), ", ")))
		if dash {
			c.R.Check(dashOnWholeTag, "R-name-agree", "field walker "+fname(g)+": \"-\" means the whole tag", c.Pos(dashPos), "the skip test compares the tag itself with \"-\"",
				sprintf("%s skips a field when the NAME PART of its json tag is \"-\": encoding/json drops a field only for the tag `json:\"-\"`; a field tagged `json:\"-,\"` is emitted as a member named \"-\", which the schema then does not name (and rejects, where additional properties are not allowed)", fname(g)))
		}
	}
	c.R.Min("R-name-agree", 4)
}

func missing(m map[string]bool) []string {
	var out []string
	for k, v := range m {
		if !v {
			out = append(out, k)
		}
	}
	sort.Strings(out)
	return out
}

// ---------------------------------------------------------------- R-ref-escape / R-ref-unique
func c18Refs(c *Ctx) {
	namers := map[*ssa.Function]bool{}
	n := 0
	// where does the name spliced behind "#/$defs/" come from? — through calls, helper parameters and returns
	var trace func(fn *ssa.Function, v ssa.Value, d int)
	seenV := map[ssa.Value]bool{}
	trace = func(fn *ssa.Function, v ssa.Value, d int) {
		if d > 4 || v == nil || seenV[v] {
			return
		}
		seenV[v] = true
		switch x := v.(type) {
		case *ssa.Call:
			if sc := ir.StaticCallee(x); sc != nil && c.P.IsLib(sc) {
				namers[sc] = true
				ir.EachInstr(sc, func(b *ssa.BasicBlock, _ int, in ssa.Instruction) {
					if r, ok := in.(*ssa.Return); ok && b != sc.Recover {
						for _, rv := range ir.Results(r) {
							if ir.TypeStr(rv.Type()) == "string" {
								trace(sc, rv, d+1)
							}
						}
					}
				})
			}
		case *ssa.Phi:
			for _, e := range x.Edges {
				trace(fn, e, d)
			}
		case *ssa.Parameter:
			idx := -1
			for i, p := range fn.Params {
				if p == x {
					idx = i
				}
			}
			for _, e := range ir.Callers(c.G, fn) {
				if e.Site == nil || !c.P.IsLib(e.Caller.Func) {
					continue
				}
				args := e.Site.Common().Args
				if idx >= 0 && idx < len(args) {
					trace(e.Caller.Func, args[idx], d+1)
				}
			}
		}
	}
	var concatFns []*ssa.Function
	for _, fn := range c.P.LibFns {
		ir.EachInstr(fn, func(_ *ssa.BasicBlock, _ int, in ssa.Instruction) {
			bin, ok := in.(*ssa.BinOp)
			if !ok || bin.Op != token.ADD {
				return
			}
			s, ok := ir.ConstStr(bin.X)
			if !ok || !strings.HasPrefix(s, "#/$defs/") {
				return
			}
			n++
			concatFns = append(concatFns, fn)
			trace(fn, bin.Y, 0)
		})
	}
	// the naming function(s) by shape: a library function with one reflect.Type parameter and a string result that
	// asks the type for its Name()
	for _, fn := range c.P.LibFns {
		nT := 0
		for _, p := range fn.Params {
			if isReflectType(p.Type()) {
				nT++
			}
		}
		if nT == 1 && fn.Signature.Results().Len() == 1 && ir.TypeStr(fn.Signature.Results().At(0).Type()) == "string" {
			usesName := false
			ir.EachCall(fn, func(call ssa.CallInstruction) {
				if call.Common().IsInvoke() && call.Common().Method.Name() == "Name" {
					usesName = true
				}
			})
			if usesName {
				namers[fn] = true
			}
		}
	}
	// ... and what they call synchronously inside the library (a namer split into named()/anonymous())
	for _, fn := range sortedFuncs(namers) {
		for f := range c.ReachSync(fn) {
			if c.P.IsLib(f) && ir.PkgPathOf(f) == ir.PkgPathOf(fn) && f.Signature.Results().Len() == 1 && ir.TypeStr(f.Signature.Results().At(0).Type()) == "string" {
				namers[f] = true
			}
		}
	}
	if len(namers) == 0 || n == 0 {
		c.R.Break("$defs reference construction / type naming function not found (refs=%d namers=%d)", n, len(namers))
		return
	}
	// the two requirements are stated for the naming code as a whole (however it is split into functions)
	escapes, wholePath, splits := false, false, false
	var where *ssa.Function
	for _, fn := range append(sortedFuncs(namers), concatFns...) {
		ir.EachCall(fn, func(call ssa.CallInstruction) {
			nm := ir.CallName(call)
			if nm == "strings.ReplaceAll" || nm == "(*strings.Replacer).Replace" || nm == "net/url.PathEscape" {
				escapes = true
			}
			if nm == "strings.Split" {
				splits = true
			}
			if call.Common().IsInvoke() && call.Common().Method.Name() == "PkgPath" {
				wholePath = true
				if where == nil {
					where = fn
				}
			}
		})
	}
	if where == nil {
		where = sortedFuncs(namers)[0]
	}
	c.R.Check(escapes, "R-ref-escape", "type names spliced into $defs references", c.Pos(where.Pos()), "names pass a JSON-pointer escaper",
		sprintf("reflect type names are spliced into \"#/$defs/<name>\" without JSON-pointer escaping (naming code: %s): names of generic instantiations contain '/' and '~', the $ref then does not resolve", fnames(sortedFuncs(namers))))
	c.R.Check(wholePath && !splits, "R-ref-unique", "type names spliced into $defs references", c.Pos(where.Pos()), "names include the whole package path",
		sprintf("a type is named by the LAST element of its package path plus its name (naming code: %s): two types a/x.T and b/x.T share one $defs entry", fnames(sortedFuncs(namers))))
	// every name a naming function returns is computed from the type it names (its name and path, its address, its
	// string form): a name taken from anything else — the declaring field, a counter — is shared by different types
	for _, fn := range sortedFuncs(namers) {
		var tp *ssa.Parameter
		for _, p := range fn.Params {
			if isReflectType(p.Type()) {
				tp = p
			}
		}
		if tp == nil || fn.Signature.Results().Len() != 1 || ir.TypeStr(fn.Signature.Results().At(0).Type()) != "string" {
			continue
		}
		nRet := 0
		ir.EachInstr(fn, func(b *ssa.BasicBlock, _ int, in ssa.Instruction) {
			r, ok := in.(*ssa.Return)
			if !ok || b == fn.Recover || len(ir.Results(r)) != 1 {
				return
			}
			nRet++
			c.R.Check(derivesFromValue(ir.Results(r)[0], tp, 0), "R-ref-unique", sprintf("name returned by %s #%d is computed from the type", fname(fn), nRet), c.Pos(r.Pos()),
				"the returned name is built from the named type",
				sprintf("%s returns a $defs name that is not computed from the type it names: two different types (e.g. two anonymous structs declared under equally named fields) get one $defs entry and every $ref to the first resolves to the second", fname(fn)))
		})
	}
	c.R.Min("R-ref-escape", 1)
	c.R.Min("R-ref-unique", 3)
}

// derivesFromValue: v is computed from src on every path (through concatenation, formatting, method calls on src,
// conversions; a phi needs every edge to derive).
func derivesFromValue(v, src ssa.Value, d int) bool {
	if v == src {
		return true
	}
	if d > 8 || v == nil {
		return false
	}
	switch x := v.(type) {
	case *ssa.BinOp:
		return derivesFromValue(x.X, src, d+1) || derivesFromValue(x.Y, src, d+1)
	case *ssa.Phi:
		for _, e := range x.Edges {
			if !derivesFromValue(e, src, d+1) {
				return false
			}
		}
		return len(x.Edges) > 0
	case *ssa.MakeInterface:
		return derivesFromValue(x.X, src, d+1)
	case *ssa.ChangeInterface:
		return derivesFromValue(x.X, src, d+1)
	case *ssa.ChangeType:
		return derivesFromValue(x.X, src, d+1)
	case *ssa.Convert:
		return derivesFromValue(x.X, src, d+1)
	case *ssa.Extract:
		return derivesFromValue(x.Tuple, src, d+1)
	case *ssa.UnOp:
		if ia, ok := x.X.(*ssa.IndexAddr); ok {
			return derivesFromValue(ia.X, src, d+1)
		}
		return derivesFromValue(x.X, src, d+1)
	case *ssa.Slice:
		if els := variadicElems(x); len(els) > 0 {
			for _, e := range els {
				if e != nil && derivesFromValue(e, src, d+1) {
					return true
				}
			}
			return false
		}
		return derivesFromValue(x.X, src, d+1)
	case *ssa.Call:
		if x.Call.IsInvoke() && derivesFromValue(x.Call.Value, src, d+1) {
			return true
		}
		for _, a := range x.Call.Args {
			if derivesFromValue(a, src, d+1) {
				return true
			}
		}
	}
	return false
}

// ---------------------------------------------------------------- R-path-mirror
func c18PathMirror(c *Ctx) {
	// the nested generator: a struct type with a []string path field and a seen map keyed by reflect.Type
	var pathField string
	var walker *ssa.Function
	for _, fn := range c.P.LibFns {
		if fn.Pkg == nil || fn.Pkg.Pkg.Path() != schemaPkg {
			continue
		}
		ir.EachInstr(fn, func(_ *ssa.BasicBlock, _ int, in ssa.Instruction) {
			// append(path, "properties", name, "anyOf", "0")
			st, ok := in.(*ssa.Store)
			if !ok {
				return
			}
			if s, ok := ir.ConstStr(st.Val); ok && s == "anyOf" {
				walker = fn
			}
		})
	}
	if walker == nil {
		c.R.Break("nested generator (function pushing \"anyOf\" onto a path) not found")
		return
	}
	pd := flow.NewPostDom(walker)
	condKey := func(b *ssa.BasicBlock) string {
		var parts []string
		for _, g := range pd.ControlDepsTransitive(b) {
			if flow.InCycle(g.If.Block()) && !g.If.Block().Dominates(b) {
				continue
			}
			v := g.If.Cond
			// loop test of the field walk is not part of the condition
			if bin, ok := v.(*ssa.BinOp); ok && (bin.Op == token.LSS || bin.Op == token.LEQ) {
				continue
			}
			parts = append(parts, sprintf("%s=%v", valueKey(v), g.Branch))
		}
		sort.Strings(parts)
		return strings.Join(uniq(parts), " & ")
	}
	var pushBlock, wrapBlock *ssa.BasicBlock
	ir.EachInstr(walker, func(b *ssa.BasicBlock, _ int, in ssa.Instruction) {
		st, ok := in.(*ssa.Store)
		if !ok {
			return
		}
		if s, ok := ir.ConstStr(st.Val); ok && s == "anyOf" {
			pushBlock = b
		}
		if f, _, ok := ir.FieldOf(st.Addr); ok && f.Name == "AnyOf" {
			wrapBlock = b
		}
		if f, _, ok := ir.FieldOf(st.Addr); ok && f.Struct != nil && f.Struct.Obj().Pkg().Path() == schemaPkg {
			if _, isSl := f.Type.Underlying().(*types.Slice); isSl && strings.Contains(strings.ToLower(f.Name), "path") {
				pathField = f.Key()
			}
		}
	})
	if wrapBlock == nil {
		// the wrapping may be done by a helper: the call of a library function that fills an AnyOf member
		ir.EachInstr(walker, func(b *ssa.BasicBlock, _ int, in ssa.Instruction) {
			call, ok := in.(*ssa.Call)
			if !ok {
				return
			}
			sc := ir.StaticCallee(call)
			if sc == nil || !c.P.IsLib(sc) {
				return
			}
			ir.EachInstr(sc, func(_ *ssa.BasicBlock, _ int, in2 ssa.Instruction) {
				if st, ok := in2.(*ssa.Store); ok {
					if f, _, ok := ir.FieldOf(st.Addr); ok && f.Name == "AnyOf" {
						wrapBlock = b
					}
				}
			})
		})
	}
	if pushBlock == nil || wrapBlock == nil {
		c.R.Break("anyOf push/wrap sites not found in %s", fname(walker))
		return
	}
	k1, k2 := condKey(pushBlock), condKey(wrapBlock)
	c.R.Check(k1 == k2 && k1 != "", "R-path-mirror", "anyOf push vs wrap in "+fname(walker), ipos(c, pushBlock.Instrs[0]),
		"pushed and wrapped under the same condition: "+k1,
		sprintf("%s pushes \"anyOf/0\" onto the reference path under [%s] but wraps the schema in anyOf under [%s]: recorded $ref paths do not point at the schema", fname(walker), k1, k2))
	// the recorded first path is a private copy
	n := 0
	for _, fn := range c.P.LibFns {
		if fn.Pkg == nil || fn.Pkg.Pkg.Path() != schemaPkg {
			continue
		}
		ir.EachInstr(fn, func(_ *ssa.BasicBlock, _ int, in ssa.Instruction) {
			st, ok := in.(*ssa.Store)
			if !ok {
				return
			}
			f, base, ok := ir.FieldOf(st.Addr)
			if !ok || f.Struct == nil || !ir.BaseAlloc(base) {
				return
			}
			sl, isSl := f.Type.Underlying().(*types.Slice)
			if !isSl || ir.TypeStr(sl.Elem()) != "string" || f.Struct.Obj().Pkg().Path() != schemaPkg {
				return
			}
			// a record being filled with a path
			if lf, _, isLoad := ir.LoadedField(st.Val); isLoad {
				n++
				c.R.Violate("R-path-mirror", "recorded path aliases "+lf.Key()+" in "+fname(fn), c.Pos(st.Pos()),
					sprintf("%s records a reference path by storing the generator's working slice %s itself: later appends overwrite the recorded path (shared backing array), $refs then point at the wrong schema", fname(fn), lf.Key()))
				return
			}
			if call, ok := st.Val.(*ssa.Call); ok {
				if b, ok := call.Call.Value.(*ssa.Builtin); ok && b.Name() == "append" {
					n++
					fresh := sliceMadeHere(call.Call.Args[0], 0)
					c.R.Check(fresh, "R-path-mirror", "recorded path copy in "+fname(fn), c.Pos(st.Pos()), "copied onto a fresh slice",
						sprintf("%s records a reference path without copying it onto a fresh slice", fname(fn)))
				}
			}
		})
	}
	_ = pathField
	c.R.Min("R-path-mirror", 2)
}

func uniq(s []string) []string {
	var out []string
	for i, x := range s {
		if i == 0 || x != s[i-1] {
			out = append(out, x)
		}
	}
	return out
}

// valueKey names a boolean condition structurally (so that two evaluations of `a && b` compare equal).
func valueKey(v ssa.Value) string { return valueKeyD(v, 0) }

func valueKeyD(v ssa.Value, d int) string {
	if d > 8 {
		return v.Name()
	}
	valueKey := func(w ssa.Value) string { return valueKeyD(w, d+1) }
	switch x := v.(type) {
	case *ssa.BinOp:
		return "(" + valueKey(x.X) + x.Op.String() + valueKey(x.Y) + ")"
	case *ssa.Call:
		if x.Call.IsInvoke() {
			return valueKey(x.Call.Value) + "." + x.Call.Method.Name() + "()"
		}
		return ir.CallName(x)
	case *ssa.Const:
		return x.String()
	case *ssa.Phi:
		var parts []string
		for _, e := range x.Edges {
			parts = append(parts, valueKey(e))
		}
		sort.Strings(parts)
		return "phi[" + strings.Join(uniq(parts), ",") + "]"
	case *ssa.Field:
		f, b, _ := ir.FieldOf(x)
		return valueKey(b) + "." + f.Name
	case *ssa.UnOp:
		return x.Op.String() + valueKey(x.X)
	case *ssa.Extract:
		return valueKey(x.Tuple) + "#" + sprintf("%d", x.Index)
	case *ssa.Parameter:
		return x.Name()
	}
	return v.Name()
}

// ---------------------------------------------------------------- R-bind / R-raw-schema
func c18Bind(c *Ctx) {
	// the binder: library function (map, any) error doing Marshal(param0) -> Unmarshal(_, param1)
	var binder *ssa.Function
	for _, fn := range c.P.LibFns {
		if len(fn.Params) != 2 || fn.Signature.Recv() != nil {
			continue
		}
		if _, isMap := fn.Params[0].Type().Underlying().(*types.Map); !isMap {
			continue
		}
		var m, u, dec, viaHelper *ssa.Call
		var opts []*ssa.Call
		ir.EachInstr(fn, func(_ *ssa.BasicBlock, _ int, in ssa.Instruction) {
			if call, ok := in.(*ssa.Call); ok {
				switch ir.CallName(call) {
				case "encoding/json.Marshal":
					if _, isMap := ir.Unwrap(call.Call.Args[0]).Type().Underlying().(*types.Map); isMap {
						m = call
					}
				case "encoding/json.Unmarshal":
					u = call
				case "(*encoding/json.Decoder).Decode":
					dec = call
				case "(*encoding/json.Decoder).UseNumber", "(*encoding/json.Decoder).DisallowUnknownFields":
					opts = append(opts, call)
				default:
					// the decoding half in a helper handed the bytes and the target (decodeArguments(data, target))
					if sc := ir.StaticCallee(call); sc != nil && c.P.IsLib(sc) && len(call.Call.Args) == 2 && ir.Unwrap(call.Call.Args[1]) == ssa.Value(fn.Params[1]) {
						ir.EachInstr(sc, func(_ *ssa.BasicBlock, _ int, hin ssa.Instruction) {
							hc, ok := hin.(*ssa.Call)
							if !ok {
								return
							}
							switch ir.CallName(hc) {
							case "encoding/json.Unmarshal":
								if ir.Unwrap(hc.Call.Args[1]) == ssa.Value(sc.Params[1]) {
									viaHelper = call
								}
							case "(*encoding/json.Decoder).Decode":
								if ir.Unwrap(hc.Call.Args[len(hc.Call.Args)-1]) == ssa.Value(sc.Params[1]) {
									viaHelper = call
								}
							case "(*encoding/json.Decoder).UseNumber", "(*encoding/json.Decoder).DisallowUnknownFields":
								opts = append(opts, hc)
							}
						})
					}
				}
			}
		})
		if m != nil && u == nil && dec == nil && viaHelper != nil {
			binder = fn
			oc := originCall(viaHelper.Call.Args[0])
			c.R.Check(oc == m && len(opts) == 0, "R-bind", "binder "+fname(fn), c.Pos(viaHelper.Pos()),
				"arguments are bound by Marshal(arguments) -> decode with encoding/json's default rules into the target",
				sprintf("%s does not bind by a plain JSON round trip of the very arguments map into its target (decoder options: %d)", fname(fn), len(opts)))
			c.R.Check(ir.Unwrap(m.Call.Args[0]) == ssa.Value(fn.Params[0]), "R-bind", "binder "+fname(fn)+": arguments verbatim", c.Pos(m.Pos()),
				"the map that is marshalled is the arguments map the caller sent, untouched",
				sprintf("%s rewrites the arguments before binding them", fname(fn)))
			continue
		}
		if m != nil && u == nil && dec != nil && ir.Unwrap(dec.Call.Args[len(dec.Call.Args)-1]) == ssa.Value(fn.Params[1]) {
			// a binder that decodes through a json.Decoder: equivalent to Unmarshal only with the decoder's defaults
			binder = fn
			what := "a json.Decoder"
			for _, o := range opts {
				what += " with " + strings.TrimPrefix(ir.CallName(o), "(*encoding/json.Decoder).")
			}
			c.R.Check(len(opts) == 0, "R-bind", "binder "+fname(fn)+": decoder defaults", c.Pos(dec.Pos()),
				"the target is decoded with encoding/json's default rules (as json.Unmarshal does)",
				sprintf("%s binds the arguments through %s: numbers bound to interface-typed members arrive as json.Number instead of float64 (or unknown members are refused), so the typed handler does not receive the value whose JSON encoding the caller sent", fname(fn), what))
			continue
		}
		if m != nil && u != nil {
			binder = fn
			oc := originCall(u.Call.Args[0])
			c.R.Check(oc == m && ir.Unwrap(u.Call.Args[1]) == ssa.Value(fn.Params[1]), "R-bind", "binder "+fname(fn), c.Pos(u.Pos()),
				"arguments are bound by Marshal(arguments) -> Unmarshal(into target)",
				sprintf("%s does not bind by a JSON round trip of the very arguments map into its target", fname(fn)))
			verbatim := ir.Unwrap(m.Call.Args[0]) == ssa.Value(fn.Params[0])
			c.R.Check(verbatim, "R-bind", "binder "+fname(fn)+": arguments verbatim", c.Pos(m.Pos()),
				"the map that is marshalled is the arguments map the caller sent, untouched",
				sprintf("%s rewrites the arguments before binding them (it marshals %s, not its arguments parameter): what the handler receives is no longer what the caller sent — e.g. a string that happens to spell JSON arrives as an object, or fails to bind", fname(fn), valueKey(ir.Unwrap(m.Call.Args[0]))))
		}
	}
	if binder == nil && c18BindSplit(c) {
		c18RawSchemaKept(c)
		c.R.Min("R-bind", 2)
		c.R.Min("R-raw-schema", 2)
		return
	}
	if binder == nil {
		c.R.Break("argument binder (Marshal of the arguments map followed by Unmarshal into the target) not found")
		return
	}
	n := 0
	for _, e := range ir.Callers(c.G, binder) {
		if e.Site == nil || !c.P.IsLib(e.Caller.Func) {
			continue
		}
		caller := e.Caller.Func
		if caller.Origin() != nil && caller.Origin() != caller {
			// instantiations: check the generic origin's shape once via each instance; fine
		}
		n++
		tgt := ir.Unwrap(e.Site.Common().Args[1])
		_, fresh := tgt.(*ssa.Alloc)
		construct := "bind target in " + ir.FuncCanon(caller)
		c.R.Check(fresh, "R-bind", construct, c.Pos(e.Site.Pos()), "the binding target is created for this call",
			sprintf("%s binds the arguments into a variable that is not created for this call (captured from the constructor): json.Unmarshal merges into the previous call's value, and concurrent calls share it", fname(caller)))
	}
	if n == 0 {
		c.R.Break("the argument binder has no caller")
	}
	c18RawSchemaKept(c)
	c.R.Min("R-bind", 2)
	c.R.Min("R-raw-schema", 2)
}

// c18RawSchemaKept (R-raw-schema): the client keeps the schema it received.
func c18RawSchemaKept(c *Ctx) {
	toolT := c.P.RootNamed("Tool")
	kept := 0
	for _, fn := range c.P.LibFns {
		ir.EachInstr(fn, func(_ *ssa.BasicBlock, _ int, in ssa.Instruction) {
			st, ok := in.(*ssa.Store)
			if !ok {
				return
			}
			f, _, ok := ir.FieldOf(st.Addr)
			if !ok || f.Struct != toolT || (f.Name != "RawInputSchema" && f.Name != "RawOutputSchema") {
				return
			}
			kept++
			src, _, okSrc := ir.LoadedField(st.Val)
			c.R.Check(okSrc && src.Name == f.Name, "R-raw-schema", "Tool."+f.Name+" in "+fname(fn), c.Pos(st.Pos()), "the received schema JSON is kept as received",
				sprintf("%s fills Tool.%s from something other than the schema JSON received from the server", fname(fn), f.Name))
		})
	}
}

// c18BindSplit: the binder with either half in a helper of its own — a function with a parameter that is the
// arguments map, in which bytes that originate (directly, or through a library helper that marshals the map it is
// handed) from json.Marshal of that very parameter are decoded (directly, or by a library helper that unmarshals the
// bytes it is handed) with encoding/json's default rules into a target created for the call.
func c18BindSplit(c *Ctx) bool {
	isArgsMap := func(t types.Type) bool {
		m, ok := t.Underlying().(*types.Map)
		if !ok {
			return false
		}
		_, isIface := m.Elem().Underlying().(*types.Interface)
		return isIface && ir.TypeStr(m.Key()) == "string"
	}
	var marshalOf func(fn *ssa.Function, v ssa.Value, mp ssa.Value, d int) (found, verbatim bool)
	marshalOf = func(fn *ssa.Function, v ssa.Value, mp ssa.Value, d int) (bool, bool) {
		oc := originCall(unspill(v))
		if oc == nil || d > 2 {
			return false, false
		}
		if ir.CallName(oc) == "encoding/json.Marshal" {
			a := ir.Unwrap(oc.Call.Args[0])
			return isArgsMap(a.Type()), a == mp
		}
		sc := ir.StaticCallee(oc)
		if sc == nil || !c.P.IsLib(sc) || sc.Blocks == nil {
			return false, false
		}
		var inner ssa.Value
		for i, a := range oc.Call.Args {
			if ir.Unwrap(a) == mp && i < len(sc.Params) {
				inner = sc.Params[i]
			}
		}
		found, verbatim := false, true
		for _, b := range sc.Blocks {
			ret, ok := b.Instrs[len(b.Instrs)-1].(*ssa.Return)
			if !ok || len(ir.Results(ret)) == 0 {
				continue
			}
			r0 := ir.Results(ret)[0]
			if ir.IsNilConst(r0) {
				continue
			}
			f2, v2 := marshalOf(sc, r0, inner, d+1)
			if f2 {
				found = true
				if !v2 || inner == nil {
					verbatim = false
				}
			}
		}
		return found, found && verbatim
	}
	// decode sites: (call, bytes operand, target fresh?, options)
	type decodeSite struct {
		at    *ssa.Call
		bytes ssa.Value
		fresh bool
		opts  int
	}
	decodeSites := func(fn *ssa.Function) []decodeSite {
		var out []decodeSite
		ir.EachInstr(fn, func(_ *ssa.BasicBlock, _ int, in ssa.Instruction) {
			call, ok := in.(*ssa.Call)
			if !ok {
				return
			}
			switch ir.CallName(call) {
			case "encoding/json.Unmarshal":
				_, fresh := ir.Unwrap(call.Call.Args[1]).(*ssa.Alloc)
				out = append(out, decodeSite{call, call.Call.Args[0], fresh, 0})
				return
			}
			sc := ir.StaticCallee(call)
			if sc == nil {
				return
			}
			if o := sc.Origin(); o != nil {
				sc = o // an instantiation of a generic helper: its body is the origin's
			}
			if !c.P.IsLib(sc) || sc.Blocks == nil {
				return
			}
			// a helper that unmarshals the bytes it is handed
			ir.EachInstr(sc, func(_ *ssa.BasicBlock, _ int, hin ssa.Instruction) {
				hc, ok := hin.(*ssa.Call)
				if !ok || ir.CallName(hc) != "encoding/json.Unmarshal" {
					return
				}
				for i, p := range sc.Params {
					if ir.Unwrap(hc.Call.Args[0]) == ssa.Value(p) && i < len(call.Call.Args) {
						tgt := ir.Unwrap(hc.Call.Args[1])
						_, fresh := tgt.(*ssa.Alloc)
						if tp, isParam := tgt.(*ssa.Parameter); isParam {
							for j, q := range sc.Params {
								if q == tp && j < len(call.Call.Args) {
									_, fresh = ir.Unwrap(call.Call.Args[j]).(*ssa.Alloc)
								}
							}
						}
						opts := 0
						ir.EachCall(sc, func(oc ssa.CallInstruction) {
							switch ir.CallName(oc) {
							case "(*encoding/json.Decoder).UseNumber", "(*encoding/json.Decoder).DisallowUnknownFields":
								opts++
							}
						})
						out = append(out, decodeSite{call, call.Call.Args[i], fresh, opts})
					}
				}
			})
		})
		return out
	}
	seen := map[string]bool{}
	found := false
	for _, fn := range c.P.LibFns {
		var mp *ssa.Parameter
		for _, p := range fn.Params {
			if isArgsMap(p.Type()) {
				mp = p
			}
		}
		if mp == nil || fn.Signature.Recv() != nil {
			continue
		}
		for _, ds := range decodeSites(fn) {
			ok, verbatim := marshalOf(fn, ds.bytes, mp, 0)
			if !ok {
				continue
			}
			name := ir.FuncCanon(fn)
			if seen[name] {
				continue
			}
			seen[name] = true
			found = true
			c.R.Check(ds.opts == 0, "R-bind", "binder "+name, c.Pos(ds.at.Pos()),
				"arguments are bound by Marshal(arguments) -> decode with encoding/json's default rules into the target",
				sprintf("%s does not bind by a plain JSON round trip of the very arguments map into its target (decoder options: %d)", name, ds.opts))
			c.R.Check(verbatim, "R-bind", "binder "+name+": arguments verbatim", c.Pos(ds.at.Pos()),
				"the map that is marshalled is the arguments map the caller sent, untouched",
				sprintf("%s rewrites the arguments before binding them: what the handler receives is no longer what the caller sent", name))
			c.R.Check(ds.fresh, "R-bind", "bind target in "+name, c.Pos(ds.at.Pos()), "the binding target is created for this call",
				sprintf("%s binds the arguments into a variable that is not created for this call: json.Unmarshal merges into the previous call's value, and concurrent calls share it", name))
		}
	}
	return found
}

// ---------------------------------------------------------------- R-fresh-schema
// A generated schema is handed to a tool builder that goes on modifying it (options add properties, mark members
// required). Each call must therefore get its own object: a function returning a schema must not return one that it
// obtained from a package-level cache, or two tools built from one Go type share — and corrupt — one schema.
func c18FreshSchema(c *Ctx) {
	n := 0
	for _, fn := range c.P.LibFns {
		res := fn.Signature.Results()
		if res.Len() == 0 || !strings.HasSuffix(ir.TypeStr(res.At(0).Type()), "openapi3.Schema") {
			continue
		}
		n++
		shared := ""
		var visit func(v ssa.Value, d int)
		visit = func(v ssa.Value, d int) {
			if d > 8 || v == nil || shared != "" {
				return
			}
			switch x := v.(type) {
			case *ssa.TypeAssert:
				visit(x.X, d+1)
			case *ssa.Extract:
				visit(x.Tuple, d+1)
			case *ssa.Phi:
				for _, e := range x.Edges {
					visit(e, d+1)
				}
			case *ssa.MakeInterface:
				visit(x.X, d+1)
			case *ssa.ChangeType:
				visit(x.X, d+1)
			case *ssa.Lookup:
				if u, ok := x.X.(*ssa.UnOp); ok {
					if g, ok := u.X.(*ssa.Global); ok {
						shared = "the package-level map " + g.Name()
					}
				}
			case *ssa.UnOp:
				if g, ok := x.X.(*ssa.Global); ok {
					shared = "the package variable " + g.Name()
				}
			case *ssa.Call:
				nm := ir.CallName(x)
				if nm == "(*sync.Map).Load" || nm == "(*sync.Map).LoadOrStore" {
					if g, ok := x.Call.Args[0].(*ssa.Global); ok {
						shared = "the package-level cache " + g.Name()
					}
				}
			}
		}
		ir.EachInstr(fn, func(blk *ssa.BasicBlock, _ int, in ssa.Instruction) {
			if r, ok := in.(*ssa.Return); ok && blk != fn.Recover && len(ir.Results(r)) > 0 {
				visit(ir.Results(r)[0], 0)
			}
		})
		c.R.Check(shared == "", "R-fresh-schema", "schema returned by "+ir.FuncCanon(fn), c.Pos(fn.Pos()), "a schema object created for this call",
			sprintf("%s can return a schema taken from %s: every caller receives the same *Schema, so the per-tool changes the builder options apply to it (extra properties, required members) leak into every other tool generated from that type", fname(fn), shared))
	}
	c.R.Min("R-fresh-schema", 6)
}

// c18Styles: one generator per reference style. The roots are the generator functions the exported (non-reflect)
// front-end calls; each is labelled by the ReferenceStyle constant whose case reaches the call ("default" for the
// fall-through), so that findings are keyed by the style a user selects, not by the names of internal functions.
func c18Styles(c *Ctx, gens []*ssa.Function) (roots []*ssa.Function, label map[*ssa.Function]string) {
	inGen := map[*ssa.Function]bool{}
	for _, g := range gens {
		inGen[g] = true
	}
	label = map[*ssa.Function]string{}
	rootSet := map[*ssa.Function]bool{}
	for _, fn := range c.P.LibFns {
		if fn.Pkg == nil && fn.Origin() != nil {
			// instantiation of a generic front-end: fn.Pkg is nil, use the origin's package
		}
		pkg := fn.Pkg
		if pkg == nil && fn.Origin() != nil {
			pkg = fn.Origin().Pkg
		}
		obj := fn.Object()
		if obj == nil && fn.Origin() != nil {
			obj = fn.Origin().Object()
		}
		if pkg == nil || pkg.Pkg.Path() != schemaPkg || takesReflectType(fn) || obj == nil || !obj.Exported() {
			continue
		}
		ir.EachInstr(fn, func(_ *ssa.BasicBlock, _ int, in ssa.Instruction) {
			call, ok := in.(*ssa.Call)
			if !ok {
				return
			}
			sc := ir.StaticCallee(call)
			if sc == nil || !inGen[sc] {
				return
			}
			rootSet[sc] = true
			lab := ""
			allFalse := true
			for _, g := range flow.Guards(fn, call.Block()) {
				bin, ok := g.If.Cond.(*ssa.BinOp)
				if !ok || bin.Op != token.EQL {
					continue
				}
				k, isK := ir.ConstInt(bin.Y)
				if !isK {
					continue
				}
				if g.Branch {
					lab = sprintf("%d", k)
					allFalse = false
				}
			}
			if lab == "" && allFalse {
				lab = "default"
			}
			if lab != "" {
				label[sc] = lab
			}
		})
	}
	roots = sortedFuncs(rootSet)
	for _, r := range roots {
		if label[r] == "" {
			label[r] = fname(r)
		}
	}
	return roots, label
}

func fnames(fs []*ssa.Function) string {
	var out []string
	for _, f := range fs {
		out = append(out, fname(f))
	}
	return strings.Join(out, ", ")
}

// c18ServedAsRegistered (R-served-as-registered): "the schema a client reads is, as JSON, the schema the server
// registered". On the server's side of tools/list a Tool is therefore never re-created by decoding JSON: a
// marshal/unmarshal "deep copy" goes through the schema types' own (un)marshallers, which are not round-trip safe
// (keywords next to a $ref are dropped, extension members move). The registered object itself is what is encoded.
func c18ServedAsRegistered(c *Ctx) {
	toolT := c.P.RootNamed("Tool")
	if toolT == nil {
		return
	}
	n := 0
	for _, fn := range c.P.LibFns {
		if clientSide(c, fn) {
			continue
		}
		ir.EachInstr(fn, func(_ *ssa.BasicBlock, _ int, in ssa.Instruction) {
			call, ok := in.(*ssa.Call)
			if !ok {
				return
			}
			nm := ir.CallName(call)
			var target ssa.Value
			switch nm {
			case "encoding/json.Unmarshal":
				target = call.Call.Args[1]
			case "(*encoding/json.Decoder).Decode":
				target = call.Call.Args[1]
			default:
				return
			}
			t := ir.Unwrap(target).Type()
			for {
				if pt, ok := t.(*types.Pointer); ok {
					t = pt.Elem()
					continue
				}
				break
			}
			if sl, ok := t.Underlying().(*types.Slice); ok {
				t = sl.Elem()
				if pt, ok := t.(*types.Pointer); ok {
					t = pt.Elem()
				}
			}
			if !types.Identical(t, toolT) {
				return
			}
			n++
			c.R.Violate("R-served-as-registered", "Tool decoded from JSON in "+fname(fn), c.Pos(call.Pos()),
				sprintf("%s, on the server side, re-creates a Tool by decoding JSON (a marshal/unmarshal copy): the schema types do not survive that round trip unchanged, so tools/list no longer serves the schema that was registered", fname(fn)))
		})
	}
	if n == 0 {
		c.R.Hold("R-served-as-registered", "no server-side function decodes a Tool from JSON", "", "registered tools are encoded as they are")
	}
}

// c18BytesOnlySlices (R-kind-cases): encoding/json writes a byte SLICE as a base64 string; a byte ARRAY ([N]byte) is
// written as an array of numbers. A generator's "element kind is Uint8" test may therefore take effect only where the
// kind is known to be reflect.Slice: the test itself, the branch on it, or — when it sits in a predicate helper — every
// call of the helper, is reachable only through the true edge of `Kind() == reflect.Slice` (a `case reflect.Slice,
// reflect.Array:` arm is not).
func c18BytesOnlySlices(c *Ctx, fn *ssa.Function, test *ssa.BinOp) {
	const kindSlice = 23
	sliceOnly := func(f *ssa.Function, b *ssa.BasicBlock) bool {
		for _, g := range flow.Guards(f, b) {
			bin, ok := g.If.Cond.(*ssa.BinOp)
			if !ok || bin.Op != token.EQL || !g.Branch {
				continue
			}
			call, ok := bin.X.(*ssa.Call)
			if !ok || !call.Call.IsInvoke() || call.Call.Method.Name() != "Kind" {
				continue
			}
			if k, ok := ir.ConstInt(bin.Y); ok && k == kindSlice {
				return true
			}
		}
		return false
	}
	ok := sliceOnly(fn, test.Block())
	where := fn
	if !ok && test.Referrers() != nil {
		usedInIf, returned := false, false
		allIf := true
		for _, r := range *test.Referrers() {
			switch y := r.(type) {
			case *ssa.If:
				usedInIf = true
				if !sliceOnly(fn, y.Block()) {
					allIf = false
				}
			case *ssa.Return, *ssa.Phi:
				returned = true
			}
		}
		if usedInIf && allIf && !returned {
			ok = true
		}
		if returned && !usedInIf {
			// a predicate helper: every library call site decides
			n, all := 0, true
			for _, e := range ir.Callers(c.G, fn) {
				if e.Site == nil || !c.P.IsLib(e.Caller.Func) {
					continue
				}
				n++
				if !sliceOnly(e.Caller.Func, e.Site.Block()) {
					all = false
					where = e.Caller.Func
				}
			}
			ok = n > 0 && all
		}
	}
	c.R.Check(ok, "R-kind-cases", "byte-sequence case of "+fname(fn)+" limited to slices", c.Pos(test.Pos()),
		"the element-kind test takes effect only where Kind() == reflect.Slice",
		sprintf("%s treats a sequence whose element kind is Uint8 as a base64 string in %s without the kind being known to be reflect.Slice (an arm shared with reflect.Array): encoding/json writes a [N]byte as an array of numbers, so the schema rejects the JSON encoding of every value with a byte array", fname(fn), fname(where)))
}

// ---------------------------------------------------------------- R-no-schema-gate
// "A typed tool handler receives exactly the value whose JSON encoding the caller sent": the binding is Marshal →
// Unmarshal into the handler's input type, which accepts everything encoding/json produces for that type. Nothing on
// the tools/call path may stand between the decoded arguments and the handler that judges them by the GENERATED schema
// (openapi3 Schema.VisitJSON / Validate…): wherever that schema is narrower than the encoding — null for a nil slice,
// base64 for []byte, the known findings of this property — the call would be refused although its arguments are the
// encoding of a value of the handler's type.
func c18NoSchemaGate(c *Ctx) {
	var roots []*ssa.Function
	for _, es := range c.MapLiteralDispatch() {
		for _, e := range es {
			if e.Method == "tools/call" {
				roots = append(roots, e.Target)
			}
		}
	}
	if len(roots) == 0 {
		c.R.Break("R-no-schema-gate: no dispatch-table entry for \"tools/call\"")
		return
	}
	n := 0
	for _, fn := range sortedFuncs(c.ReachSync(roots...)) {
		if !c.P.IsLib(fn) {
			continue
		}
		n++
		ir.EachCall(fn, func(call ssa.CallInstruction) {
			nm := ir.CallName(call)
			if !strings.Contains(nm, "openapi3") {
				return
			}
			base := nm[strings.LastIndex(nm, ".")+1:]
			if strings.HasPrefix(base, "VisitJSON") || strings.HasPrefix(base, "Validate") {
				c.R.Violate("R-no-schema-gate", "schema validation on the tools/call path in "+fname(fn), c.Pos(call.Pos()),
					sprintf("%s, on the way from a tools/call request to its handler, validates the arguments with %s against the tool's generated schema: encodings that encoding/json produces for the handler's input type but the schema does not admit (null for nil slices and maps, base64 for []byte, …) are refused before the handler runs — the typed handler no longer receives the value the caller sent", fname(fn), nm))
			}
		})
	}
	c.R.Hold("R-no-schema-gate", "no schema validation between tools/call and the handler", "", sprintf("%d functions on the tools/call path examined", n))
}
